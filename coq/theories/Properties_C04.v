(* C04 -- LP/QP primal-dual interior point: `converged` means feasible and optimal as stated.
   Theorems about the executable model of C04_Defs (exact rationals; all programs, points, multipliers). The
   decisions [feasible_dec], [converged_dec], [status_dec] are the expressions of src/program/solver.cpp translated
   on every run (LNGen.Src_c04). What is *not* proved here (the Newton iteration, that Eigen's fullPivLu returns a
   factorisation, rounding) is listed in notes/C04.md and searched on the implementation.
   The last two groups bring program::reduce (the reduced equality system assembled from an LU factorisation given as an
   oracle answer, C04_Reduce.v) and the step-length kernel of the Newton iteration (C04_Step.v) inside the model. *)
From Coq Require Import List ZArith QArith Qminmax Qabs Bool Lia Lqa.
From LNGen Require Import Src_c04.
From LN Require Import C04_Defs C04_Proofs C04_Reduce C04_ReduceProofs C04_Step C04_StepProofs C04_Iter_Defs C04_Iter.
Import ListNotations.
Local Open Scope Q_scope.

(* ---- weak duality with residuals (upper side of |f(x) - f*|) ------------------------------------------------------ *)
Theorem C04_gap_upper : forall P x u v y,
  wf P -> psd P -> length x = dim P -> Forall (fun t => 0 <= t) u -> feasible_pt P y ->
  objective P x - objective P y <= m_eta P x u + dot (m_rdual P x u v) (vsub x y) - dot v (m_rprim P x).
Proof. exact gap_upper. Qed.
Print Assumptions C04_gap_upper.

(* ... with |rdual|_2 <= Rd, |x-y|_2 <= Dx (Cauchy-Schwarz, squared since sqrt is not rational), |rprim|_inf <= Rp *)
Theorem C04_gap_upper_norms : forall P x u v y Rd Dx Rp,
  wf P -> psd P -> length x = dim P -> Forall (fun t => 0 <= t) u -> feasible_pt P y ->
  0 <= Rd -> 0 <= Dx -> 0 <= Rp ->
  sumsq (m_rdual P x u v) <= Rd * Rd -> sumsq (vsub x y) <= Dx * Dx -> Forall (fun t => Qabs t <= Rp) (m_rprim P x) ->
  objective P x - objective P y <= m_eta P x u + Rd * Dx + norm1 v * Rp.
Proof. exact gap_upper_norms. Qed.
Print Assumptions C04_gap_upper_norms.

(* ---- the other side, against a KKT point (how the generator fixes the optimum) ------------------------------------ *)
Theorem C04_gap_lower : forall P x y us vs rho delta,
  wf P -> psd P -> length x = dim P -> kkt_pt P y us vs -> 0 <= rho -> 0 <= delta ->
  Forall (fun t => Qabs t <= rho) (m_rprim P x) -> Forall (fun t => t <= delta) (gxh P x) ->
  - (norm1 vs * rho) - norm1 us * delta <= objective P x - objective P y.
Proof. exact gap_lower_bounds. Qed.
Print Assumptions C04_gap_lower.

(* ---- normalisation: same feasible set, objective scaled by the divisor, same minimisers --------------------------- *)
Theorem C04_normalize_equiv : forall dQ dA dG P, 0 < dQ -> 0 < dA -> 0 < dG ->
  (forall y, feasible_pt (normalizeP dQ dA dG P) y <-> feasible_pt P y) /\
  (forall x, objective P x == dQ * objective (normalizeP dQ dA dG P) x) /\
  (forall y, is_min (normalizeP dQ dA dG P) y <-> is_min P y).
Proof. exact normalize_equiv. Qed.
Print Assumptions C04_normalize_equiv.

(* the objective the solver reports (`m_fx *= m_mufx`) is the caller's objective at x *)
Theorem C04_objective_reported : forall dQ dA dG P x, 0 < dQ -> m_fx dQ (normalizeP dQ dA dG P) x == objective P x.
Proof. exact objective_reported. Qed.
Print Assumptions C04_objective_reported.

(* ---- the decisions, as the source states them ---------------------------------------------------------------------- *)
Theorem C04_converged_iff : forall feas eta rd2 rp2 eps, 0 <= eps ->
  (status_dec feas eta rd2 rp2 eps = st_converged <->
   feas = true /\ eta < eps /\ rd2 < eps * eps /\ rp2 < eps * eps).
Proof. intros. rewrite status_dec_converged. now apply converged_dec_iff. Qed.
Print Assumptions C04_converged_iff.

Theorem C04_feasible_iff : forall P x e2, 0 <= e2 ->
  (feasible_dec P x e2 = true <->
   (pA P = [] \/ sumsq (m_rprim P x) < e2 * e2) /\ (pG P = [] \/ vmaxc (gxh P x) < e2)).
Proof. exact feasible_dec_iff. Qed.
Print Assumptions C04_feasible_iff.

(* ---- the internal feasibility test transfers to the program as the caller stated it ------------------------------- *)
Theorem C04_feasible_transfer : forall dQ dA dG P x e2, 0 < dA -> 0 < dG -> 0 < e2 ->
  feasible_dec (normalizeP dQ dA dG P) x e2 = true ->
  user_feasible_b P x (e2 * dA) (e2 * dG) = true.
Proof. exact feasible_transfer. Qed.
Print Assumptions C04_feasible_transfer.

Theorem C04_never_converged_if_infeasible : forall dQ dA dG P e2 eps, 0 < dA -> 0 < dG -> 0 < e2 ->
  (forall x, user_feasible_b P x (e2 * dA) (e2 * dG) = false) ->
  forall x eta rdual rprim, model_done (normalizeP dQ dA dG P) x eta rdual rprim eps e2 <> st_converged.
Proof. exact never_converged_if_infeasible. Qed.
Print Assumptions C04_never_converged_if_infeasible.

(* ---- unbounded programs: a descent ray steeper than eps per unit length forbids `converged` ------------------------ *)
Theorem C04_never_converged_if_steep_ray : forall P x u v d eps e2 Dd,
  wf P -> psd P -> length x = dim P -> Forall (fun t => 0 <= t) u -> ray P d ->
  0 < eps -> 0 <= Dd -> sumsq d <= Dd * Dd -> dot (pc P) d < - (eps * Dd) ->
  model_status P x u v eps e2 <> st_converged.
Proof. exact never_converged_if_steep_ray. Qed.
Print Assumptions C04_never_converged_if_steep_ray.

(* ---- a state the model declares converged is eps-optimal; on the caller's program with the factor M = dQ ---------- *)
Theorem C04_converged_gap : forall P x u v y eps e2 Dx,
  wf P -> psd P -> length x = dim P -> Forall (fun t => 0 <= t) u -> feasible_pt P y ->
  0 < eps -> 0 <= Dx -> sumsq (vsub x y) <= Dx * Dx ->
  model_status P x u v eps e2 = st_converged ->
  objective P x - objective P y <= eps * (1 + Dx + norm1 v).
Proof. exact converged_gap. Qed.
Print Assumptions C04_converged_gap.

Theorem C04_converged_gap_user : forall dQ dA dG P x u v y eps e2 Dx,
  wf (normalizeP dQ dA dG P) -> psd (normalizeP dQ dA dG P) -> 0 < dQ -> 0 < dA -> 0 < dG ->
  length x = dim P -> Forall (fun t => 0 <= t) u -> feasible_pt P y ->
  0 < eps -> 0 <= Dx -> sumsq (vsub x y) <= Dx * Dx ->
  model_status (normalizeP dQ dA dG P) x u v eps e2 = st_converged ->
  objective P x - objective P y <= dQ * eps * (1 + Dx + norm1 v).
Proof. exact converged_gap_user. Qed.
Print Assumptions C04_converged_gap_user.

(* ---- what is not proved: the property for the *implementation* needs the iteration and floating point ------------- *)
(* the full optimality clause with the returned multipliers on both sides (the lower side is proved only with the
   multipliers of the optimum, C04_gap_lower) *)
Definition C04_two_sided_full_statement : Prop := forall dQ dA dG P x u v y eps e2 Dx,
  wf (normalizeP dQ dA dG P) -> psd (normalizeP dQ dA dG P) -> 0 < dQ -> 0 < dA -> 0 < dG ->
  length x = dim P -> Forall (fun t => 0 <= t) u -> is_min P y ->
  0 < eps -> 0 <= Dx -> sumsq (vsub x y) <= Dx * Dx ->
  model_status (normalizeP dQ dA dG P) x u v eps e2 = st_converged ->
  Qabs (objective P x - objective P y) <= 100 * dQ * eps * (1 + Dx + norm1 u + norm1 v).

(* ---- non-vacuity ------------------------------------------------------------------------------------------------------ *)
(* min x1^2 + x2  s.t. x1 + x2 = 1, x >= 0: rank-deficient Q, optimum (1/2,1/2), v* = -1, u* = 0 *)
Definition P0 : program := mkP [[2; 0]; [0; 0]] [0; 1] [[1; 1]] [1] [[-1; 0]; [0; -1]] [0; 0].
Definition y0 : vec := [1 # 2; 1 # 2].

Example C04_nonvacuous_wf : wf P0.
Proof. constructor; simpl; try (right; reflexivity); repeat constructor; auto. Qed.

Example C04_nonvacuous_psd : psd P0.
Proof.
  split.
  - intros [|a1 [|a2 [|? ?]]] [|b1 [|b2 [|? ?]]]; try discriminate. intros _ _. unfold bil. simpl. ring.
  - intros [|a1 [|a2 [|? ?]]]; try discriminate. intros _. unfold bil. simpl. pose proof (sq_nonneg a1). lra.
Qed.

Example C04_nonvacuous_feasible : feasible_pt P0 y0.
Proof.
  unfold feasible_pt. simpl. repeat split; repeat constructor; try reflexivity; unfold Qle; simpl; lia.
Qed.

Example C04_nonvacuous_kkt : kkt_pt P0 y0 [0; 0] [-1].
Proof.
  split; [exact C04_nonvacuous_feasible|]. simpl. repeat split; repeat constructor; try reflexivity; unfold Qle; simpl; lia.
Qed.

(* the model declares the optimum itself converged, a point 1/4 away not; a clearly infeasible and a clearly
   unbounded program satisfy the hypotheses of the two `never converged` theorems *)
Example C04_nonvacuous_converged : model_status P0 y0 [0; 0] [-1] (1 # 10) (1 # 100) = st_converged.
Proof. vm_compute. reflexivity. Qed.

Example C04_nonvacuous_not_converged : model_status P0 [3 # 4; 1 # 4] [1 # 100; 1 # 100] [-1] (1 # 10) (1 # 100) <> st_converged.
Proof. vm_compute. discriminate. Qed.

Example C04_nonvacuous_gap :
  objective P0 y0 - objective P0 y0 <= (1 # 10) * (1 + 0 + norm1 [-1]).
Proof.
  apply (C04_converged_gap P0 y0 [0; 0] [-1] y0 (1 # 10) (1 # 100) 0);
    try exact C04_nonvacuous_wf; try exact C04_nonvacuous_psd; try exact C04_nonvacuous_feasible;
    try exact C04_nonvacuous_converged; try reflexivity; try lra.
  - repeat constructor; lra.
  - vm_compute. discriminate.
Qed.

(* x <= 0 and x >= 1 *)
Definition Pinf : program := mkP [] [1] [] [] [[1]; [-1]] [0; -1].

Example C04_nonvacuous_infeasible : forall x, user_feasible_b Pinf x ((1 # 100) * 1) ((1 # 100) * 1) = false.
Proof.
  intros x. unfold user_feasible_b. simpl.
  destruct x as [|t x]; simpl.
  - vm_compute. reflexivity.
  - destruct (Qltb (1 * t + 0 - 0) ((1 # 100) * 1)) eqn:E1; [|reflexivity].
    destruct (Qltb (-1 * t + 0 - -1) ((1 # 100) * 1)) eqn:E2; [|reflexivity].
    apply Qltb_lt in E1. apply Qltb_lt in E2. exfalso. lra.
Qed.

(* min -x s.t. -x <= 0 *)
Definition Punb : program := mkP [] [-1] [] [] [[-1]] [0].

Example C04_nonvacuous_ray : wf Punb /\ psd Punb /\ ray Punb [1] /\ sumsq [1] <= 1 * 1 /\ dot (pc Punb) [1] < - ((1 # 10) * 1).
Proof.
  split; [constructor; simpl; repeat constructor; auto|].
  split; [split; [intros; unfold bil; simpl; rewrite !dot_nil_r; reflexivity|intros; unfold bil; simpl; rewrite dot_nil_r; lra]|].
  split; [unfold ray; simpl; repeat split; repeat constructor; unfold Qle; simpl; lia|].
  split; vm_compute; reflexivity || (intro H; discriminate).
Qed.

(* the internal feasibility test is satisfiable and is really transferred *)
Example C04_nonvacuous_transfer :
  feasible_dec (normalizeP 2 2 1 P0) y0 (1 # 100) = true /\ user_feasible_b P0 y0 ((1 # 100) * 2) ((1 # 100) * 1) = true.
Proof. split; vm_compute; reflexivity. Qed.

(* ==== program::reduce: dependent equality rows are eliminated without changing the solution set ======================= *)
(* [lu_valid M r c f]: f = (P, Q, L, U, rank) is a full-pivoting LU factorisation of M^T, P M^T Q = L U exactly, P and Q
   permutations (index lists), U upper triangular with `rank` non-zero pivots and zero rows below, L unit lower triangular.
   Hypothesis about Q: only that it is a permutation of the r rows of [A|b]. Q does not occur in the product the code forms
   (U^T.block(0,0,rank,n) * L^T * P): that product consists of the rows q_0 .. q_{rank-1} of [A|b] themselves
   (C04_ReduceProofs.assemble_entry), Q only names them, and the order of equations does not matter for a solution set. *)

(* (1) the solution set is exactly preserved: every theorem about the reduced program is a theorem about the caller's *)
Theorem C04_reduce_same_solutions : forall A b ncols f,
  rows_ok ncols A -> length b = length A ->
  lu_valid (stack A b) (length A) (S ncols) f ->
  forall x, length x = ncols ->
    (sat A b x <-> sat (reduced_A A b ncols f) (reduced_b A b ncols f) x).
Proof. exact reduce_same_solutions. Qed.
Print Assumptions C04_reduce_same_solutions.

(* (2) dropping dependent rows never turns an infeasible equality system feasible (b is reduced together with A) *)
Theorem C04_reduce_inconsistent_preserved : forall A b ncols f,
  rows_ok ncols A -> length b = length A ->
  lu_valid (stack A b) (length A) (S ncols) f ->
  (forall x, length x = ncols -> ~ sat A b x) ->
  forall x, length x = ncols -> ~ sat (reduced_A A b ncols f) (reduced_b A b ncols f) x.
Proof. exact reduce_inconsistent_preserved. Qed.
Print Assumptions C04_reduce_inconsistent_preserved.

(* (3) rank = rows: the early return, the system is returned as it is (flag: false only for an empty system) *)
Theorem C04_reduce_full_rank_identity : forall A b ncols f,
  rows_ok ncols A -> length b = length A -> lu_rank f = length A ->
  reduce_model A b ncols f = (negb (Nat.eqb (length A) 0), (A, b)).
Proof. exact reduce_full_rank_identity. Qed.
Print Assumptions C04_reduce_full_rank_identity.

(* when rows are removed exactly `rank` rows remain *)
Theorem C04_reduce_row_count : forall A b ncols f, length A <> 0%nat -> lu_rank f <> length A ->
  length (reduced_A A b ncols f) = lu_rank f /\ length (reduced_b A b ncols f) = lu_rank f.
Proof. exact reduce_row_count. Qed.
Print Assumptions C04_reduce_row_count.

(* the kept rows [A'|b'] are linearly independent (the only place where L unit lower triangular is used): the KKT matrix
   the solver factorises afterwards is built from a full-row-rank equality block *)
Theorem C04_reduce_rows_independent : forall M r c f,
  shape M r c -> lu_valid M r c f -> lu_rank f <> r ->
  forall w : nat -> Q,
    (forall col, (col < c)%nat -> sum_upto (lu_rank f) (fun i => w i * entry (reduce_sys M r c f) i col) == 0) ->
    forall i, (i < lu_rank f)%nat -> w i == 0.
Proof. intros M r c f Hs Hv E. exact (reduce_rows_independent M r c f Hv E). Qed.
Print Assumptions C04_reduce_rows_independent.

(* the hypothesis is decidable: the test the driver evaluates on the factors Eigen returned implies it *)
Theorem C04_reduce_valid_checkable : forall M r c f, lu_valid_b M r c f = true -> lu_valid M r c f.
Proof. exact lu_valid_b_sound. Qed.
Print Assumptions C04_reduce_valid_checkable.

(* x1 + x2 = 1, 2 x1 + 2 x2 = 2, x1 = 0 with the factorisation Eigen returns for [A|b]^T (rank 2): rows 2 and 3 are kept *)
Definition Ared : mat := [[1; 1]; [2; 2]; [1; 0]].
Definition bred : vec := [1; 2; 0].
Definition fred : lufact :=
  mkLU [0; 1; 2]%nat [1; 2; 0]%nat [[1; 0; 0]; [1; 1; 0]; [1; 1; 1]] [[2; 1; 1]; [0; -1; 0]; [0; 0; 0]] 2.

Example C04_nonvacuous_reduce_valid : lu_valid (stack Ared bred) (length Ared) 3 fred.
Proof. apply C04_reduce_valid_checkable. vm_compute. reflexivity. Qed.

Example C04_nonvacuous_reduce_rows : length (reduced_A Ared bred 2 fred) = 2%nat /\ sat_b (reduced_A Ared bred 2 fred) (reduced_b Ared bred 2 fred) [0; 1] = true.
Proof. split; vm_compute; reflexivity. Qed.

Example C04_nonvacuous_reduce_solution : sat Ared bred [0; 1] /\ sat (reduced_A Ared bred 2 fred) (reduced_b Ared bred 2 fred) [0; 1].
Proof.
  assert (sat Ared bred [0; 1]) as H by (repeat constructor).
  split; [exact H|].
  apply (C04_reduce_same_solutions Ared bred 2 fred); try reflexivity; try exact H.
  - repeat constructor.
  - exact C04_nonvacuous_reduce_valid.
Qed.

(* an inconsistent right-hand side (2 x1 + 2 x2 = 3) is a rank-3 system: nothing is dropped, nothing becomes feasible *)
Example C04_nonvacuous_reduce_inconsistent : forall x, length x = 2%nat -> ~ sat Ared [1; 3; 0] x.
Proof.
  intros [|x1 [|x2 [|? ?]]] Hl H; try discriminate.
  inversion H as [|? ? ? ? H1 H']; subst. inversion H' as [|? ? ? ? H2 H'']; subst. simpl in H1, H2. lra.
Qed.

(* ==== the step-length kernel keeps the multipliers strictly positive =================================================== *)
(* u > 0, DBL_MAX > 0, 0 < s0 < 1 (solver::s0, default 0.999), 0 < beta <= 1, any number of shrinks in the two stages: the
   new multipliers u + s du are strictly positive -- the invariant u >= 0 that the gap theorems assume of the returned state *)
Theorem C04_step_keeps_positive : forall big s0 beta u du k1 k2,
  0 < big -> Forall (fun t => 0 < t) u -> length du = length u ->
  0 < s0 -> s0 < 1 -> 0 < beta -> beta <= 1 ->
  Forall (fun t => 0 < t) (step_point u du (step_len big s0 beta u du k1 k2)).
Proof. exact step_keeps_positive. Qed.
Print Assumptions C04_step_keeps_positive.

Theorem C04_step_bounds : forall big s0 beta u du k1 k2,
  0 < big -> Forall (fun t => 0 < t) u -> 0 < s0 -> 0 < beta -> beta <= 1 ->
  0 < step_len big s0 beta u du k1 k2 /\ step_len big s0 beta u du k1 k2 <= s0 * make_smax big u du /\ make_smax big u du <= 1.
Proof.
  intros big s0 beta u du k1 k2 Hb Hu Hs0 Hbe Hbe1.
  destruct (step_len_spec big s0 beta u du k1 k2 Hb (Forall_nth_pos u Hu) Hs0 Hbe Hbe1) as [H1 H2].
  destruct (make_smax_spec big u du Hb (Forall_nth_pos u Hu)) as [_ [H3 _]].
  repeat split; assumption.
Qed.
Print Assumptions C04_step_bounds.

(* solver::s0 = 1 is inside the registered range (0 < s0 <= 1): then only u + s du >= 0 holds ... *)
Theorem C04_step_keeps_nonneg : forall big s0 beta u du k1 k2,
  0 < big -> Forall (fun t => 0 < t) u -> length du = length u ->
  0 < s0 -> s0 <= 1 -> 0 < beta -> beta <= 1 ->
  forall i, (i < length u)%nat -> 0 <= nth i u 0 + step_len big s0 beta u du k1 k2 * nth i du 0.
Proof. exact step_keeps_nonneg. Qed.
Print Assumptions C04_step_keeps_nonneg.

(* ... and strict positivity is false of the faithful model: u = 1, du = -1, s0 = 1 steps onto the boundary *)
Theorem C04_step_strict_with_s0_one_refuted :
  exists u du, Forall (fun t => 0 < t) u /\ length du = length u /\
               step_point u du (step_len 2 1 (9 # 10) u du 0 0) = [0 # 1].
Proof. exact step_boundary_witness. Qed.
Print Assumptions C04_step_strict_with_s0_one_refuted.

Example C04_nonvacuous_step :
  all_pos_b (step_point [1; 2] [-(4); 1] (step_len 1000 (999 # 1000) (9 # 10) [1; 2] [-(4); 1] 1 2)) = true
  /\ step_len 1000 (999 # 1000) (9 # 10) [1; 2] [-(4); 1] 0 0 == (999 # 4000).
Proof. split; vm_compute; reflexivity. Qed.

(* ==== the Newton iteration of solve_with_inequality (C04_Iter_Defs.v: update, reduced KKT system, back-substitution, the two
   backtracking stages, the five exits; the linear solve is an oracle answer) ============================================ *)
(* vectors are compared entrywise up to Qeq ([veq]); [qmv P d] is Q d (the zero vector for a linear program) *)

(* (1) elimination is correct: an exact solution (dx, dv) of the reduced system the code hands to the LDLT,
       [[Q - G' diag(u/(Gx-h)) G, A'], [A, 0]] (dx, dv) = (-(rdual + G' (rcent/(Gx-h))), -rprim),
   together with du = (rcent - u .* (G dx)) / (Gx - h) solves the full primal-dual Newton system
       Q dx + G' du + A' dv = -rdual,   -u .* (G dx) - (Gx-h) .* du = -rcent,   A dx = -rprim
   for every program, every point with Gx - h <> 0 entrywise, every right-hand side (stored residuals included) *)
Theorem C04_iter_elimination : forall P x u rd rc rp dx dv du,
  wf P -> length x = dim P -> length u = length (pG P) -> length rd = dim P -> length rc = length (pG P) ->
  length rp = length (pA P) -> length dx = dim P -> length dv = length (pA P) ->
  Forall (fun t => ~ t == 0) (gxh P x) ->
  veq (mv (lmat P x u) (dx ++ dv)) (lvec P x rd rc rp) ->
  veq du (back_subst P x u rc dx) ->
  veq (vadd (vadd (qmv P dx) (mtv (dim P) (pG P) du)) (mtv (dim P) (pA P) dv)) (vopp rd) /\
  veq (vsub (vopp (vmul u (mv (pG P) dx))) (vmul (gxh P x) du)) (vopp rc) /\
  veq (mv (pA P) dx) (vopp rp).
Proof. exact iter_elimination. Qed.
Print Assumptions C04_iter_elimination.

(* (2) both linear residuals contract exactly by 1 - s along such a direction, for every step length s *)
Theorem C04_iter_rprim_contracts : forall P x dx s, wf P -> length x = dim P -> length dx = dim P ->
  veq (mv (pA P) dx) (vopp (m_rprim P x)) ->
  veq (m_rprim P (vadd x (vscale s dx))) (vscale (1 - s) (m_rprim P x)).
Proof. exact iter_rprim_contracts. Qed.
Print Assumptions C04_iter_rprim_contracts.

Theorem C04_iter_rdual_contracts : forall P x u v dx du dv s,
  wf P -> length x = dim P -> length u = length (pG P) -> length v = length (pA P) ->
  length dx = dim P -> length du = length (pG P) -> length dv = length (pA P) ->
  veq (vadd (vadd (qmv P dx) (mtv (dim P) (pG P) du)) (mtv (dim P) (pA P) dv)) (vopp (m_rdual P x u v)) ->
  veq (m_rdual P (vadd x (vscale s dx)) (vadd u (vscale s du)) (vadd v (vscale s dv))) (vscale (1 - s) (m_rdual P x u v)).
Proof. exact iter_rdual_contracts. Qed.
Print Assumptions C04_iter_rdual_contracts.

(* (1) + (2) end to end: the reduced system solved on the residuals of the current point *)
Theorem C04_iter_newton_step_contracts : forall P x u v rc dx dv s,
  wf P -> length x = dim P -> length u = length (pG P) -> length v = length (pA P) -> length rc = length (pG P) ->
  length dx = dim P -> length dv = length (pA P) -> Forall (fun t => ~ t == 0) (gxh P x) ->
  veq (mv (lmat P x u) (dx ++ dv)) (lvec P x (m_rdual P x u v) rc (m_rprim P x)) ->
  let du := back_subst P x u rc dx in
  veq (m_rprim P (vadd x (vscale s dx))) (vscale (1 - s) (m_rprim P x)) /\
  veq (m_rdual P (vadd x (vscale s dx)) (vadd u (vscale s du)) (vadd v (vscale s dv))) (vscale (1 - s) (m_rdual P x u v)).
Proof.
  intros P x u v rc dx dv s W Lx Lu Lv Lrc Ldx Ldv Hnz Hsys du.
  assert (Lrd : length (m_rdual P x u v) = dim P).
  { rewrite (veq_length _ _ (m_rdual_char P x u v W)).
    pose proof (wf_Grows P W). pose proof (wf_Arows P W). pose proof (length_qmv P x W).
    assert (length (pc P) = dim P) by reflexivity. len. }
  assert (Lrp : length (m_rprim P x) = length (pA P)) by (unfold m_rprim; pose proof (wf_b P W); len).
  destruct (iter_elimination P x u (m_rdual P x u v) rc (m_rprim P x) dx dv du W Lx Lu Lrd Lrc Lrp Ldx Ldv Hnz Hsys (veq_refl _))
    as [N1 [_ N3]].
  assert (Ldu : length du = length (pG P)).
  { unfold du. rewrite (veq_length _ _ (back_subst_veq P x u rc dx)). pose proof (length_gxh P x W). len. }
  split; [apply iter_rprim_contracts; assumption|apply iter_rdual_contracts; assumption].
Qed.
Print Assumptions C04_iter_newton_step_contracts.

(* (3) invariants of every iterate the loop can reach, for every oracle answer (and every du): lengths, G x - h < 0 strictly
   (stage 1's test is the guard, stage 2 only shrinks the step: the segment to a strictly feasible point is strictly feasible)
   and u > 0 (0 < s <= s0 * make_smax with s0 < 1: the argument of C04_step_keeps_positive) *)
Theorem C04_iter_step_invariant : forall P mufx par st ans du,
  wf P -> 0 < p_big par -> 0 < p_s0 par -> p_s0 par < 1 -> 0 < p_beta par -> p_beta par <= 1 -> (0 <= p_maxls par)%Z ->
  inv P st -> inv P (snd (fst (iter_core P mufx par st ans du))).
Proof. exact iter_core_invariant. Qed.
Print Assumptions C04_iter_step_invariant.

Theorem C04_iter_start_invariant : forall P mufx par x0 st,
  wf P -> length x0 = dim P -> iter_start P mufx par x0 = Some st -> inv P st.
Proof. exact iter_start_invariant. Qed.
Print Assumptions C04_iter_start_invariant.

Theorem C04_iter_run_invariant : forall P mufx par,
  wf P -> 0 < p_big par -> 0 < p_s0 par -> p_s0 par < 1 -> 0 < p_beta par -> p_beta par <= 1 -> (0 <= p_maxls par)%Z ->
  forall fuel iters maxit st answers, inv P st -> inv P (fst (iter_run fuel iters maxit P mufx par st answers)).
Proof. exact iter_run_invariant. Qed.
Print Assumptions C04_iter_run_invariant.

(* hence eta > 0 and update() never divides by zero at an iterate *)
Theorem C04_iter_eta_positive : forall P st, wf P -> inv P st -> pG P <> [] ->
  0 < m_eta P (i_x st) (i_u st) /\ Forall (fun t => ~ t == 0) (gxh P (i_x st)).
Proof. intros P st W I Hne. split; [apply inv_eta_positive; assumption|apply inv_domain; assumption]. Qed.
Print Assumptions C04_iter_eta_positive.

(* (4) stage 2 returns by exhaustion or at a trial point that passed `residual <= (1 - alpha s) r0` (squared: the norms are
   square roots); an exhausted stage 2 with residual > r0 re-evaluates update() at the current point, which with inequalities and
   equalities present overwrites every residual field ... *)
Theorem C04_iter_stage2_exit : forall P mufx miu alpha x u v dx du dv beta r0sq maxls s res k s' res',
  0 < beta -> beta <= 1 -> 0 < s -> (0 <= maxls)%Z ->
  stage2 (S (Z.to_nat maxls)) src_c04_ls_start2 maxls P mufx miu alpha x u v dx du dv s beta r0sq res = (k, s', res') ->
  k = maxls \/
  (exists rprev, res' = upd P mufx miu (trial x dx s') (trial u du s') (trial v dv s') rprev) /\
  res2 res' <= phi (1 - alpha * s') * r0sq /\
  (0 <= 1 - alpha * s' -> res2 res' <= (1 - alpha * s') * (1 - alpha * s') * r0sq).
Proof. exact iter_stage2_exit. Qed.
Print Assumptions C04_iter_stage2_exit.

Theorem C04_iter_revert_restores : forall P mufx miu x u v r0 rt, pG P <> [] -> pA P <> [] ->
  upd P mufx miu x u v rt = upd P mufx miu x u v r0.
Proof. exact iter_revert_restores. Qed.
Print Assumptions C04_iter_revert_restores.

(* ... and without equalities everything but m_rprim (the empty vector) *)
Theorem C04_iter_revert_restores_ineq_only : forall P mufx miu x u v r1 r2, pG P <> [] ->
  s_fx (upd P mufx miu x u v r1) = s_fx (upd P mufx miu x u v r2) /\
  s_eta (upd P mufx miu x u v r1) = s_eta (upd P mufx miu x u v r2) /\
  s_rdual (upd P mufx miu x u v r1) = s_rdual (upd P mufx miu x u v r2) /\
  s_rcent (upd P mufx miu x u v r1) = s_rcent (upd P mufx miu x u v r2) /\
  (pA P = [] -> s_rprim (upd P mufx miu x u v r1) = s_rprim r1).
Proof. exact upd_independent_ineq. Qed.
Print Assumptions C04_iter_revert_restores_ineq_only.

(* (5) the five exits: which state and which status each leaves (exits 1, 2: the state as it was; exit 3: (x, u, v) as they
   were, the residual fields either re-evaluated (residual > r0) or those of the last TRIAL point (residual <= r0); exits 1, 2,
   3, 5: status = done() on the stored numbers; exit 4: failed; exit 0: status untouched) *)
Theorem C04_iter_exits : forall P mufx par st ans du,
  let k := fst (fst (iter_core P mufx par st ans du)) in
  let st' := snd (fst (iter_core P mufx par st ans du)) in
  ((k = 1%Z \/ k = 2%Z) /\ i_x st' = i_x st /\ i_u st' = i_u st /\ i_v st' = i_v st /\ i_res st' = i_res st /\ i_status st' = stored_done P par st')
  \/ (k = 3%Z /\ i_x st' = i_x st /\ i_u st' = i_u st /\ i_v st' = i_v st /\ i_status st' = stored_done P par st' /\
      exists rt, (res2 (i_res st) < res2 rt /\ i_res st' = upd P mufx (p_miu par) (i_x st) (i_u st) (i_v st) rt)
                 \/ (res2 rt <= res2 (i_res st) /\ i_res st' = rt))
  \/ (k = 4%Z /\ i_status st' = st_failed)
  \/ (k = 5%Z /\ i_status st' = stored_done P par st')
  \/ (k = 0%Z /\ i_status st' = i_status st).
Proof. exact iter_core_exits. Qed.
Print Assumptions C04_iter_exits.

(* `converged` only through done(): feasible and eta, |rdual|^2, |rprim|^2 below epsilon, epsilon^2 -- on the STORED numbers *)
Theorem C04_iter_converged_only_through_done : forall P mufx par st ans du, 0 <= p_eps par -> i_status st <> st_converged ->
  let k := fst (fst (iter_core P mufx par st ans du)) in
  let st' := snd (fst (iter_core P mufx par st ans du)) in
  i_status st' = st_converged ->
  (k = 1 \/ k = 2 \/ k = 3 \/ k = 5)%Z /\
  feasible_dec P (i_x st') (p_eps2 par) = true /\ s_eta (i_res st') < p_eps par /\
  sumsq (s_rdual (i_res st')) < p_eps par * p_eps par /\ sumsq (s_rprim (i_res st')) < p_eps par * p_eps par.
Proof. exact iter_converged_only_through_done. Qed.
Print Assumptions C04_iter_converged_only_through_done.

(* the `very precise convergence` test (exit 5), for rational roots a, b, c, d of the four squared norms *)
Theorem C04_iter_precise_test : forall peta ceta prd2 crd2 prp2 crp2 eps0 a b c d,
  0 <= eps0 -> 0 <= a -> 0 <= b -> 0 <= c -> 0 <= d -> a * a == prd2 -> b * b == crd2 -> c * c == prp2 -> d * d == crp2 ->
  (precise_test peta ceta prd2 crd2 prp2 crp2 eps0 = true <-> peta - ceta < eps0 /\ a - b < eps0 /\ c - d < eps0).
Proof. exact precise_test_spec. Qed.
Print Assumptions C04_iter_precise_test.

(* false of the faithful model (known finding `objective-stale-trial-point`): "after every pass the reported objective / gap are
   those of the returned x". min 2x s.t. -x <= 0 at x = 1, u = 2 (strictly feasible, residuals of that point, the EXACT Newton
   direction), solver::alpha = 0.99, beta = 0.99, max_lsearch_iters = 10, s0 = 0.999, miu = 10 (all inside the registered ranges):
   stage 2 is exhausted with residual <= r0, x is returned as it was, m_fx and m_eta are those of the last trial point, and
   done() decides (unbounded) on that mixture *)
Definition Pst : program := mkP [] [2] [] [] [[-(1)]] [0].
Definition par_st : params := mkPar (999 # 1000) 10 (99 # 100) (99 # 100) (1 # 10000000000) 0 (1 # 100000000) 10 1000000.
Definition st_st : istate := mkI [1] [2] [] (upd Pst 1 10 [1] [2] [] (res_init Pst)) 0.
Definition ans_st : answer :=
  let r := i_res st_st in
  mkAns [nth 0 (lvec Pst [1] (s_rdual r) (s_rcent r) (s_rprim r)) 0 / nth 0 (nth 0 (lmat Pst [1] [2]) []) 0] [] true true.

Theorem C04_iter_reported_numbers_of_returned_point_refuted :
  exists P mufx par st ans,
    inv P st /\ i_res st = upd P mufx (p_miu par) (i_x st) (i_u st) (i_v st) (res_init P) /\
    all_zero_b (sys_residual P (i_x st) (i_u st) (s_rdual (i_res st)) (s_rcent (i_res st)) (s_rprim (i_res st)) (a_dx ans) (a_dv ans)) = true /\
    let k := fst (fst (iter_step P mufx par st ans)) in
    let st' := snd (fst (iter_step P mufx par st ans)) in
    k = 3%Z /\ i_x st' = i_x st /\ i_u st' = i_u st /\
    ~ s_fx (i_res st') == m_fx mufx P (i_x st') /\ ~ s_eta (i_res st') == m_eta P (i_x st') (i_u st').
Proof.
  exists Pst, 1, par_st, st_st, ans_st. split.
  - constructor; simpl; try reflexivity; repeat constructor.
  - split; [reflexivity|]. split; [vm_compute; reflexivity|].
    vm_compute. repeat split; try reflexivity; intro H; discriminate.
Qed.
Print Assumptions C04_iter_reported_numbers_of_returned_point_refuted.

(* ---- non-vacuity of the iteration theorems ---------------------------------------------------------------------------- *)
(* min x1^2 + x2 s.t. x1 + x2 = 1, x >= 0 (P0) at x = (1/4, 3/4), u = (1, 1), v = 0: the exact Newton direction *)
Definition x_it : vec := [1 # 4; 3 # 4].
Definition u_it : vec := [1; 1].
Definition par_it : params := mkPar (999 # 1000) 10 (1 # 100) (9 # 10) (1 # 10000000000) 0 (1 # 100000000) 50 1000000.
Definition st_it : istate := mkI x_it u_it [0] (upd P0 1 10 x_it u_it [0] (res_init P0)) 0.
(* the exact solution of the 3 x 3 reduced system at this point *)
Definition ans_it : answer := mkAns [(19 # 220); (-(19) # 220)] [(-(9) # 11)] true true.

Example C04_nonvacuous_iter_inv : inv P0 st_it.
Proof. constructor; simpl; try reflexivity; repeat constructor. Qed.

Example C04_nonvacuous_iter_start : exists st, iter_start P0 1 par_it x_it = Some st /\ inv P0 st.
Proof.
  destruct (iter_start P0 1 par_it x_it) as [st|] eqn:E; [|vm_compute in E; discriminate].
  exists st. split; [reflexivity|]. apply (C04_iter_start_invariant P0 1 par_it x_it st C04_nonvacuous_wf eq_refl E).
Qed.

Example C04_nonvacuous_iter_system :
  all_zero_b (sys_residual P0 x_it u_it (s_rdual (i_res st_it)) (s_rcent (i_res st_it)) (s_rprim (i_res st_it)) (a_dx ans_it) (a_dv ans_it)) = true.
Proof. vm_compute. reflexivity. Qed.

(* the hypotheses of (1)/(2) hold for it, and the conclusion is what a direct evaluation gives at s = 1/2 *)
Example C04_nonvacuous_iter_contracts :
  veq (m_rprim P0 (vadd x_it (vscale (1 # 2) (a_dx ans_it)))) (vscale (1 - (1 # 2)) (m_rprim P0 x_it)) /\
  veq (m_rdual P0 (vadd x_it (vscale (1 # 2) (a_dx ans_it)))
                  (vadd u_it (vscale (1 # 2) (back_subst P0 x_it u_it (s_rcent (i_res st_it)) (a_dx ans_it))))
                  (vadd [0] (vscale (1 # 2) (a_dv ans_it))))
      (vscale (1 - (1 # 2)) (m_rdual P0 x_it u_it [0])).
Proof.
  apply (C04_iter_newton_step_contracts P0 x_it u_it [0] (s_rcent (i_res st_it)) (a_dx ans_it) (a_dv ans_it) (1 # 2));
    try exact C04_nonvacuous_wf; try reflexivity.
  - repeat constructor; vm_compute; intro H; discriminate.
  - unfold veq. vm_compute. repeat constructor.
Qed.

(* one pass of the model on it: accepted step (exit 0), the invariant holds at the new iterate, stage 2 passed its test *)
Example C04_nonvacuous_iter_step :
  fst (fst (iter_step P0 1 par_it st_it ans_it)) = 0%Z /\ inv P0 (snd (fst (iter_step P0 1 par_it st_it ans_it))) /\
  strict_b P0 (i_x (snd (fst (iter_step P0 1 par_it st_it ans_it)))) = true.
Proof.
  split; [vm_compute; reflexivity|]. split; [|vm_compute; reflexivity].
  apply C04_iter_step_invariant; try exact C04_nonvacuous_wf; try exact C04_nonvacuous_iter_inv; vm_compute; reflexivity || (intro H; discriminate).
Qed.

(* a pass that ends in done() with `converged`: the optimum itself with a tiny gap, a null direction, stage 1 exhausted *)
Example C04_nonvacuous_iter_precise : precise_test 1 1 4 4 9 9 (1 # 10) = true /\ precise_test 1 0 4 4 9 9 (1 # 10) = false.
Proof. split; vm_compute; reflexivity. Qed.
