(* C04 -- LP/QP primal-dual interior point: `converged` means feasible and optimal as stated.
   Theorems about the executable model of C04_Defs (exact rationals; all programs, points, multipliers). The
   decisions [feasible_dec], [converged_dec], [status_dec] are the expressions of src/program/solver.cpp translated
   on every run (LNGen.Src_c04). What is *not* proved here (the Newton iteration, Eigen's row reduction, rounding)
   is listed in notes/C04.md and searched on the implementation. *)
From Coq Require Import List ZArith QArith Qminmax Qabs Bool Lia Lqa.
From LNGen Require Import Src_c04.
From LN Require Import C04_Defs C04_Proofs.
Import ListNotations.
Local Open Scope Q_scope.

(* ---- weak duality with residuals (upper side of |f(x) - f*|) ------------------------------------------------------ *)
Theorem C04_gap_upper : forall P x u v y,
  wf P -> psd P -> length x = dim P -> Forall (fun t => 0 <= t) u -> feasible_pt P y ->
  objective P x - objective P y <= m_eta P x u + dot (m_rdual P x u v) (vsub x y) - dot v (m_rprim P x).
Proof. exact gap_upper. Qed.
Print Assumptions C04_gap_upper.

(* ... with |rdual|_2 <= Rd, |x-y|_2 <= Dx (Cauchy-Schwarz, squared since sqrt is not rational), |rprim|_inf <= Rp *)
Theorem C04_gap_upper_norms : forall P x u v y Rd Dx Rp,
  wf P -> psd P -> length x = dim P -> Forall (fun t => 0 <= t) u -> feasible_pt P y ->
  0 <= Rd -> 0 <= Dx -> 0 <= Rp ->
  sumsq (m_rdual P x u v) <= Rd * Rd -> sumsq (vsub x y) <= Dx * Dx -> Forall (fun t => Qabs t <= Rp) (m_rprim P x) ->
  objective P x - objective P y <= m_eta P x u + Rd * Dx + norm1 v * Rp.
Proof. exact gap_upper_norms. Qed.
Print Assumptions C04_gap_upper_norms.

(* ---- the other side, against a KKT point (how the generator fixes the optimum) ------------------------------------ *)
Theorem C04_gap_lower : forall P x y us vs rho delta,
  wf P -> psd P -> length x = dim P -> kkt_pt P y us vs -> 0 <= rho -> 0 <= delta ->
  Forall (fun t => Qabs t <= rho) (m_rprim P x) -> Forall (fun t => t <= delta) (gxh P x) ->
  - (norm1 vs * rho) - norm1 us * delta <= objective P x - objective P y.
Proof. exact gap_lower_bounds. Qed.
Print Assumptions C04_gap_lower.

(* ---- normalisation: same feasible set, objective scaled by the divisor, same minimisers --------------------------- *)
Theorem C04_normalize_equiv : forall dQ dA dG P, 0 < dQ -> 0 < dA -> 0 < dG ->
  (forall y, feasible_pt (normalizeP dQ dA dG P) y <-> feasible_pt P y) /\
  (forall x, objective P x == dQ * objective (normalizeP dQ dA dG P) x) /\
  (forall y, is_min (normalizeP dQ dA dG P) y <-> is_min P y).
Proof. exact normalize_equiv. Qed.
Print Assumptions C04_normalize_equiv.

(* the objective the solver reports (`m_fx *= m_mufx`) is the caller's objective at x *)
Theorem C04_objective_reported : forall dQ dA dG P x, 0 < dQ -> m_fx dQ (normalizeP dQ dA dG P) x == objective P x.
Proof. exact objective_reported. Qed.
Print Assumptions C04_objective_reported.

(* ---- the decisions, as the source states them ---------------------------------------------------------------------- *)
Theorem C04_converged_iff : forall feas eta rd2 rp2 eps, 0 <= eps ->
  (status_dec feas eta rd2 rp2 eps = st_converged <->
   feas = true /\ eta < eps /\ rd2 < eps * eps /\ rp2 < eps * eps).
Proof. intros. rewrite status_dec_converged. now apply converged_dec_iff. Qed.
Print Assumptions C04_converged_iff.

Theorem C04_feasible_iff : forall P x e2, 0 <= e2 ->
  (feasible_dec P x e2 = true <->
   (pA P = [] \/ sumsq (m_rprim P x) < e2 * e2) /\ (pG P = [] \/ vmaxc (gxh P x) < e2)).
Proof. exact feasible_dec_iff. Qed.
Print Assumptions C04_feasible_iff.

(* ---- the internal feasibility test transfers to the program as the caller stated it ------------------------------- *)
Theorem C04_feasible_transfer : forall dQ dA dG P x e2, 0 < dA -> 0 < dG -> 0 < e2 ->
  feasible_dec (normalizeP dQ dA dG P) x e2 = true ->
  user_feasible_b P x (e2 * dA) (e2 * dG) = true.
Proof. exact feasible_transfer. Qed.
Print Assumptions C04_feasible_transfer.

Theorem C04_never_converged_if_infeasible : forall dQ dA dG P e2 eps, 0 < dA -> 0 < dG -> 0 < e2 ->
  (forall x, user_feasible_b P x (e2 * dA) (e2 * dG) = false) ->
  forall x eta rdual rprim, model_done (normalizeP dQ dA dG P) x eta rdual rprim eps e2 <> st_converged.
Proof. exact never_converged_if_infeasible. Qed.
Print Assumptions C04_never_converged_if_infeasible.

(* ---- unbounded programs: a descent ray steeper than eps per unit length forbids `converged` ------------------------ *)
Theorem C04_never_converged_if_steep_ray : forall P x u v d eps e2 Dd,
  wf P -> psd P -> length x = dim P -> Forall (fun t => 0 <= t) u -> ray P d ->
  0 < eps -> 0 <= Dd -> sumsq d <= Dd * Dd -> dot (pc P) d < - (eps * Dd) ->
  model_status P x u v eps e2 <> st_converged.
Proof. exact never_converged_if_steep_ray. Qed.
Print Assumptions C04_never_converged_if_steep_ray.

(* ---- a state the model declares converged is eps-optimal; on the caller's program with the factor M = dQ ---------- *)
Theorem C04_converged_gap : forall P x u v y eps e2 Dx,
  wf P -> psd P -> length x = dim P -> Forall (fun t => 0 <= t) u -> feasible_pt P y ->
  0 < eps -> 0 <= Dx -> sumsq (vsub x y) <= Dx * Dx ->
  model_status P x u v eps e2 = st_converged ->
  objective P x - objective P y <= eps * (1 + Dx + norm1 v).
Proof. exact converged_gap. Qed.
Print Assumptions C04_converged_gap.

Theorem C04_converged_gap_user : forall dQ dA dG P x u v y eps e2 Dx,
  wf (normalizeP dQ dA dG P) -> psd (normalizeP dQ dA dG P) -> 0 < dQ -> 0 < dA -> 0 < dG ->
  length x = dim P -> Forall (fun t => 0 <= t) u -> feasible_pt P y ->
  0 < eps -> 0 <= Dx -> sumsq (vsub x y) <= Dx * Dx ->
  model_status (normalizeP dQ dA dG P) x u v eps e2 = st_converged ->
  objective P x - objective P y <= dQ * eps * (1 + Dx + norm1 v).
Proof. exact converged_gap_user. Qed.
Print Assumptions C04_converged_gap_user.

(* ---- what is not proved: the property for the *implementation* needs the iteration and floating point ------------- *)
(* the full optimality clause with the returned multipliers on both sides (the lower side is proved only with the
   multipliers of the optimum, C04_gap_lower) *)
Definition C04_two_sided_full_statement : Prop := forall dQ dA dG P x u v y eps e2 Dx,
  wf (normalizeP dQ dA dG P) -> psd (normalizeP dQ dA dG P) -> 0 < dQ -> 0 < dA -> 0 < dG ->
  length x = dim P -> Forall (fun t => 0 <= t) u -> is_min P y ->
  0 < eps -> 0 <= Dx -> sumsq (vsub x y) <= Dx * Dx ->
  model_status (normalizeP dQ dA dG P) x u v eps e2 = st_converged ->
  Qabs (objective P x - objective P y) <= 100 * dQ * eps * (1 + Dx + norm1 u + norm1 v).

(* ---- non-vacuity ------------------------------------------------------------------------------------------------------ *)
(* min x1^2 + x2  s.t. x1 + x2 = 1, x >= 0: rank-deficient Q, optimum (1/2,1/2), v* = -1, u* = 0 *)
Definition P0 : program := mkP [[2; 0]; [0; 0]] [0; 1] [[1; 1]] [1] [[-1; 0]; [0; -1]] [0; 0].
Definition y0 : vec := [1 # 2; 1 # 2].

Example C04_nonvacuous_wf : wf P0.
Proof. constructor; simpl; try (right; reflexivity); repeat constructor; auto. Qed.

Example C04_nonvacuous_psd : psd P0.
Proof.
  split.
  - intros [|a1 [|a2 [|? ?]]] [|b1 [|b2 [|? ?]]]; try discriminate. intros _ _. unfold bil. simpl. ring.
  - intros [|a1 [|a2 [|? ?]]]; try discriminate. intros _. unfold bil. simpl. pose proof (sq_nonneg a1). lra.
Qed.

Example C04_nonvacuous_feasible : feasible_pt P0 y0.
Proof.
  unfold feasible_pt. simpl. repeat split; repeat constructor; try reflexivity; unfold Qle; simpl; lia.
Qed.

Example C04_nonvacuous_kkt : kkt_pt P0 y0 [0; 0] [-1].
Proof.
  split; [exact C04_nonvacuous_feasible|]. simpl. repeat split; repeat constructor; try reflexivity; unfold Qle; simpl; lia.
Qed.

(* the model declares the optimum itself converged, a point 1/4 away not; a clearly infeasible and a clearly
   unbounded program satisfy the hypotheses of the two `never converged` theorems *)
Example C04_nonvacuous_converged : model_status P0 y0 [0; 0] [-1] (1 # 10) (1 # 100) = st_converged.
Proof. vm_compute. reflexivity. Qed.

Example C04_nonvacuous_not_converged : model_status P0 [3 # 4; 1 # 4] [1 # 100; 1 # 100] [-1] (1 # 10) (1 # 100) <> st_converged.
Proof. vm_compute. discriminate. Qed.

Example C04_nonvacuous_gap :
  objective P0 y0 - objective P0 y0 <= (1 # 10) * (1 + 0 + norm1 [-1]).
Proof.
  apply (C04_converged_gap P0 y0 [0; 0] [-1] y0 (1 # 10) (1 # 100) 0);
    try exact C04_nonvacuous_wf; try exact C04_nonvacuous_psd; try exact C04_nonvacuous_feasible;
    try exact C04_nonvacuous_converged; try reflexivity; try lra.
  - repeat constructor; lra.
  - vm_compute. discriminate.
Qed.

(* x <= 0 and x >= 1 *)
Definition Pinf : program := mkP [] [1] [] [] [[1]; [-1]] [0; -1].

Example C04_nonvacuous_infeasible : forall x, user_feasible_b Pinf x ((1 # 100) * 1) ((1 # 100) * 1) = false.
Proof.
  intros x. unfold user_feasible_b. simpl.
  destruct x as [|t x]; simpl.
  - vm_compute. reflexivity.
  - destruct (Qltb (1 * t + 0 - 0) ((1 # 100) * 1)) eqn:E1; [|reflexivity].
    destruct (Qltb (-1 * t + 0 - -1) ((1 # 100) * 1)) eqn:E2; [|reflexivity].
    apply Qltb_lt in E1. apply Qltb_lt in E2. exfalso. lra.
Qed.

(* min -x s.t. -x <= 0 *)
Definition Punb : program := mkP [] [-1] [] [] [[-1]] [0].

Example C04_nonvacuous_ray : wf Punb /\ psd Punb /\ ray Punb [1] /\ sumsq [1] <= 1 * 1 /\ dot (pc Punb) [1] < - ((1 # 10) * 1).
Proof.
  split; [constructor; simpl; repeat constructor; auto|].
  split; [split; [intros; unfold bil; simpl; rewrite !dot_nil_r; reflexivity|intros; unfold bil; simpl; rewrite dot_nil_r; lra]|].
  split; [unfold ray; simpl; repeat split; repeat constructor; unfold Qle; simpl; lia|].
  split; vm_compute; reflexivity || (intro H; discriminate).
Qed.

(* the internal feasibility test is satisfiable and is really transferred *)
Example C04_nonvacuous_transfer :
  feasible_dec (normalizeP 2 2 1 P0) y0 (1 # 100) = true /\ user_feasible_b P0 y0 ((1 # 100) * 2) ((1 # 100) * 1) = true.
Proof. split; vm_compute; reflexivity. Qed.
