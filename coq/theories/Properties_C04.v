(* C04 -- LP/QP primal-dual interior point: `converged` means feasible and optimal as stated.
   Theorems about the executable model of C04_Defs (exact rationals; all programs, points, multipliers). The
   decisions [feasible_dec], [converged_dec], [status_dec] are the expressions of src/program/solver.cpp translated
   on every run (LNGen.Src_c04). What is *not* proved here (the Newton iteration, that Eigen's fullPivLu returns a
   factorisation, rounding) is listed in notes/C04.md and searched on the implementation.
   The last two groups bring program::reduce (the reduced equality system assembled from an LU factorisation given as an
   oracle answer, C04_Reduce.v) and the step-length kernel of the Newton iteration (C04_Step.v) inside the model. *)
From Coq Require Import List ZArith QArith Qminmax Qabs Bool Lia Lqa.
From LNGen Require Import Src_c04.
From LN Require Import C04_Defs C04_Proofs C04_Reduce C04_ReduceProofs C04_Step C04_StepProofs C04_Iter_Defs C04_Iter C04_Rest_Defs C04_Rest.
Import ListNotations.
Local Open Scope Q_scope.

(* ---- weak duality with residuals (upper side of |f(x) - f*|) ------------------------------------------------------ *)
Theorem C04_gap_upper : forall P x u v y,
  wf P -> psd P -> length x = dim P -> Forall (fun t => 0 <= t) u -> feasible_pt P y ->
  objective P x - objective P y <= m_eta P x u + dot (m_rdual P x u v) (vsub x y) - dot v (m_rprim P x).
Proof. exact gap_upper. Qed.
Print Assumptions C04_gap_upper.

(* ... with |rdual|_2 <= Rd, |x-y|_2 <= Dx (Cauchy-Schwarz, squared since sqrt is not rational), |rprim|_inf <= Rp *)
Theorem C04_gap_upper_norms : forall P x u v y Rd Dx Rp,
  wf P -> psd P -> length x = dim P -> Forall (fun t => 0 <= t) u -> feasible_pt P y ->
  0 <= Rd -> 0 <= Dx -> 0 <= Rp ->
  sumsq (m_rdual P x u v) <= Rd * Rd -> sumsq (vsub x y) <= Dx * Dx -> Forall (fun t => Qabs t <= Rp) (m_rprim P x) ->
  objective P x - objective P y <= m_eta P x u + Rd * Dx + norm1 v * Rp.
Proof. exact gap_upper_norms. Qed.
Print Assumptions C04_gap_upper_norms.

(* ---- the other side, against a KKT point (how the generator fixes the optimum) ------------------------------------ *)
Theorem C04_gap_lower : forall P x y us vs rho delta,
  wf P -> psd P -> length x = dim P -> kkt_pt P y us vs -> 0 <= rho -> 0 <= delta ->
  Forall (fun t => Qabs t <= rho) (m_rprim P x) -> Forall (fun t => t <= delta) (gxh P x) ->
  - (norm1 vs * rho) - norm1 us * delta <= objective P x - objective P y.
Proof. exact gap_lower_bounds. Qed.
Print Assumptions C04_gap_lower.

(* ---- normalisation: same feasible set, objective scaled by the divisor, same minimisers --------------------------- *)
Theorem C04_normalize_equiv : forall dQ dA dG P, 0 < dQ -> 0 < dA -> 0 < dG ->
  (forall y, feasible_pt (normalizeP dQ dA dG P) y <-> feasible_pt P y) /\
  (forall x, objective P x == dQ * objective (normalizeP dQ dA dG P) x) /\
  (forall y, is_min (normalizeP dQ dA dG P) y <-> is_min P y).
Proof. exact normalize_equiv. Qed.
Print Assumptions C04_normalize_equiv.

(* the objective the solver reports (`m_fx *= m_mufx`) is the caller's objective at x *)
Theorem C04_objective_reported : forall dQ dA dG P x, 0 < dQ -> m_fx dQ (normalizeP dQ dA dG P) x == objective P x.
Proof. exact objective_reported. Qed.
Print Assumptions C04_objective_reported.

(* ---- the decisions, as the source states them ---------------------------------------------------------------------- *)
Theorem C04_converged_iff : forall feas eta rd2 rp2 eps, 0 <= eps ->
  (status_dec feas eta rd2 rp2 eps = st_converged <->
   feas = true /\ eta < eps /\ rd2 < eps * eps /\ rp2 < eps * eps).
Proof. intros. rewrite status_dec_converged. now apply converged_dec_iff. Qed.
Print Assumptions C04_converged_iff.

Theorem C04_feasible_iff : forall P x e2, 0 <= e2 ->
  (feasible_dec P x e2 = true <->
   (pA P = [] \/ sumsq (m_rprim P x) < e2 * e2) /\ (pG P = [] \/ vmaxc (gxh P x) < e2)).
Proof. exact feasible_dec_iff. Qed.
Print Assumptions C04_feasible_iff.

(* ---- the internal feasibility test transfers to the program as the caller stated it ------------------------------- *)
Theorem C04_feasible_transfer : forall dQ dA dG P x e2, 0 < dA -> 0 < dG -> 0 < e2 ->
  feasible_dec (normalizeP dQ dA dG P) x e2 = true ->
  user_feasible_b P x (e2 * dA) (e2 * dG) = true.
Proof. exact feasible_transfer. Qed.
Print Assumptions C04_feasible_transfer.

Theorem C04_never_converged_if_infeasible : forall dQ dA dG P e2 eps, 0 < dA -> 0 < dG -> 0 < e2 ->
  (forall x, user_feasible_b P x (e2 * dA) (e2 * dG) = false) ->
  forall x eta rdual rprim, model_done (normalizeP dQ dA dG P) x eta rdual rprim eps e2 <> st_converged.
Proof. exact never_converged_if_infeasible. Qed.
Print Assumptions C04_never_converged_if_infeasible.

(* ---- unbounded programs: a descent ray steeper than eps per unit length forbids `converged` ------------------------ *)
Theorem C04_never_converged_if_steep_ray : forall P x u v d eps e2 Dd,
  wf P -> psd P -> length x = dim P -> Forall (fun t => 0 <= t) u -> ray P d ->
  0 < eps -> 0 <= Dd -> sumsq d <= Dd * Dd -> dot (pc P) d < - (eps * Dd) ->
  model_status P x u v eps e2 <> st_converged.
Proof. exact never_converged_if_steep_ray. Qed.
Print Assumptions C04_never_converged_if_steep_ray.

(* ---- a state the model declares converged is eps-optimal; on the caller's program with the factor M = dQ ---------- *)
Theorem C04_converged_gap : forall P x u v y eps e2 Dx,
  wf P -> psd P -> length x = dim P -> Forall (fun t => 0 <= t) u -> feasible_pt P y ->
  0 < eps -> 0 <= Dx -> sumsq (vsub x y) <= Dx * Dx ->
  model_status P x u v eps e2 = st_converged ->
  objective P x - objective P y <= eps * (1 + Dx + norm1 v).
Proof. exact converged_gap. Qed.
Print Assumptions C04_converged_gap.

Theorem C04_converged_gap_user : forall dQ dA dG P x u v y eps e2 Dx,
  wf (normalizeP dQ dA dG P) -> psd (normalizeP dQ dA dG P) -> 0 < dQ -> 0 < dA -> 0 < dG ->
  length x = dim P -> Forall (fun t => 0 <= t) u -> feasible_pt P y ->
  0 < eps -> 0 <= Dx -> sumsq (vsub x y) <= Dx * Dx ->
  model_status (normalizeP dQ dA dG P) x u v eps e2 = st_converged ->
  objective P x - objective P y <= dQ * eps * (1 + Dx + norm1 v).
Proof. exact converged_gap_user. Qed.
Print Assumptions C04_converged_gap_user.

(* ---- what is not proved: the property for the *implementation* needs the iteration and floating point ------------- *)
(* the full optimality clause with the returned multipliers on both sides (the lower side is proved only with the
   multipliers of the optimum, C04_gap_lower) *)
Definition C04_two_sided_full_statement : Prop := forall dQ dA dG P x u v y eps e2 Dx,
  wf (normalizeP dQ dA dG P) -> psd (normalizeP dQ dA dG P) -> 0 < dQ -> 0 < dA -> 0 < dG ->
  length x = dim P -> Forall (fun t => 0 <= t) u -> is_min P y ->
  0 < eps -> 0 <= Dx -> sumsq (vsub x y) <= Dx * Dx ->
  model_status (normalizeP dQ dA dG P) x u v eps e2 = st_converged ->
  Qabs (objective P x - objective P y) <= 100 * dQ * eps * (1 + Dx + norm1 u + norm1 v).

(* ---- non-vacuity ------------------------------------------------------------------------------------------------------ *)
(* min x1^2 + x2  s.t. x1 + x2 = 1, x >= 0: rank-deficient Q, optimum (1/2,1/2), v* = -1, u* = 0 *)
Definition P0 : program := mkP [[2; 0]; [0; 0]] [0; 1] [[1; 1]] [1] [[-1; 0]; [0; -1]] [0; 0].
Definition y0 : vec := [1 # 2; 1 # 2].

Example C04_nonvacuous_wf : wf P0.
Proof. constructor; simpl; try (right; reflexivity); repeat constructor; auto. Qed.

Example C04_nonvacuous_psd : psd P0.
Proof.
  split.
  - intros [|a1 [|a2 [|? ?]]] [|b1 [|b2 [|? ?]]]; try discriminate. intros _ _. unfold bil. simpl. ring.
  - intros [|a1 [|a2 [|? ?]]]; try discriminate. intros _. unfold bil. simpl. pose proof (sq_nonneg a1). lra.
Qed.

Example C04_nonvacuous_feasible : feasible_pt P0 y0.
Proof.
  unfold feasible_pt. simpl. repeat split; repeat constructor; try reflexivity; unfold Qle; simpl; lia.
Qed.

Example C04_nonvacuous_kkt : kkt_pt P0 y0 [0; 0] [-1].
Proof.
  split; [exact C04_nonvacuous_feasible|]. simpl. repeat split; repeat constructor; try reflexivity; unfold Qle; simpl; lia.
Qed.

(* the model declares the optimum itself converged, a point 1/4 away not; a clearly infeasible and a clearly
   unbounded program satisfy the hypotheses of the two `never converged` theorems *)
Example C04_nonvacuous_converged : model_status P0 y0 [0; 0] [-1] (1 # 10) (1 # 100) = st_converged.
Proof. vm_compute. reflexivity. Qed.

Example C04_nonvacuous_not_converged : model_status P0 [3 # 4; 1 # 4] [1 # 100; 1 # 100] [-1] (1 # 10) (1 # 100) <> st_converged.
Proof. vm_compute. discriminate. Qed.

Example C04_nonvacuous_gap :
  objective P0 y0 - objective P0 y0 <= (1 # 10) * (1 + 0 + norm1 [-1]).
Proof.
  apply (C04_converged_gap P0 y0 [0; 0] [-1] y0 (1 # 10) (1 # 100) 0);
    try exact C04_nonvacuous_wf; try exact C04_nonvacuous_psd; try exact C04_nonvacuous_feasible;
    try exact C04_nonvacuous_converged; try reflexivity; try lra.
  - repeat constructor; lra.
  - vm_compute. discriminate.
Qed.

(* x <= 0 and x >= 1 *)
Definition Pinf : program := mkP [] [1] [] [] [[1]; [-1]] [0; -1].

Example C04_nonvacuous_infeasible : forall x, user_feasible_b Pinf x ((1 # 100) * 1) ((1 # 100) * 1) = false.
Proof.
  intros x. unfold user_feasible_b. simpl.
  destruct x as [|t x]; simpl.
  - vm_compute. reflexivity.
  - destruct (Qltb (1 * t + 0 - 0) ((1 # 100) * 1)) eqn:E1; [|reflexivity].
    destruct (Qltb (-1 * t + 0 - -1) ((1 # 100) * 1)) eqn:E2; [|reflexivity].
    apply Qltb_lt in E1. apply Qltb_lt in E2. exfalso. lra.
Qed.

(* min -x s.t. -x <= 0 *)
Definition Punb : program := mkP [] [-1] [] [] [[-1]] [0].

Example C04_nonvacuous_ray : wf Punb /\ psd Punb /\ ray Punb [1] /\ sumsq [1] <= 1 * 1 /\ dot (pc Punb) [1] < - ((1 # 10) * 1).
Proof.
  split; [constructor; simpl; repeat constructor; auto|].
  split; [split; [intros; unfold bil; simpl; rewrite !dot_nil_r; reflexivity|intros; unfold bil; simpl; rewrite dot_nil_r; lra]|].
  split; [unfold ray; simpl; repeat split; repeat constructor; unfold Qle; simpl; lia|].
  split; vm_compute; reflexivity || (intro H; discriminate).
Qed.

(* the internal feasibility test is satisfiable and is really transferred *)
Example C04_nonvacuous_transfer :
  feasible_dec (normalizeP 2 2 1 P0) y0 (1 # 100) = true /\ user_feasible_b P0 y0 ((1 # 100) * 2) ((1 # 100) * 1) = true.
Proof. split; vm_compute; reflexivity. Qed.

(* ==== program::reduce: dependent equality rows are eliminated without changing the solution set ======================= *)
(* [lu_valid M r c f]: f = (P, Q, L, U, rank) is a full-pivoting LU factorisation of M^T, P M^T Q = L U exactly, P and Q
   permutations (index lists), U upper triangular with `rank` non-zero pivots and zero rows below, L unit lower triangular.
   Hypothesis about Q: only that it is a permutation of the r rows of [A|b]. Q does not occur in the product the code forms
   (U^T.block(0,0,rank,n) * L^T * P): that product consists of the rows q_0 .. q_{rank-1} of [A|b] themselves
   (C04_ReduceProofs.assemble_entry), Q only names them, and the order of equations does not matter for a solution set. *)

(* (1) the solution set is exactly preserved: every theorem about the reduced program is a theorem about the caller's *)
Theorem C04_reduce_same_solutions : forall A b ncols f,
  rows_ok ncols A -> length b = length A ->
  lu_valid (stack A b) (length A) (S ncols) f ->
  forall x, length x = ncols ->
    (sat A b x <-> sat (reduced_A A b ncols f) (reduced_b A b ncols f) x).
Proof. exact reduce_same_solutions. Qed.
Print Assumptions C04_reduce_same_solutions.

(* (2) dropping dependent rows never turns an infeasible equality system feasible (b is reduced together with A) *)
Theorem C04_reduce_inconsistent_preserved : forall A b ncols f,
  rows_ok ncols A -> length b = length A ->
  lu_valid (stack A b) (length A) (S ncols) f ->
  (forall x, length x = ncols -> ~ sat A b x) ->
  forall x, length x = ncols -> ~ sat (reduced_A A b ncols f) (reduced_b A b ncols f) x.
Proof. exact reduce_inconsistent_preserved. Qed.
Print Assumptions C04_reduce_inconsistent_preserved.

(* (3) rank = rows: the early return, the system is returned as it is (flag: false only for an empty system) *)
Theorem C04_reduce_full_rank_identity : forall A b ncols f,
  rows_ok ncols A -> length b = length A -> lu_rank f = length A ->
  reduce_model A b ncols f = (negb (Nat.eqb (length A) 0), (A, b)).
Proof. exact reduce_full_rank_identity. Qed.
Print Assumptions C04_reduce_full_rank_identity.

(* when rows are removed exactly `rank` rows remain *)
Theorem C04_reduce_row_count : forall A b ncols f, length A <> 0%nat -> lu_rank f <> length A ->
  length (reduced_A A b ncols f) = lu_rank f /\ length (reduced_b A b ncols f) = lu_rank f.
Proof. exact reduce_row_count. Qed.
Print Assumptions C04_reduce_row_count.

(* the kept rows [A'|b'] are linearly independent (the only place where L unit lower triangular is used): the KKT matrix
   the solver factorises afterwards is built from a full-row-rank equality block *)
Theorem C04_reduce_rows_independent : forall M r c f,
  shape M r c -> lu_valid M r c f -> lu_rank f <> r ->
  forall w : nat -> Q,
    (forall col, (col < c)%nat -> sum_upto (lu_rank f) (fun i => w i * entry (reduce_sys M r c f) i col) == 0) ->
    forall i, (i < lu_rank f)%nat -> w i == 0.
Proof. intros M r c f Hs Hv E. exact (reduce_rows_independent M r c f Hv E). Qed.
Print Assumptions C04_reduce_rows_independent.

(* the hypothesis is decidable: the test the driver evaluates on the factors Eigen returned implies it *)
Theorem C04_reduce_valid_checkable : forall M r c f, lu_valid_b M r c f = true -> lu_valid M r c f.
Proof. exact lu_valid_b_sound. Qed.
Print Assumptions C04_reduce_valid_checkable.

(* x1 + x2 = 1, 2 x1 + 2 x2 = 2, x1 = 0 with the factorisation Eigen returns for [A|b]^T (rank 2): rows 2 and 3 are kept *)
Definition Ared : mat := [[1; 1]; [2; 2]; [1; 0]].
Definition bred : vec := [1; 2; 0].
Definition fred : lufact :=
  mkLU [0; 1; 2]%nat [1; 2; 0]%nat [[1; 0; 0]; [1; 1; 0]; [1; 1; 1]] [[2; 1; 1]; [0; -1; 0]; [0; 0; 0]] 2.

Example C04_nonvacuous_reduce_valid : lu_valid (stack Ared bred) (length Ared) 3 fred.
Proof. apply C04_reduce_valid_checkable. vm_compute. reflexivity. Qed.

Example C04_nonvacuous_reduce_rows : length (reduced_A Ared bred 2 fred) = 2%nat /\ sat_b (reduced_A Ared bred 2 fred) (reduced_b Ared bred 2 fred) [0; 1] = true.
Proof. split; vm_compute; reflexivity. Qed.

Example C04_nonvacuous_reduce_solution : sat Ared bred [0; 1] /\ sat (reduced_A Ared bred 2 fred) (reduced_b Ared bred 2 fred) [0; 1].
Proof.
  assert (sat Ared bred [0; 1]) as H by (repeat constructor).
  split; [exact H|].
  apply (C04_reduce_same_solutions Ared bred 2 fred); try reflexivity; try exact H.
  - repeat constructor.
  - exact C04_nonvacuous_reduce_valid.
Qed.

(* an inconsistent right-hand side (2 x1 + 2 x2 = 3) is a rank-3 system: nothing is dropped, nothing becomes feasible *)
Example C04_nonvacuous_reduce_inconsistent : forall x, length x = 2%nat -> ~ sat Ared [1; 3; 0] x.
Proof.
  intros [|x1 [|x2 [|? ?]]] Hl H; try discriminate.
  inversion H as [|? ? ? ? H1 H']; subst. inversion H' as [|? ? ? ? H2 H'']; subst. simpl in H1, H2. lra.
Qed.

(* ==== the step-length kernel keeps the multipliers strictly positive =================================================== *)
(* u > 0, DBL_MAX > 0, 0 < s0 < 1 (solver::s0, default 0.999), 0 < beta <= 1, any number of shrinks in the two stages: the
   new multipliers u + s du are strictly positive -- the invariant u >= 0 that the gap theorems assume of the returned state *)
Theorem C04_step_keeps_positive : forall big s0 beta u du k1 k2,
  0 < big -> Forall (fun t => 0 < t) u -> length du = length u ->
  0 < s0 -> s0 < 1 -> 0 < beta -> beta <= 1 ->
  Forall (fun t => 0 < t) (step_point u du (step_len big s0 beta u du k1 k2)).
Proof. exact step_keeps_positive. Qed.
Print Assumptions C04_step_keeps_positive.

Theorem C04_step_bounds : forall big s0 beta u du k1 k2,
  0 < big -> Forall (fun t => 0 < t) u -> 0 < s0 -> 0 < beta -> beta <= 1 ->
  0 < step_len big s0 beta u du k1 k2 /\ step_len big s0 beta u du k1 k2 <= s0 * make_smax big u du /\ make_smax big u du <= 1.
Proof.
  intros big s0 beta u du k1 k2 Hb Hu Hs0 Hbe Hbe1.
  destruct (step_len_spec big s0 beta u du k1 k2 Hb (Forall_nth_pos u Hu) Hs0 Hbe Hbe1) as [H1 H2].
  destruct (make_smax_spec big u du Hb (Forall_nth_pos u Hu)) as [_ [H3 _]].
  repeat split; assumption.
Qed.
Print Assumptions C04_step_bounds.

(* solver::s0 = 1 is inside the registered range (0 < s0 <= 1): then only u + s du >= 0 holds ... *)
Theorem C04_step_keeps_nonneg : forall big s0 beta u du k1 k2,
  0 < big -> Forall (fun t => 0 < t) u -> length du = length u ->
  0 < s0 -> s0 <= 1 -> 0 < beta -> beta <= 1 ->
  forall i, (i < length u)%nat -> 0 <= nth i u 0 + step_len big s0 beta u du k1 k2 * nth i du 0.
Proof. exact step_keeps_nonneg. Qed.
Print Assumptions C04_step_keeps_nonneg.

(* ... and strict positivity is false of the faithful model: u = 1, du = -1, s0 = 1 steps onto the boundary *)
Theorem C04_step_strict_with_s0_one_refuted :
  exists u du, Forall (fun t => 0 < t) u /\ length du = length u /\
               step_point u du (step_len 2 1 (9 # 10) u du 0 0) = [0 # 1].
Proof. exact step_boundary_witness. Qed.
Print Assumptions C04_step_strict_with_s0_one_refuted.

Example C04_nonvacuous_step :
  all_pos_b (step_point [1; 2] [-(4); 1] (step_len 1000 (999 # 1000) (9 # 10) [1; 2] [-(4); 1] 1 2)) = true
  /\ step_len 1000 (999 # 1000) (9 # 10) [1; 2] [-(4); 1] 0 0 == (999 # 4000).
Proof. split; vm_compute; reflexivity. Qed.

(* ==== the Newton iteration of solve_with_inequality (C04_Iter_Defs.v: update, reduced KKT system, back-substitution, the two
   backtracking stages, the five exits; the linear solve is an oracle answer) ============================================ *)
(* vectors are compared entrywise up to Qeq ([veq]); [qmv P d] is Q d (the zero vector for a linear program) *)

(* (1) elimination is correct: an exact solution (dx, dv) of the reduced system the code hands to the LDLT,
       [[Q - G' diag(u/(Gx-h)) G, A'], [A, 0]] (dx, dv) = (-(rdual + G' (rcent/(Gx-h))), -rprim),
   together with du = (rcent - u .* (G dx)) / (Gx - h) solves the full primal-dual Newton system
       Q dx + G' du + A' dv = -rdual,   -u .* (G dx) - (Gx-h) .* du = -rcent,   A dx = -rprim
   for every program, every point with Gx - h <> 0 entrywise, every right-hand side (stored residuals included) *)
Theorem C04_iter_elimination : forall P x u rd rc rp dx dv du,
  wf P -> length x = dim P -> length u = length (pG P) -> length rd = dim P -> length rc = length (pG P) ->
  length rp = length (pA P) -> length dx = dim P -> length dv = length (pA P) ->
  Forall (fun t => ~ t == 0) (gxh P x) ->
  veq (mv (lmat P x u) (dx ++ dv)) (lvec P x rd rc rp) ->
  veq du (back_subst P x u rc dx) ->
  veq (vadd (vadd (qmv P dx) (mtv (dim P) (pG P) du)) (mtv (dim P) (pA P) dv)) (vopp rd) /\
  veq (vsub (vopp (vmul u (mv (pG P) dx))) (vmul (gxh P x) du)) (vopp rc) /\
  veq (mv (pA P) dx) (vopp rp).
Proof. exact iter_elimination. Qed.
Print Assumptions C04_iter_elimination.

(* (2) both linear residuals contract exactly by 1 - s along such a direction, for every step length s *)
Theorem C04_iter_rprim_contracts : forall P x dx s, wf P -> length x = dim P -> length dx = dim P ->
  veq (mv (pA P) dx) (vopp (m_rprim P x)) ->
  veq (m_rprim P (vadd x (vscale s dx))) (vscale (1 - s) (m_rprim P x)).
Proof. exact iter_rprim_contracts. Qed.
Print Assumptions C04_iter_rprim_contracts.

Theorem C04_iter_rdual_contracts : forall P x u v dx du dv s,
  wf P -> length x = dim P -> length u = length (pG P) -> length v = length (pA P) ->
  length dx = dim P -> length du = length (pG P) -> length dv = length (pA P) ->
  veq (vadd (vadd (qmv P dx) (mtv (dim P) (pG P) du)) (mtv (dim P) (pA P) dv)) (vopp (m_rdual P x u v)) ->
  veq (m_rdual P (vadd x (vscale s dx)) (vadd u (vscale s du)) (vadd v (vscale s dv))) (vscale (1 - s) (m_rdual P x u v)).
Proof. exact iter_rdual_contracts. Qed.
Print Assumptions C04_iter_rdual_contracts.

(* (1) + (2) end to end: the reduced system solved on the residuals of the current point *)
Theorem C04_iter_newton_step_contracts : forall P x u v rc dx dv s,
  wf P -> length x = dim P -> length u = length (pG P) -> length v = length (pA P) -> length rc = length (pG P) ->
  length dx = dim P -> length dv = length (pA P) -> Forall (fun t => ~ t == 0) (gxh P x) ->
  veq (mv (lmat P x u) (dx ++ dv)) (lvec P x (m_rdual P x u v) rc (m_rprim P x)) ->
  let du := back_subst P x u rc dx in
  veq (m_rprim P (vadd x (vscale s dx))) (vscale (1 - s) (m_rprim P x)) /\
  veq (m_rdual P (vadd x (vscale s dx)) (vadd u (vscale s du)) (vadd v (vscale s dv))) (vscale (1 - s) (m_rdual P x u v)).
Proof.
  intros P x u v rc dx dv s W Lx Lu Lv Lrc Ldx Ldv Hnz Hsys du.
  assert (Lrd : length (m_rdual P x u v) = dim P).
  { rewrite (veq_length _ _ (m_rdual_char P x u v W)).
    pose proof (wf_Grows P W). pose proof (wf_Arows P W). pose proof (length_qmv P x W).
    assert (length (pc P) = dim P) by reflexivity. len. }
  assert (Lrp : length (m_rprim P x) = length (pA P)) by (unfold m_rprim; pose proof (wf_b P W); len).
  destruct (iter_elimination P x u (m_rdual P x u v) rc (m_rprim P x) dx dv du W Lx Lu Lrd Lrc Lrp Ldx Ldv Hnz Hsys (veq_refl _))
    as [N1 [_ N3]].
  assert (Ldu : length du = length (pG P)).
  { unfold du. rewrite (veq_length _ _ (back_subst_veq P x u rc dx)). pose proof (length_gxh P x W). len. }
  split; [apply iter_rprim_contracts; assumption|apply iter_rdual_contracts; assumption].
Qed.
Print Assumptions C04_iter_newton_step_contracts.

(* (3) invariants of every iterate the loop can reach, for every oracle answer (and every du): lengths, G x - h < 0 strictly
   (stage 1's test is the guard, stage 2 only shrinks the step: the segment to a strictly feasible point is strictly feasible)
   and u > 0 (0 < s <= s0 * make_smax with s0 < 1: the argument of C04_step_keeps_positive) *)
Theorem C04_iter_step_invariant : forall P mufx par st ans du,
  wf P -> 0 < p_big par -> 0 < p_s0 par -> p_s0 par < 1 -> 0 < p_beta par -> p_beta par <= 1 -> (0 <= p_maxls par)%Z ->
  inv P st -> inv P (snd (fst (iter_core P mufx par st ans du))).
Proof. exact iter_core_invariant. Qed.
Print Assumptions C04_iter_step_invariant.

Theorem C04_iter_start_invariant : forall P mufx par x0 st,
  wf P -> length x0 = dim P -> iter_start P mufx par x0 = Some st -> inv P st.
Proof. exact iter_start_invariant. Qed.
Print Assumptions C04_iter_start_invariant.

Theorem C04_iter_run_invariant : forall P mufx par,
  wf P -> 0 < p_big par -> 0 < p_s0 par -> p_s0 par < 1 -> 0 < p_beta par -> p_beta par <= 1 -> (0 <= p_maxls par)%Z ->
  forall fuel iters maxit st answers, inv P st -> inv P (fst (iter_run fuel iters maxit P mufx par st answers)).
Proof. exact iter_run_invariant. Qed.
Print Assumptions C04_iter_run_invariant.

(* hence eta > 0 and update() never divides by zero at an iterate *)
Theorem C04_iter_eta_positive : forall P st, wf P -> inv P st -> pG P <> [] ->
  0 < m_eta P (i_x st) (i_u st) /\ Forall (fun t => ~ t == 0) (gxh P (i_x st)).
Proof. intros P st W I Hne. split; [apply inv_eta_positive; assumption|apply inv_domain; assumption]. Qed.
Print Assumptions C04_iter_eta_positive.

(* (4) stage 2 returns by exhaustion or at a trial point that passed `residual <= (1 - alpha s) r0` (squared: the norms are
   square roots); an exhausted stage 2 with residual > r0 re-evaluates update() at the current point, which with inequalities and
   equalities present overwrites every residual field ... *)
Theorem C04_iter_stage2_exit : forall P mufx miu alpha x u v dx du dv beta r0sq maxls s res k s' res',
  0 < beta -> beta <= 1 -> 0 < s -> (0 <= maxls)%Z ->
  stage2 (S (Z.to_nat maxls)) src_c04_ls_start2 maxls P mufx miu alpha x u v dx du dv s beta r0sq res = (k, s', res') ->
  k = maxls \/
  (exists rprev, res' = upd P mufx miu (trial x dx s') (trial u du s') (trial v dv s') rprev) /\
  res2 res' <= phi (1 - alpha * s') * r0sq /\
  (0 <= 1 - alpha * s' -> res2 res' <= (1 - alpha * s') * (1 - alpha * s') * r0sq).
Proof. exact iter_stage2_exit. Qed.
Print Assumptions C04_iter_stage2_exit.

Theorem C04_iter_revert_restores : forall P mufx miu x u v r0 rt, pG P <> [] -> pA P <> [] ->
  upd P mufx miu x u v rt = upd P mufx miu x u v r0.
Proof. exact iter_revert_restores. Qed.
Print Assumptions C04_iter_revert_restores.

(* ... and without equalities everything but m_rprim (the empty vector) *)
Theorem C04_iter_revert_restores_ineq_only : forall P mufx miu x u v r1 r2, pG P <> [] ->
  s_fx (upd P mufx miu x u v r1) = s_fx (upd P mufx miu x u v r2) /\
  s_eta (upd P mufx miu x u v r1) = s_eta (upd P mufx miu x u v r2) /\
  s_rdual (upd P mufx miu x u v r1) = s_rdual (upd P mufx miu x u v r2) /\
  s_rcent (upd P mufx miu x u v r1) = s_rcent (upd P mufx miu x u v r2) /\
  (pA P = [] -> s_rprim (upd P mufx miu x u v r1) = s_rprim r1).
Proof. exact upd_independent_ineq. Qed.
Print Assumptions C04_iter_revert_restores_ineq_only.

(* (5) the five exits: which state and which status each leaves (exits 1, 2: the state as it was; exit 3: (x, u, v) as they
   were, the residual fields either re-evaluated (residual > r0) or those of the last TRIAL point (residual <= r0); exits 1, 2,
   3, 5: status = done() on the stored numbers; exit 4: failed; exit 0: status untouched) *)
Theorem C04_iter_exits : forall P mufx par st ans du,
  let k := fst (fst (iter_core P mufx par st ans du)) in
  let st' := snd (fst (iter_core P mufx par st ans du)) in
  ((k = 1%Z \/ k = 2%Z) /\ i_x st' = i_x st /\ i_u st' = i_u st /\ i_v st' = i_v st /\ i_res st' = i_res st /\ i_status st' = stored_done P par st')
  \/ (k = 3%Z /\ i_x st' = i_x st /\ i_u st' = i_u st /\ i_v st' = i_v st /\ i_status st' = stored_done P par st' /\
      exists rt, (res2 (i_res st) < res2 rt /\ i_res st' = upd P mufx (p_miu par) (i_x st) (i_u st) (i_v st) rt)
                 \/ (res2 rt <= res2 (i_res st) /\ i_res st' = rt))
  \/ (k = 4%Z /\ i_status st' = st_failed)
  \/ (k = 5%Z /\ i_status st' = stored_done P par st')
  \/ (k = 0%Z /\ i_status st' = i_status st).
Proof. exact iter_core_exits. Qed.
Print Assumptions C04_iter_exits.

(* `converged` only through done(): feasible and eta, |rdual|^2, |rprim|^2 below epsilon, epsilon^2 -- on the STORED numbers *)
Theorem C04_iter_converged_only_through_done : forall P mufx par st ans du, 0 <= p_eps par -> i_status st <> st_converged ->
  let k := fst (fst (iter_core P mufx par st ans du)) in
  let st' := snd (fst (iter_core P mufx par st ans du)) in
  i_status st' = st_converged ->
  (k = 1 \/ k = 2 \/ k = 3 \/ k = 5)%Z /\
  feasible_dec P (i_x st') (p_eps2 par) = true /\ s_eta (i_res st') < p_eps par /\
  sumsq (s_rdual (i_res st')) < p_eps par * p_eps par /\ sumsq (s_rprim (i_res st')) < p_eps par * p_eps par.
Proof. exact iter_converged_only_through_done. Qed.
Print Assumptions C04_iter_converged_only_through_done.

(* the `very precise convergence` test (exit 5), for rational roots a, b, c, d of the four squared norms *)
Theorem C04_iter_precise_test : forall peta ceta prd2 crd2 prp2 crp2 eps0 a b c d,
  0 <= eps0 -> 0 <= a -> 0 <= b -> 0 <= c -> 0 <= d -> a * a == prd2 -> b * b == crd2 -> c * c == prp2 -> d * d == crp2 ->
  (precise_test peta ceta prd2 crd2 prp2 crp2 eps0 = true <-> peta - ceta < eps0 /\ a - b < eps0 /\ c - d < eps0).
Proof. exact precise_test_spec. Qed.
Print Assumptions C04_iter_precise_test.

(* false of the faithful model (known finding `objective-stale-trial-point`): "after every pass the reported objective / gap are
   those of the returned x". min 2x s.t. -x <= 0 at x = 1, u = 2 (strictly feasible, residuals of that point, the EXACT Newton
   direction), solver::alpha = 0.99, beta = 0.99, max_lsearch_iters = 10, s0 = 0.999, miu = 10 (all inside the registered ranges):
   stage 2 is exhausted with residual <= r0, x is returned as it was, m_fx and m_eta are those of the last trial point, and
   done() decides (unbounded) on that mixture *)
Definition Pst : program := mkP [] [2] [] [] [[-(1)]] [0].
Definition par_st : params := mkPar (999 # 1000) 10 (99 # 100) (99 # 100) (1 # 10000000000) 0 (1 # 100000000) 10 1000000.
Definition st_st : istate := mkI [1] [2] [] (upd Pst 1 10 [1] [2] [] (res_init Pst)) 0.
Definition ans_st : answer :=
  let r := i_res st_st in
  mkAns [nth 0 (lvec Pst [1] (s_rdual r) (s_rcent r) (s_rprim r)) 0 / nth 0 (nth 0 (lmat Pst [1] [2]) []) 0] [] true true.

Theorem C04_iter_reported_numbers_of_returned_point_refuted :
  exists P mufx par st ans,
    inv P st /\ i_res st = upd P mufx (p_miu par) (i_x st) (i_u st) (i_v st) (res_init P) /\
    all_zero_b (sys_residual P (i_x st) (i_u st) (s_rdual (i_res st)) (s_rcent (i_res st)) (s_rprim (i_res st)) (a_dx ans) (a_dv ans)) = true /\
    let k := fst (fst (iter_step P mufx par st ans)) in
    let st' := snd (fst (iter_step P mufx par st ans)) in
    k = 3%Z /\ i_x st' = i_x st /\ i_u st' = i_u st /\
    ~ s_fx (i_res st') == m_fx mufx P (i_x st') /\ ~ s_eta (i_res st') == m_eta P (i_x st') (i_u st').
Proof.
  exists Pst, 1, par_st, st_st, ans_st. split.
  - constructor; simpl; try reflexivity; repeat constructor.
  - split; [reflexivity|]. split; [vm_compute; reflexivity|].
    vm_compute. repeat split; try reflexivity; intro H; discriminate.
Qed.
Print Assumptions C04_iter_reported_numbers_of_returned_point_refuted.

(* ---- non-vacuity of the iteration theorems ---------------------------------------------------------------------------- *)
(* min x1^2 + x2 s.t. x1 + x2 = 1, x >= 0 (P0) at x = (1/4, 3/4), u = (1, 1), v = 0: the exact Newton direction *)
Definition x_it : vec := [1 # 4; 3 # 4].
Definition u_it : vec := [1; 1].
Definition par_it : params := mkPar (999 # 1000) 10 (1 # 100) (9 # 10) (1 # 10000000000) 0 (1 # 100000000) 50 1000000.
Definition st_it : istate := mkI x_it u_it [0] (upd P0 1 10 x_it u_it [0] (res_init P0)) 0.
(* the exact solution of the 3 x 3 reduced system at this point *)
Definition ans_it : answer := mkAns [(19 # 220); (-(19) # 220)] [(-(9) # 11)] true true.

Example C04_nonvacuous_iter_inv : inv P0 st_it.
Proof. constructor; simpl; try reflexivity; repeat constructor. Qed.

Example C04_nonvacuous_iter_start : exists st, iter_start P0 1 par_it x_it = Some st /\ inv P0 st.
Proof.
  destruct (iter_start P0 1 par_it x_it) as [st|] eqn:E; [|vm_compute in E; discriminate].
  exists st. split; [reflexivity|]. apply (C04_iter_start_invariant P0 1 par_it x_it st C04_nonvacuous_wf eq_refl E).
Qed.

Example C04_nonvacuous_iter_system :
  all_zero_b (sys_residual P0 x_it u_it (s_rdual (i_res st_it)) (s_rcent (i_res st_it)) (s_rprim (i_res st_it)) (a_dx ans_it) (a_dv ans_it)) = true.
Proof. vm_compute. reflexivity. Qed.

(* the hypotheses of (1)/(2) hold for it, and the conclusion is what a direct evaluation gives at s = 1/2 *)
Example C04_nonvacuous_iter_contracts :
  veq (m_rprim P0 (vadd x_it (vscale (1 # 2) (a_dx ans_it)))) (vscale (1 - (1 # 2)) (m_rprim P0 x_it)) /\
  veq (m_rdual P0 (vadd x_it (vscale (1 # 2) (a_dx ans_it)))
                  (vadd u_it (vscale (1 # 2) (back_subst P0 x_it u_it (s_rcent (i_res st_it)) (a_dx ans_it))))
                  (vadd [0] (vscale (1 # 2) (a_dv ans_it))))
      (vscale (1 - (1 # 2)) (m_rdual P0 x_it u_it [0])).
Proof.
  apply (C04_iter_newton_step_contracts P0 x_it u_it [0] (s_rcent (i_res st_it)) (a_dx ans_it) (a_dv ans_it) (1 # 2));
    try exact C04_nonvacuous_wf; try reflexivity.
  - repeat constructor; vm_compute; intro H; discriminate.
  - unfold veq. vm_compute. repeat constructor.
Qed.

(* one pass of the model on it: accepted step (exit 0), the invariant holds at the new iterate, stage 2 passed its test *)
Example C04_nonvacuous_iter_step :
  fst (fst (iter_step P0 1 par_it st_it ans_it)) = 0%Z /\ inv P0 (snd (fst (iter_step P0 1 par_it st_it ans_it))) /\
  strict_b P0 (i_x (snd (fst (iter_step P0 1 par_it st_it ans_it)))) = true.
Proof.
  split; [vm_compute; reflexivity|]. split; [|vm_compute; reflexivity].
  apply C04_iter_step_invariant; try exact C04_nonvacuous_wf; try exact C04_nonvacuous_iter_inv; vm_compute; reflexivity || (intro H; discriminate).
Qed.

(* a pass that ends in done() with `converged`: the optimum itself with a tiny gap, a null direction, stage 1 exhausted *)
Example C04_nonvacuous_iter_precise : precise_test 1 1 4 4 9 9 (1 # 10) = true /\ precise_test 1 0 4 4 9 9 (1 # 10) = false.
Proof. split; vm_compute; reflexivity. Qed.

(* ==== the rest of the solver (C04_Rest_Defs.v): solve_without_inequality, make_strictly_feasible / make_x0, and the Newton
   iteration WITHOUT the hypothesis that the LDLT answer solves its system ============================================== *)

(* ---- (1) programs without inequalities: ONE KKT solve, status from `valid && aprox` ------------------------------------- *)
(* the system the code assembles for `program.solve(zero, c, -b)` is stationarity + feasibility: Q x + A' v = -c, A x = b *)
Theorem C04_eq_kkt_system : forall P x v, wf P -> length x = dim P -> length v = length (pA P) ->
  (veq (mv (eq_lmat P) (x ++ v)) (eq_lvec P) <->
   veq (vadd (qmv P x) (mtv (dim P) (pA P) v)) (vopp (pc P)) /\ veq (mv (pA P) x) (pb P)).
Proof. exact eq_kkt_system. Qed.
Print Assumptions C04_eq_kkt_system.

(* sufficiency of KKT: Q psd and an answer that solves the system exactly => x minimises the objective over {A x = b} *)
Theorem C04_eq_kkt_sufficient : forall P x v, wf P -> psd P -> pG P = [] -> length x = dim P -> length v = length (pA P) ->
  veq (mv (eq_lmat P) (x ++ v)) (eq_lvec P) -> is_min P x.
Proof. exact eq_kkt_sufficient. Qed.
Print Assumptions C04_eq_kkt_sufficient.

(* `converged` iff the residual is finite and Eigen's isApprox accepts the answer: |lmat z - lvec|^2 <= eps2^2 min(|lmat z|^2, |lvec|^2) *)
Theorem C04_eq_converged_iff : forall P mufx miu eps2 ans,
  es_status (eq_solve P mufx miu eps2 ans) = st_converged <->
  ea_valid ans = true /\
  sumsq (eq_sys_residual P (ea_x ans) (ea_v ans))
    <= eps2 * eps2 * Qmin (sumsq (mv (eq_lmat P) (ea_x ans ++ ea_v ans))) (sumsq (eq_lvec P)).
Proof. exact eq_converged_iff. Qed.
Print Assumptions C04_eq_converged_iff.

(* the other two statuses: `failed` iff not finite, `unfeasible` iff finite and not accepted; nothing else is ever assigned *)
Theorem C04_eq_status_other : forall P mufx miu eps2 ans,
  (es_status (eq_solve P mufx miu eps2 ans) = st_failed <-> ea_valid ans = false) /\
  (es_status (eq_solve P mufx miu eps2 ans) = 3%Z <-> ea_valid ans = true /\ es_aprox (eq_solve P mufx miu eps2 ans) = false) /\
  (es_status (eq_solve P mufx miu eps2 ans) = st_converged \/ es_status (eq_solve P mufx miu eps2 ans) = st_failed \/
   es_status (eq_solve P mufx miu eps2 ans) = 3%Z).
Proof. exact eq_status_other. Qed.
Print Assumptions C04_eq_status_other.

(* the reported objective is the caller's objective at x, the stored residuals are those of the returned (x, v) (no stale numbers here) *)
Theorem C04_eq_objective_reported : forall dQ dA dG P miu eps2 ans, 0 < dQ ->
  s_fx (es_res (eq_solve (normalizeP dQ dA dG P) dQ miu eps2 ans)) == objective P (ea_x ans).
Proof. exact eq_objective_reported. Qed.
Print Assumptions C04_eq_objective_reported.

Theorem C04_eq_state_residuals : forall P mufx miu eps2 ans, pG P = [] ->
  let st := eq_solve P mufx miu eps2 ans in
  es_x st = ea_x ans /\ es_v st = ea_v ans /\
  veq (s_rdual (es_res st)) (m_rdual P (ea_x ans) [] (ea_v ans)) /\
  veq (s_rprim (es_res st)) (m_rprim P (ea_x ans)) /\
  s_eta (es_res st) = 0 /\ s_rcent (es_res st) = [].
Proof. exact eq_state_residuals. Qed.
Print Assumptions C04_eq_state_residuals.

(* what `converged` guarantees about the equalities: a bound relative to the right-hand side (-c, b) of the KKT system ... *)
Theorem C04_eq_converged_rprim_bound : forall P mufx miu eps2 ans, wf P -> length (ea_x ans) = dim P ->
  es_status (eq_solve P mufx miu eps2 ans) = st_converged ->
  sumsq (m_rprim P (ea_x ans)) <= eps2 * eps2 * (sumsq (pc P) + sumsq (pb P)).
Proof. exact eq_converged_rprim_bound. Qed.
Print Assumptions C04_eq_converged_rprim_bound.

(* ... hence never `converged` on an equality system that no point satisfies within that bound, whatever the LDLT answers *)
Theorem C04_eq_never_converged_if_infeasible : forall P mufx miu eps2, wf P ->
  (forall x, length x = dim P -> eps2 * eps2 * (sumsq (pc P) + sumsq (pb P)) < sumsq (m_rprim P x)) ->
  forall ans, length (ea_x ans) = dim P -> es_status (eq_solve P mufx miu eps2 ans) <> st_converged.
Proof. exact eq_never_converged_if_infeasible. Qed.
Print Assumptions C04_eq_never_converged_if_infeasible.

(* ... and on the caller's rows, after the constructor's normalisation: |a_i x - b_i|^2 <= 2 (eps2 dA)^2, dA = max(1e-3, |A|_F, |b|_2) *)
Theorem C04_eq_converged_user_rows : forall dQ dA dG P miu eps2 ans, wf (normalizeP dQ dA dG P) -> 0 < dA -> length (ea_x ans) = dim P ->
  sumsq (vdiv dQ (pc P)) <= 1 -> sumsq (vdiv dA (pb P)) <= 1 ->
  es_status (eq_solve (normalizeP dQ dA dG P) dQ miu eps2 ans) = st_converged ->
  Forall (fun t => t * t <= 2 * (eps2 * dA) * (eps2 * dA)) (m_rprim P (ea_x ans)).
Proof. exact eq_converged_user_rows. Qed.
Print Assumptions C04_eq_converged_user_rows.

(* FALSE of the faithful model: "`converged` implies every equality within 1e-6 (1 + |b|_inf) as the property demands".
   min x^2/2 + x s.t. 10000 x = 0: the constructor divides the row by dA = |A|_F = 10000; the answer x = 5e-9, v = -1 - 5e-9 has a
   finite residual and passes isApprox with epsilon2 = 1e-8 (relative residual 5e-9), status converged -- but |10000 x - 0| = 5e-5.
   (Reproduced on the real library with a double-precision LDLT answer: notes/C04.md, `equality-tolerance-vs-row-scale`.) *)
Definition Peq_scale : program := mkP [[1]] [1] [[10000]] [0] [] [].
Definition ans_scale : eq_answer := mkEA [1 # 200000000] [- (1) - (1 # 200000000)] true.

Theorem C04_eq_converged_within_property_tolerance_refuted :
  exists P dQ dA dG ans,
    wf (normalizeP dQ dA dG P) /\ pG P = [] /\ length (ea_x ans) = dim P /\
    denom_ok (1 # 1000000) 0 dQ (pQ P) (pc P) = true /\ denom_ok (1 # 1000000) 0 dA (pA P) (pb P) = true /\
    es_status (eq_solve (normalizeP dQ dA dG P) dQ 10 (1 # 100000000) ans) = st_converged /\
    ~ Forall (fun t => Qabs t <= (1 # 1000000) * (1 + 0)) (m_rprim P (ea_x ans)).
Proof.
  exists Peq_scale, 1, 10000, 1, ans_scale.
  split; [constructor; simpl; try (right; reflexivity); repeat constructor|].
  repeat split; try (vm_compute; reflexivity).
  intros H. inversion H as [|t l Ht _]; subst. vm_compute in Ht. apply Ht. reflexivity.
Qed.
Print Assumptions C04_eq_converged_within_property_tolerance_refuted.

(* non-vacuity: min x1^2 + x2 s.t. x1 + x2 = 1 (P0 without its inequalities), exact answer x = (1/2, 1/2), v = -1 *)
Definition P0eq : program := mkP [[2; 0]; [0; 0]] [0; 1] [[1; 1]] [1] [] [].
Definition ans0eq : eq_answer := mkEA [1 # 2; 1 # 2] [- (1)] true.

Example C04_nonvacuous_eq_wf : wf P0eq.
Proof. constructor; simpl; try (right; reflexivity); repeat constructor; auto. Qed.

Example C04_nonvacuous_eq_psd : psd P0eq.
Proof.
  split.
  - intros [|a1 [|a2 [|? ?]]] [|b1 [|b2 [|? ?]]]; try discriminate. intros _ _. unfold bil. simpl. ring.
  - intros [|a1 [|a2 [|? ?]]]; try discriminate. intros _. unfold bil. simpl. pose proof (sq_nonneg a1). lra.
Qed.

Example C04_nonvacuous_eq_system : veq (mv (eq_lmat P0eq) (ea_x ans0eq ++ ea_v ans0eq)) (eq_lvec P0eq).
Proof. unfold veq. vm_compute. repeat constructor. Qed.

Example C04_nonvacuous_eq_min : is_min P0eq [1 # 2; 1 # 2].
Proof.
  apply (C04_eq_kkt_sufficient P0eq [1 # 2; 1 # 2] [- (1)] C04_nonvacuous_eq_wf C04_nonvacuous_eq_psd); try reflexivity.
  exact C04_nonvacuous_eq_system.
Qed.

Example C04_nonvacuous_eq_converged :
  es_status (eq_solve P0eq 1 10 (1 # 100000000) ans0eq) = st_converged /\
  es_status (eq_solve P0eq 1 10 (1 # 100000000) (mkEA [1; 0] [- (1)] true)) = 3%Z /\
  es_status (eq_solve P0eq 1 10 (1 # 100000000) (mkEA [1; 0] [- (1)] false)) = st_failed /\
  s_fx (es_res (eq_solve (normalizeP 2 2 1 P0eq) 2 10 (1 # 100000000) ans0eq)) == objective P0eq [1 # 2; 1 # 2].
Proof. repeat split; vm_compute; reflexivity. Qed.

(* x = 0 and x = 1: no point within the relative bound *)
Definition Peq_inf : program := mkP [] [0] [[1]; [1]] [0; 1] [] [].
Example C04_nonvacuous_eq_infeasible : wf Peq_inf /\
  forall x, length x = dim Peq_inf ->
    (1 # 100) * (1 # 100) * (sumsq (pc Peq_inf) + sumsq (pb Peq_inf)) < sumsq (m_rprim Peq_inf x).
Proof.
  split; [constructor; simpl; try (left; reflexivity); repeat constructor|].
  intros [|t [|? ?]] L; try discriminate. unfold m_rprim, sumsq. simpl. pose proof (sq_nonneg (2 * t - 1)). lra.
Qed.

Example C04_nonvacuous_eq_user_rows :
  sumsq (vdiv 2 (pc P0eq)) <= 1 /\ sumsq (vdiv 2 (pb P0eq)) <= 1 /\
  es_status (eq_solve (normalizeP 2 2 1 P0eq) 2 10 (1 # 100000000) ans0eq) = st_converged.
Proof. repeat split; vm_compute; try reflexivity; intro H; discriminate. Qed.

(* ---- (2) make_strictly_feasible / make_x0: the default starting point ----------------------------------------------------- *)
(* NB: the code does not solve an auxiliary program; its candidates are least-squares fits of "every slack equals y" *)
(* whatever the inner solves answer, a returned point is strictly inside every inequality (the equalities are never looked at) *)
Theorem C04_msf_returns_strict : forall G h rounds x, msf_run G h rounds = Some x ->
  G <> [] /\ msf_slack G h x <> [] /\ Forall (fun t => t < 0) (msf_slack G h x).
Proof. exact msf_returns_strict. Qed.
Print Assumptions C04_msf_returns_strict.

(* a candidate that solves its normal equations (G'G) x = G'(h - y 1) minimises |G z - (h - y 1)|_2 over all z *)
Theorem C04_msf_least_squares : forall n G h y x z, rows_ok n G -> length h = length G -> length x = n -> length z = n ->
  Forall (fun t => t == 0) (msf_residual n G h y x) ->
  sumsq (vsub (mv G x) (msf_target h y)) <= sumsq (vsub (mv G z) (msf_target h y)).
Proof. exact msf_least_squares. Qed.
Print Assumptions C04_msf_least_squares.

(* the only completeness there is: when some point has every slack EQUAL to a trial distance y > 0, that trial is accepted *)
Theorem C04_msf_finds_equal_slack : forall n G h y x z, rows_ok n G -> G <> [] -> length h = length G -> length x = n -> length z = n ->
  0 < y -> Forall (fun t => t == 0) (msf_residual n G h y x) ->
  Forall (fun t => t == - y) (msf_slack G h z) -> msf_accept G h x = true.
Proof. exact msf_finds_equal_slack. Qed.
Print Assumptions C04_msf_finds_equal_slack.

(* nothing found => make_x0 = 0 => solve_with_inequality returns `unfeasible` before the first iteration unless every h_i > 0 *)
Theorem C04_start_from_zero : forall P mufx par, wf P -> pG P <> [] ->
  (iter_start P mufx par (make_x0 (dim P) None) = None <-> ~ Forall (fun t => 0 < t) (ph P)).
Proof. exact start_from_zero. Qed.
Print Assumptions C04_start_from_zero.

(* FALSE of the faithful model: "a program with a strictly feasible point gets a strictly feasible start" (and with it: "status
   unfeasible means infeasible").  min -x s.t. x <= 0, -2x <= 2, x <= 10 (feasible set [-1, 0], optimum 0, strictly feasible at -1/2):
   the rows sum to zero, so the least-squares candidate is x = 1 for EVERY distance y; with exact inner solves and the exact distances
   1, 10/3, 3/10, ... all 100 trials fail, make_x0 returns 0, max(G 0 - h) = 0 >= 0 and the solver reports `unfeasible` without a
   single iteration (reproduced on the real library, and measured on generated programs: notes/C04.md) *)
Fixpoint blind_rounds (k : nat) (ym yM : Q) : list msf_round :=
  match k with O => [] | S k' => mkRound ym [1] yM [1] :: blind_rounds k' (ym * (3 # 10)) (yM / (3 # 10)) end.
Definition Pblind : program := mkP [] [- (1)] [] [] [[1]; [- (2)]; [1]] [0; 2; 10].

Theorem C04_msf_strictly_feasible_program_gets_start_refuted :
  exists P rounds z,
    wf P /\ strict P z /\ feasible_pt P z /\
    length rounds = 50%nat /\ forallb (msf_round_valid_b (dim P) (pG P) (ph P)) rounds = true /\ msf_ys_ok_b (3 # 10) rounds = true /\
    msf_run (pG P) (ph P) rounds = None /\ default_x0 P rounds = zeros (dim P) /\
    forall mufx par, iter_start P mufx par (default_x0 P rounds) = None.
Proof.
  exists Pblind, (blind_rounds 50 1 (10 # 3)), [- (1 # 2)].
  split; [constructor; simpl; try (left; reflexivity); repeat constructor|].
  split; [unfold strict; vm_compute; repeat constructor|].
  split; [unfold feasible_pt; split; [reflexivity|split; vm_compute; repeat constructor; intro H; discriminate]|].
  split; [reflexivity|]. split; [vm_compute; reflexivity|]. split; [vm_compute; reflexivity|].
  split; [vm_compute; reflexivity|].
  assert (E : default_x0 Pblind (blind_rounds 50 1 (10 # 3)) = [0]) by (vm_compute; reflexivity).
  split; [rewrite E; reflexivity|].
  intros mufx par. rewrite E. unfold iter_start.
  assert (S0 : start_unfeasible_dec Pblind [0] = true) by (vm_compute; reflexivity).
  rewrite S0. reflexivity.
Qed.
Print Assumptions C04_msf_strictly_feasible_program_gets_start_refuted.

(* FALSE of the faithful model: "the returned point satisfies the equalities": min 0 s.t. x = 5, x <= 1 returns x = 0 *)
Definition Pign : program := mkP [] [0] [[1]] [5] [[1]] [1].
Theorem C04_msf_point_satisfies_equalities_refuted :
  exists P rounds x, wf P /\ forallb (msf_round_valid_b (dim P) (pG P) (ph P)) rounds = true /\
    msf_run (pG P) (ph P) rounds = Some x /\ ~ Forall (fun t => t == 0) (m_rprim P x).
Proof.
  exists Pign, [mkRound 1 [0] (10 # 3) [- (7 # 3)]], [0].
  split; [constructor; simpl; try (left; reflexivity); repeat constructor|].
  split; [vm_compute; reflexivity|]. split; [vm_compute; reflexivity|].
  intros H. inversion H as [|t l Ht _]; subst. vm_compute in Ht. discriminate.
Qed.
Print Assumptions C04_msf_point_satisfies_equalities_refuted.

(* non-vacuity: x1 <= 1, x2 <= 1, -x1 - x2 <= 1; y = 1: the normal equations give x = (-1/3, -1/3), accepted at the first trial;
   the point (0, 0) has slacks (-1, -1, -1): every slack equals -y for y = 1 *)
Definition Gnv : mat := [[1; 0]; [0; 1]; [- (1); - (1)]].
Definition hnv : vec := [1; 1; 1].
Example C04_nonvacuous_msf :
  msf_run Gnv hnv [mkRound 1 [0; 0] (10 # 3) [0; 0]] = Some [0; 0] /\
  all_zero_b (msf_residual 2 Gnv hnv 1 [0; 0]) = true /\
  Forall (fun t => t == - (1)) (msf_slack Gnv hnv [0; 0]) /\ rows_ok 2 Gnv /\
  msf_accept Gnv hnv [0; 0] = true.
Proof.
  split; [vm_compute; reflexivity|]. split; [vm_compute; reflexivity|].
  split; [vm_compute; repeat constructor|]. split; [repeat constructor|vm_compute; reflexivity].
Qed.

Example C04_nonvacuous_start_from_zero :
  iter_start P0 1 par_it (make_x0 (dim P0) None) = None /\ ~ Forall (fun t => 0 < t) (ph P0).
Proof.
  split; [vm_compute; reflexivity|]. intros H. inversion H as [|t l Ht _]; subst. vm_compute in Ht. discriminate.
Qed.

(* ---- (3) the Newton iteration when the LDLT answer does NOT solve its system (Eigen's LDLT fails on a singular block and
   solver.cpp never looks at info(): notes/C04.md) ------------------------------------------------------------------- *)
(* the checked hypothesis *)
Theorem C04_ldlt_ok_checkable : forall P x u rd rc rp dx dv tol, lu_ok_b P x u rd rc rp dx dv tol = true ->
  Forall (fun t => Qabs t <= tol) (sys_residual P x u rd rc rp dx dv).
Proof. exact lu_ok_sound. Qed.
Print Assumptions C04_ldlt_ok_checkable.

(* elimination with a defect: for ANY (dx, dv), with (rt, rb) = lmat (dx, dv) - lvec and du the back-substitution, the full Newton
   rows hold up to exactly that defect (rt = rb = 0 is C04_iter_elimination) *)
Theorem C04_ldlt_elimination_with_defect : forall P x u rd rc rp dx dv du rt rb,
  wf P -> length x = dim P -> length u = length (pG P) -> length rd = dim P -> length rc = length (pG P) ->
  length rp = length (pA P) -> length dx = dim P -> length dv = length (pA P) ->
  length rt = dim P -> length rb = length (pA P) ->
  Forall (fun t => ~ t == 0) (gxh P x) ->
  veq (sys_residual P x u rd rc rp dx dv) (rt ++ rb) ->
  veq du (back_subst P x u rc dx) ->
  veq (vadd (vadd (qmv P dx) (mtv (dim P) (pG P) du)) (mtv (dim P) (pA P) dv)) (vadd (vopp rd) rt) /\
  veq (vsub (vopp (vmul u (mv (pG P) dx))) (vmul (gxh P x) du)) (vopp rc) /\
  veq (mv (pA P) dx) (vadd (vopp rp) rb).
Proof. exact ldlt_elimination_with_defect. Qed.
Print Assumptions C04_ldlt_elimination_with_defect.

(* hence the residuals after a step are (1 - s) times the old ones PLUS s times the defect: without lu_ok no contraction *)
Theorem C04_ldlt_step_with_defect : forall P x u v rc dx dv s rt rb,
  wf P -> length x = dim P -> length u = length (pG P) -> length v = length (pA P) -> length rc = length (pG P) ->
  length dx = dim P -> length dv = length (pA P) -> length rt = dim P -> length rb = length (pA P) ->
  Forall (fun t => ~ t == 0) (gxh P x) ->
  veq (sys_residual P x u (m_rdual P x u v) rc (m_rprim P x) dx dv) (rt ++ rb) ->
  let du := back_subst P x u rc dx in
  veq (m_rprim P (vadd x (vscale s dx))) (vadd (vscale (1 - s) (m_rprim P x)) (vscale s rb)) /\
  veq (m_rdual P (vadd x (vscale s dx)) (vadd u (vscale s du)) (vadd v (vscale s dv)))
      (vadd (vscale (1 - s) (m_rdual P x u v)) (vscale s rt)).
Proof.
  intros P x u v rc dx dv s rt rb W Lx Lu Lv Lrc Ldx Ldv Lrt Lrb Hnz Hres du.
  assert (Lrd : length (m_rdual P x u v) = dim P).
  { rewrite (veq_length _ _ (m_rdual_char P x u v W)).
    pose proof (wf_Grows P W). pose proof (wf_Arows P W). pose proof (length_qmv P x W).
    assert (length (pc P) = dim P) by reflexivity. len. }
  assert (Lrp : length (m_rprim P x) = length (pA P)) by (unfold m_rprim; pose proof (wf_b P W); len).
  destruct (ldlt_elimination_with_defect P x u (m_rdual P x u v) rc (m_rprim P x) dx dv du rt rb W Lx Lu Lrd Lrc Lrp Ldx Ldv Lrt Lrb Hnz Hres (veq_refl _))
    as [N1 [_ N3]].
  assert (Ldu : length du = length (pG P)).
  { unfold du. rewrite (veq_length _ _ (back_subst_veq P x u rc dx)). pose proof (length_gxh P x W). len. }
  split; [apply rprim_with_defect; assumption|apply rdual_with_defect; assumption].
Qed.
Print Assumptions C04_ldlt_step_with_defect.

(* FALSE of the faithful model without lu_ok: "an accepted step keeps a satisfied equality satisfied".  min x1 s.t. x1 + x2 = 1,
   -x1 <= 0 at the feasible x = (1/2, 1/2), u = 2, v = 0 with the direction dx = (0, 4/5), dv = -1/2 (what a failed factorisation of the
   singular block can return; the residual of the reduced system is (0.3, -0.5, 0.8)): both line-search stages accept s = 0.999, the
   invariants still hold at the new iterate, but A x' - b = 0.7992 *)
Definition Pld : program := mkP [] [1; 0] [[1; 1]] [1] [[- (1); 0]] [0].
Definition par_ld : params := mkPar (999 # 1000) 10 (1 # 100) (9 # 10) (1 # 10000000000) 0 (1 # 100000000) 50 1000000.
Definition st_ld : istate := mkI [1 # 2; 1 # 2] [2] [0] (upd Pld 1 10 [1 # 2; 1 # 2] [2] [0] (res_init Pld)) 0.
Definition ans_ld : answer := mkAns [0; 4 # 5] [- (1 # 2)] true true.

Theorem C04_ldlt_contraction_without_lu_ok_refuted :
  exists P mufx par st ans,
    wf P /\ inv P st /\ i_res st = upd P mufx (p_miu par) (i_x st) (i_u st) (i_v st) (res_init P) /\
    lu_ok_b P (i_x st) (i_u st) (s_rdual (i_res st)) (s_rcent (i_res st)) (s_rprim (i_res st)) (a_dx ans) (a_dv ans) (1 # 10) = false /\
    Forall (fun t => t == 0) (m_rprim P (i_x st)) /\
    let k := fst (fst (iter_step P mufx par st ans)) in
    let st' := snd (fst (iter_step P mufx par st ans)) in
    k = 0%Z /\ inv P st' /\ ~ Forall (fun t => t == 0) (m_rprim P (i_x st')).
Proof.
  exists Pld, 1, par_ld, st_ld, ans_ld.
  assert (W : wf Pld) by (constructor; simpl; try (left; reflexivity); repeat constructor).
  assert (I : inv Pld st_ld) by (constructor; simpl; try reflexivity; repeat constructor).
  split; [exact W|]. split; [exact I|]. split; [reflexivity|]. split; [vm_compute; reflexivity|].
  split; [vm_compute; repeat constructor|].
  split; [vm_compute; reflexivity|].
  split.
  - apply C04_iter_step_invariant; try exact W; try exact I; vm_compute; reflexivity || (intro H; discriminate).
  - intros H. vm_compute in H. inversion H as [|t l Ht _]; subst. discriminate.
Qed.
Print Assumptions C04_ldlt_contraction_without_lu_ok_refuted.

(* what survives WITHOUT lu_ok (the statement that matters for the property): whatever directions the solves returned, a run of the
   loop that ends `converged` ends at a point that passes the feasibility test transferred to the caller's rows, with eta, |rdual|,
   |rprim| below epsilon on the stored numbers -- a failed factorisation can never produce a false `converged` ... *)
Theorem C04_ldlt_failure_never_false_converged : forall dQ dA dG P mufx par, 0 < dA -> 0 < dG -> 0 < p_eps2 par -> 0 <= p_eps par ->
  forall fuel iters maxit st answers, i_status st <> st_converged ->
  let r := fst (iter_run fuel iters maxit (normalizeP dQ dA dG P) mufx par st answers) in
  i_status r = st_converged ->
  user_feasible_b P (i_x r) (p_eps2 par * dA) (p_eps2 par * dG) = true /\ s_eta (i_res r) < p_eps par /\
  sumsq (s_rdual (i_res r)) < p_eps par * p_eps par /\ sumsq (s_rprim (i_res r)) < p_eps par * p_eps par.
Proof. exact ldlt_failure_never_false_converged. Qed.
Print Assumptions C04_ldlt_failure_never_false_converged.

(* ... and never on an infeasible program *)
Theorem C04_ldlt_never_converged_if_infeasible : forall dQ dA dG P mufx par, 0 < dA -> 0 < dG -> 0 < p_eps2 par -> 0 <= p_eps par ->
  (forall x, user_feasible_b P x (p_eps2 par * dA) (p_eps2 par * dG) = false) ->
  forall fuel iters maxit st answers, i_status st <> st_converged ->
  i_status (fst (iter_run fuel iters maxit (normalizeP dQ dA dG P) mufx par st answers)) <> st_converged.
Proof. exact ldlt_never_converged_if_infeasible. Qed.
Print Assumptions C04_ldlt_never_converged_if_infeasible.

(* non-vacuity: the defect identities on the witness above (defect (0.3, -0.5 | 0.8), s = 1/2), and a run on an infeasible program *)
Example C04_nonvacuous_ldlt_defect :
  veq (sys_residual Pld [1 # 2; 1 # 2] [2] (m_rdual Pld [1 # 2; 1 # 2] [2] [0]) (s_rcent (i_res st_ld)) (m_rprim Pld [1 # 2; 1 # 2]) [0; 4 # 5] [- (1 # 2)])
      ([3 # 10; - (1 # 2)] ++ [4 # 5]) /\
  veq (m_rprim Pld (vadd [1 # 2; 1 # 2] (vscale (1 # 2) [0; 4 # 5])))
      (vadd (vscale (1 - (1 # 2)) (m_rprim Pld [1 # 2; 1 # 2])) (vscale (1 # 2) [4 # 5])).
Proof.
  split; [unfold veq; vm_compute; repeat constructor|].
  refine (proj1 (C04_ldlt_step_with_defect Pld [1 # 2; 1 # 2] [2] [0] (s_rcent (i_res st_ld)) [0; 4 # 5] [- (1 # 2)] (1 # 2) [3 # 10; - (1 # 2)] [4 # 5] _ _ _ _ _ _ _ _ _ _ _));
    try reflexivity.
  - constructor; simpl; try (left; reflexivity); repeat constructor.
  - repeat constructor; vm_compute; intro H; discriminate.
  - unfold veq. vm_compute. repeat constructor.
Qed.

Definition par_run : params := mkPar (999 # 1000) 10 (1 # 100) (9 # 10) (1 # 10) 0 (1 # 100) 50 1000000.
Example C04_nonvacuous_ldlt_run :
  i_status (fst (iter_run 3 0 300 (normalizeP 1 1 1 Pinf) 1 par_run (mkI [0] [1; 1] [] (res_init Pinf) 0) [mkAns [1] [] true true; mkAns [1] [] true true]))
    <> st_converged.
Proof.
  apply (C04_ldlt_never_converged_if_infeasible 1 1 1 Pinf 1 par_run); try (vm_compute; reflexivity) || (vm_compute; intro H; discriminate).
  exact C04_nonvacuous_infeasible.
Qed.
