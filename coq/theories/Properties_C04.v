(* C04 -- LP/QP primal-dual interior point: `converged` means feasible and optimal as stated.
   Theorems about the executable model of C04_Defs (exact rationals; all programs, points, multipliers). The
   decisions [feasible_dec], [converged_dec], [status_dec] are the expressions of src/program/solver.cpp translated
   on every run (LNGen.Src_c04). What is *not* proved here (the Newton iteration, that Eigen's fullPivLu returns a
   factorisation, rounding) is listed in notes/C04.md and searched on the implementation.
   The last two groups bring program::reduce (the reduced equality system assembled from an LU factorisation given as an
   oracle answer, C04_Reduce.v) and the step-length kernel of the Newton iteration (C04_Step.v) inside the model. *)
From Coq Require Import List ZArith QArith Qminmax Qabs Bool Lia Lqa.
From LNGen Require Import Src_c04.
From LN Require Import C04_Defs C04_Proofs C04_Reduce C04_ReduceProofs C04_Step C04_StepProofs.
Import ListNotations.
Local Open Scope Q_scope.

(* ---- weak duality with residuals (upper side of |f(x) - f*|) ------------------------------------------------------ *)
Theorem C04_gap_upper : forall P x u v y,
  wf P -> psd P -> length x = dim P -> Forall (fun t => 0 <= t) u -> feasible_pt P y ->
  objective P x - objective P y <= m_eta P x u + dot (m_rdual P x u v) (vsub x y) - dot v (m_rprim P x).
Proof. exact gap_upper. Qed.
Print Assumptions C04_gap_upper.

(* ... with |rdual|_2 <= Rd, |x-y|_2 <= Dx (Cauchy-Schwarz, squared since sqrt is not rational), |rprim|_inf <= Rp *)
Theorem C04_gap_upper_norms : forall P x u v y Rd Dx Rp,
  wf P -> psd P -> length x = dim P -> Forall (fun t => 0 <= t) u -> feasible_pt P y ->
  0 <= Rd -> 0 <= Dx -> 0 <= Rp ->
  sumsq (m_rdual P x u v) <= Rd * Rd -> sumsq (vsub x y) <= Dx * Dx -> Forall (fun t => Qabs t <= Rp) (m_rprim P x) ->
  objective P x - objective P y <= m_eta P x u + Rd * Dx + norm1 v * Rp.
Proof. exact gap_upper_norms. Qed.
Print Assumptions C04_gap_upper_norms.

(* ---- the other side, against a KKT point (how the generator fixes the optimum) ------------------------------------ *)
Theorem C04_gap_lower : forall P x y us vs rho delta,
  wf P -> psd P -> length x = dim P -> kkt_pt P y us vs -> 0 <= rho -> 0 <= delta ->
  Forall (fun t => Qabs t <= rho) (m_rprim P x) -> Forall (fun t => t <= delta) (gxh P x) ->
  - (norm1 vs * rho) - norm1 us * delta <= objective P x - objective P y.
Proof. exact gap_lower_bounds. Qed.
Print Assumptions C04_gap_lower.

(* ---- normalisation: same feasible set, objective scaled by the divisor, same minimisers --------------------------- *)
Theorem C04_normalize_equiv : forall dQ dA dG P, 0 < dQ -> 0 < dA -> 0 < dG ->
  (forall y, feasible_pt (normalizeP dQ dA dG P) y <-> feasible_pt P y) /\
  (forall x, objective P x == dQ * objective (normalizeP dQ dA dG P) x) /\
  (forall y, is_min (normalizeP dQ dA dG P) y <-> is_min P y).
Proof. exact normalize_equiv. Qed.
Print Assumptions C04_normalize_equiv.

(* the objective the solver reports (`m_fx *= m_mufx`) is the caller's objective at x *)
Theorem C04_objective_reported : forall dQ dA dG P x, 0 < dQ -> m_fx dQ (normalizeP dQ dA dG P) x == objective P x.
Proof. exact objective_reported. Qed.
Print Assumptions C04_objective_reported.

(* ---- the decisions, as the source states them ---------------------------------------------------------------------- *)
Theorem C04_converged_iff : forall feas eta rd2 rp2 eps, 0 <= eps ->
  (status_dec feas eta rd2 rp2 eps = st_converged <->
   feas = true /\ eta < eps /\ rd2 < eps * eps /\ rp2 < eps * eps).
Proof. intros. rewrite status_dec_converged. now apply converged_dec_iff. Qed.
Print Assumptions C04_converged_iff.

Theorem C04_feasible_iff : forall P x e2, 0 <= e2 ->
  (feasible_dec P x e2 = true <->
   (pA P = [] \/ sumsq (m_rprim P x) < e2 * e2) /\ (pG P = [] \/ vmaxc (gxh P x) < e2)).
Proof. exact feasible_dec_iff. Qed.
Print Assumptions C04_feasible_iff.

(* ---- the internal feasibility test transfers to the program as the caller stated it ------------------------------- *)
Theorem C04_feasible_transfer : forall dQ dA dG P x e2, 0 < dA -> 0 < dG -> 0 < e2 ->
  feasible_dec (normalizeP dQ dA dG P) x e2 = true ->
  user_feasible_b P x (e2 * dA) (e2 * dG) = true.
Proof. exact feasible_transfer. Qed.
Print Assumptions C04_feasible_transfer.

Theorem C04_never_converged_if_infeasible : forall dQ dA dG P e2 eps, 0 < dA -> 0 < dG -> 0 < e2 ->
  (forall x, user_feasible_b P x (e2 * dA) (e2 * dG) = false) ->
  forall x eta rdual rprim, model_done (normalizeP dQ dA dG P) x eta rdual rprim eps e2 <> st_converged.
Proof. exact never_converged_if_infeasible. Qed.
Print Assumptions C04_never_converged_if_infeasible.

(* ---- unbounded programs: a descent ray steeper than eps per unit length forbids `converged` ------------------------ *)
Theorem C04_never_converged_if_steep_ray : forall P x u v d eps e2 Dd,
  wf P -> psd P -> length x = dim P -> Forall (fun t => 0 <= t) u -> ray P d ->
  0 < eps -> 0 <= Dd -> sumsq d <= Dd * Dd -> dot (pc P) d < - (eps * Dd) ->
  model_status P x u v eps e2 <> st_converged.
Proof. exact never_converged_if_steep_ray. Qed.
Print Assumptions C04_never_converged_if_steep_ray.

(* ---- a state the model declares converged is eps-optimal; on the caller's program with the factor M = dQ ---------- *)
Theorem C04_converged_gap : forall P x u v y eps e2 Dx,
  wf P -> psd P -> length x = dim P -> Forall (fun t => 0 <= t) u -> feasible_pt P y ->
  0 < eps -> 0 <= Dx -> sumsq (vsub x y) <= Dx * Dx ->
  model_status P x u v eps e2 = st_converged ->
  objective P x - objective P y <= eps * (1 + Dx + norm1 v).
Proof. exact converged_gap. Qed.
Print Assumptions C04_converged_gap.

Theorem C04_converged_gap_user : forall dQ dA dG P x u v y eps e2 Dx,
  wf (normalizeP dQ dA dG P) -> psd (normalizeP dQ dA dG P) -> 0 < dQ -> 0 < dA -> 0 < dG ->
  length x = dim P -> Forall (fun t => 0 <= t) u -> feasible_pt P y ->
  0 < eps -> 0 <= Dx -> sumsq (vsub x y) <= Dx * Dx ->
  model_status (normalizeP dQ dA dG P) x u v eps e2 = st_converged ->
  objective P x - objective P y <= dQ * eps * (1 + Dx + norm1 v).
Proof. exact converged_gap_user. Qed.
Print Assumptions C04_converged_gap_user.

(* ---- what is not proved: the property for the *implementation* needs the iteration and floating point ------------- *)
(* the full optimality clause with the returned multipliers on both sides (the lower side is proved only with the
   multipliers of the optimum, C04_gap_lower) *)
Definition C04_two_sided_full_statement : Prop := forall dQ dA dG P x u v y eps e2 Dx,
  wf (normalizeP dQ dA dG P) -> psd (normalizeP dQ dA dG P) -> 0 < dQ -> 0 < dA -> 0 < dG ->
  length x = dim P -> Forall (fun t => 0 <= t) u -> is_min P y ->
  0 < eps -> 0 <= Dx -> sumsq (vsub x y) <= Dx * Dx ->
  model_status (normalizeP dQ dA dG P) x u v eps e2 = st_converged ->
  Qabs (objective P x - objective P y) <= 100 * dQ * eps * (1 + Dx + norm1 u + norm1 v).

(* ---- non-vacuity ------------------------------------------------------------------------------------------------------ *)
(* min x1^2 + x2  s.t. x1 + x2 = 1, x >= 0: rank-deficient Q, optimum (1/2,1/2), v* = -1, u* = 0 *)
Definition P0 : program := mkP [[2; 0]; [0; 0]] [0; 1] [[1; 1]] [1] [[-1; 0]; [0; -1]] [0; 0].
Definition y0 : vec := [1 # 2; 1 # 2].

Example C04_nonvacuous_wf : wf P0.
Proof. constructor; simpl; try (right; reflexivity); repeat constructor; auto. Qed.

Example C04_nonvacuous_psd : psd P0.
Proof.
  split.
  - intros [|a1 [|a2 [|? ?]]] [|b1 [|b2 [|? ?]]]; try discriminate. intros _ _. unfold bil. simpl. ring.
  - intros [|a1 [|a2 [|? ?]]]; try discriminate. intros _. unfold bil. simpl. pose proof (sq_nonneg a1). lra.
Qed.

Example C04_nonvacuous_feasible : feasible_pt P0 y0.
Proof.
  unfold feasible_pt. simpl. repeat split; repeat constructor; try reflexivity; unfold Qle; simpl; lia.
Qed.

Example C04_nonvacuous_kkt : kkt_pt P0 y0 [0; 0] [-1].
Proof.
  split; [exact C04_nonvacuous_feasible|]. simpl. repeat split; repeat constructor; try reflexivity; unfold Qle; simpl; lia.
Qed.

(* the model declares the optimum itself converged, a point 1/4 away not; a clearly infeasible and a clearly
   unbounded program satisfy the hypotheses of the two `never converged` theorems *)
Example C04_nonvacuous_converged : model_status P0 y0 [0; 0] [-1] (1 # 10) (1 # 100) = st_converged.
Proof. vm_compute. reflexivity. Qed.

Example C04_nonvacuous_not_converged : model_status P0 [3 # 4; 1 # 4] [1 # 100; 1 # 100] [-1] (1 # 10) (1 # 100) <> st_converged.
Proof. vm_compute. discriminate. Qed.

Example C04_nonvacuous_gap :
  objective P0 y0 - objective P0 y0 <= (1 # 10) * (1 + 0 + norm1 [-1]).
Proof.
  apply (C04_converged_gap P0 y0 [0; 0] [-1] y0 (1 # 10) (1 # 100) 0);
    try exact C04_nonvacuous_wf; try exact C04_nonvacuous_psd; try exact C04_nonvacuous_feasible;
    try exact C04_nonvacuous_converged; try reflexivity; try lra.
  - repeat constructor; lra.
  - vm_compute. discriminate.
Qed.

(* x <= 0 and x >= 1 *)
Definition Pinf : program := mkP [] [1] [] [] [[1]; [-1]] [0; -1].

Example C04_nonvacuous_infeasible : forall x, user_feasible_b Pinf x ((1 # 100) * 1) ((1 # 100) * 1) = false.
Proof.
  intros x. unfold user_feasible_b. simpl.
  destruct x as [|t x]; simpl.
  - vm_compute. reflexivity.
  - destruct (Qltb (1 * t + 0 - 0) ((1 # 100) * 1)) eqn:E1; [|reflexivity].
    destruct (Qltb (-1 * t + 0 - -1) ((1 # 100) * 1)) eqn:E2; [|reflexivity].
    apply Qltb_lt in E1. apply Qltb_lt in E2. exfalso. lra.
Qed.

(* min -x s.t. -x <= 0 *)
Definition Punb : program := mkP [] [-1] [] [] [[-1]] [0].

Example C04_nonvacuous_ray : wf Punb /\ psd Punb /\ ray Punb [1] /\ sumsq [1] <= 1 * 1 /\ dot (pc Punb) [1] < - ((1 # 10) * 1).
Proof.
  split; [constructor; simpl; repeat constructor; auto|].
  split; [split; [intros; unfold bil; simpl; rewrite !dot_nil_r; reflexivity|intros; unfold bil; simpl; rewrite dot_nil_r; lra]|].
  split; [unfold ray; simpl; repeat split; repeat constructor; unfold Qle; simpl; lia|].
  split; vm_compute; reflexivity || (intro H; discriminate).
Qed.

(* the internal feasibility test is satisfiable and is really transferred *)
Example C04_nonvacuous_transfer :
  feasible_dec (normalizeP 2 2 1 P0) y0 (1 # 100) = true /\ user_feasible_b P0 y0 ((1 # 100) * 2) ((1 # 100) * 1) = true.
Proof. split; vm_compute; reflexivity. Qed.

(* ==== program::reduce: dependent equality rows are eliminated without changing the solution set ======================= *)
(* [lu_valid M r c f]: f = (P, Q, L, U, rank) is a full-pivoting LU factorisation of M^T, P M^T Q = L U exactly, P and Q
   permutations (index lists), U upper triangular with `rank` non-zero pivots and zero rows below, L unit lower triangular.
   Hypothesis about Q: only that it is a permutation of the r rows of [A|b]. Q does not occur in the product the code forms
   (U^T.block(0,0,rank,n) * L^T * P): that product consists of the rows q_0 .. q_{rank-1} of [A|b] themselves
   (C04_ReduceProofs.assemble_entry), Q only names them, and the order of equations does not matter for a solution set. *)

(* (1) the solution set is exactly preserved: every theorem about the reduced program is a theorem about the caller's *)
Theorem C04_reduce_same_solutions : forall A b ncols f,
  rows_ok ncols A -> length b = length A ->
  lu_valid (stack A b) (length A) (S ncols) f ->
  forall x, length x = ncols ->
    (sat A b x <-> sat (reduced_A A b ncols f) (reduced_b A b ncols f) x).
Proof. exact reduce_same_solutions. Qed.
Print Assumptions C04_reduce_same_solutions.

(* (2) dropping dependent rows never turns an infeasible equality system feasible (b is reduced together with A) *)
Theorem C04_reduce_inconsistent_preserved : forall A b ncols f,
  rows_ok ncols A -> length b = length A ->
  lu_valid (stack A b) (length A) (S ncols) f ->
  (forall x, length x = ncols -> ~ sat A b x) ->
  forall x, length x = ncols -> ~ sat (reduced_A A b ncols f) (reduced_b A b ncols f) x.
Proof. exact reduce_inconsistent_preserved. Qed.
Print Assumptions C04_reduce_inconsistent_preserved.

(* (3) rank = rows: the early return, the system is returned as it is (flag: false only for an empty system) *)
Theorem C04_reduce_full_rank_identity : forall A b ncols f,
  rows_ok ncols A -> length b = length A -> lu_rank f = length A ->
  reduce_model A b ncols f = (negb (Nat.eqb (length A) 0), (A, b)).
Proof. exact reduce_full_rank_identity. Qed.
Print Assumptions C04_reduce_full_rank_identity.

(* when rows are removed exactly `rank` rows remain *)
Theorem C04_reduce_row_count : forall A b ncols f, length A <> 0%nat -> lu_rank f <> length A ->
  length (reduced_A A b ncols f) = lu_rank f /\ length (reduced_b A b ncols f) = lu_rank f.
Proof. exact reduce_row_count. Qed.
Print Assumptions C04_reduce_row_count.

(* the kept rows [A'|b'] are linearly independent (the only place where L unit lower triangular is used): the KKT matrix
   the solver factorises afterwards is built from a full-row-rank equality block *)
Theorem C04_reduce_rows_independent : forall M r c f,
  shape M r c -> lu_valid M r c f -> lu_rank f <> r ->
  forall w : nat -> Q,
    (forall col, (col < c)%nat -> sum_upto (lu_rank f) (fun i => w i * entry (reduce_sys M r c f) i col) == 0) ->
    forall i, (i < lu_rank f)%nat -> w i == 0.
Proof. intros M r c f Hs Hv E. exact (reduce_rows_independent M r c f Hv E). Qed.
Print Assumptions C04_reduce_rows_independent.

(* the hypothesis is decidable: the test the driver evaluates on the factors Eigen returned implies it *)
Theorem C04_reduce_valid_checkable : forall M r c f, lu_valid_b M r c f = true -> lu_valid M r c f.
Proof. exact lu_valid_b_sound. Qed.
Print Assumptions C04_reduce_valid_checkable.

(* x1 + x2 = 1, 2 x1 + 2 x2 = 2, x1 = 0 with the factorisation Eigen returns for [A|b]^T (rank 2): rows 2 and 3 are kept *)
Definition Ared : mat := [[1; 1]; [2; 2]; [1; 0]].
Definition bred : vec := [1; 2; 0].
Definition fred : lufact :=
  mkLU [0; 1; 2]%nat [1; 2; 0]%nat [[1; 0; 0]; [1; 1; 0]; [1; 1; 1]] [[2; 1; 1]; [0; -1; 0]; [0; 0; 0]] 2.

Example C04_nonvacuous_reduce_valid : lu_valid (stack Ared bred) (length Ared) 3 fred.
Proof. apply C04_reduce_valid_checkable. vm_compute. reflexivity. Qed.

Example C04_nonvacuous_reduce_rows : length (reduced_A Ared bred 2 fred) = 2%nat /\ sat_b (reduced_A Ared bred 2 fred) (reduced_b Ared bred 2 fred) [0; 1] = true.
Proof. split; vm_compute; reflexivity. Qed.

Example C04_nonvacuous_reduce_solution : sat Ared bred [0; 1] /\ sat (reduced_A Ared bred 2 fred) (reduced_b Ared bred 2 fred) [0; 1].
Proof.
  assert (sat Ared bred [0; 1]) as H by (repeat constructor).
  split; [exact H|].
  apply (C04_reduce_same_solutions Ared bred 2 fred); try reflexivity; try exact H.
  - repeat constructor.
  - exact C04_nonvacuous_reduce_valid.
Qed.

(* an inconsistent right-hand side (2 x1 + 2 x2 = 3) is a rank-3 system: nothing is dropped, nothing becomes feasible *)
Example C04_nonvacuous_reduce_inconsistent : forall x, length x = 2%nat -> ~ sat Ared [1; 3; 0] x.
Proof.
  intros [|x1 [|x2 [|? ?]]] Hl H; try discriminate.
  inversion H as [|? ? ? ? H1 H']; subst. inversion H' as [|? ? ? ? H2 H'']; subst. simpl in H1, H2. lra.
Qed.

(* ==== the step-length kernel keeps the multipliers strictly positive =================================================== *)
(* u > 0, DBL_MAX > 0, 0 < s0 < 1 (solver::s0, default 0.999), 0 < beta <= 1, any number of shrinks in the two stages: the
   new multipliers u + s du are strictly positive -- the invariant u >= 0 that the gap theorems assume of the returned state *)
Theorem C04_step_keeps_positive : forall big s0 beta u du k1 k2,
  0 < big -> Forall (fun t => 0 < t) u -> length du = length u ->
  0 < s0 -> s0 < 1 -> 0 < beta -> beta <= 1 ->
  Forall (fun t => 0 < t) (step_point u du (step_len big s0 beta u du k1 k2)).
Proof. exact step_keeps_positive. Qed.
Print Assumptions C04_step_keeps_positive.

Theorem C04_step_bounds : forall big s0 beta u du k1 k2,
  0 < big -> Forall (fun t => 0 < t) u -> 0 < s0 -> 0 < beta -> beta <= 1 ->
  0 < step_len big s0 beta u du k1 k2 /\ step_len big s0 beta u du k1 k2 <= s0 * make_smax big u du /\ make_smax big u du <= 1.
Proof.
  intros big s0 beta u du k1 k2 Hb Hu Hs0 Hbe Hbe1.
  destruct (step_len_spec big s0 beta u du k1 k2 Hb (Forall_nth_pos u Hu) Hs0 Hbe Hbe1) as [H1 H2].
  destruct (make_smax_spec big u du Hb (Forall_nth_pos u Hu)) as [_ [H3 _]].
  repeat split; assumption.
Qed.
Print Assumptions C04_step_bounds.

(* solver::s0 = 1 is inside the registered range (0 < s0 <= 1): then only u + s du >= 0 holds ... *)
Theorem C04_step_keeps_nonneg : forall big s0 beta u du k1 k2,
  0 < big -> Forall (fun t => 0 < t) u -> length du = length u ->
  0 < s0 -> s0 <= 1 -> 0 < beta -> beta <= 1 ->
  forall i, (i < length u)%nat -> 0 <= nth i u 0 + step_len big s0 beta u du k1 k2 * nth i du 0.
Proof. exact step_keeps_nonneg. Qed.
Print Assumptions C04_step_keeps_nonneg.

(* ... and strict positivity is false of the faithful model: u = 1, du = -1, s0 = 1 steps onto the boundary *)
Theorem C04_step_strict_with_s0_one_refuted :
  exists u du, Forall (fun t => 0 < t) u /\ length du = length u /\
               step_point u du (step_len 2 1 (9 # 10) u du 0 0) = [0 # 1].
Proof. exact step_boundary_witness. Qed.
Print Assumptions C04_step_strict_with_s0_one_refuted.

Example C04_nonvacuous_step :
  all_pos_b (step_point [1; 2] [-(4); 1] (step_len 1000 (999 # 1000) (9 # 10) [1; 2] [-(4); 1] 1 2)) = true
  /\ step_len 1000 (999 # 1000) (9 # 10) [1; 2] [-(4); 1] 0 0 == (999 # 4000).
Proof. split; vm_compute; reflexivity. Qed.
