(* C07 (INIT extension) -- proofs about the step-length initialisers (C07_Init_Defs): closed forms, the range of t0 for
   every memory / history, what lsearchk_t::get's clamp does to ANY t0, the composition lsearch_t::get. *)
From Coq Require Import List ZArith Bool Floats Lia.
From LNGen Require Import Src_c07_flt.
From LN Require Import C07_Defs C07_Proofs C07_MT C07_CG C07_Budget C07_Sign C07_Init_Defs.
Import ListNotations.
Local Open Scope float_scope.

(* ================= closed forms: the translated kernels are the textbook expressions (reflexivity breaks if the
   source expressions change) ================= *)
Definition lin_formula (prm0 : params0) (last prevdg dg : float) : float :=
  fmin 1 ((- l0_lin_alpha prm0 * fmax (- last * prevdg) (l0_lin_beta prm0 * l0_epsilon prm0)) / dg).

Definition quad_formula (prm0 : params0) (prevf prevdg fx : float) : float :=
  fmin 1 ((- l0_quad_alpha prm0 * 2 * fmax (prevf - fx) (l0_quad_beta prm0 * l0_epsilon prm0)) / prevdg).

Definition cg_first_formula (prm0 : params0) (v : view0) : float :=
  if 0 <? v_xinf v then l0_cg_phi0 prm0 * v_xinf v / v_ginf v
  else if 0 <? abs (v_fx v) then l0_cg_phi0 prm0 * abs (v_fx v) / v_gsq v
  else 1.

(* the quadratic through (0, fx) with slope dg and (s, ft): its minimiser, and the test "strongly convex" *)
Definition cg_interp (fx dg s ft : float) : float := 0 - half * dg * (0 - s) / (dg - (fx - ft) / (0 - s)).
Definition cg_convex (fx dg s ft : float) : bool := 0 <? (0 - s) * dg - (fx - ft).

Lemma init_constant_spec : forall prm0 tr m v last,
  lsearch0_get prm0 tr L0Constant m v last = mkIR (l0_const_t0 prm0) m 0%Z None.
Proof. reflexivity. Qed.

Lemma init_linear_spec : forall prm0 tr m v last,
  lsearch0_get prm0 tr L0Linear m v last =
  mkIR (if last <? 0 then 1 else lin_formula prm0 last (m_prevdg m) (v_dg v)) (mkM0 (m_prevf m) (v_dg v)) 0%Z None.
Proof. reflexivity. Qed.

Lemma init_quadratic_spec : forall prm0 tr m v last,
  lsearch0_get prm0 tr L0Quadratic m v last =
  mkIR (if last <? 0 then 1 else quad_formula prm0 (m_prevf m) (m_prevdg m) (v_fx v)) (mkM0 (v_fx v) (v_dg v)) 0%Z None.
Proof. reflexivity. Qed.

Lemma init_cgdescent_spec : forall prm0 tr m v last,
  lsearch0_get prm0 tr L0CGDescent m v last =
  if last <? 0 then mkIR (cg_first_formula prm0 v) m 0%Z None
  else
    let s := last * l0_cg_phi1 prm0 in
    let ft := tr s in
    mkIR (if (ft <? v_fx v) && cg_convex (v_fx v) (v_dg v) s ft then cg_interp (v_fx v) (v_dg v) s ft
          else last * l0_cg_phi2 prm0) m 1%Z (Some s).
Proof. reflexivity. Qed.

Lemma trial_coord_spec : forall x last phi1 d, cg0_trial_coord x last phi1 d = x + last * phi1 * d.
Proof. reflexivity. Qed.

Lemma mem_init_spec :
  mem_init L0Linear = mkM0 0 1 /\ mem_init L0Quadratic = mkM0 0 1 /\ lm_last (lsmem_init L0Quadratic) = -1.
Proof. repeat split; reflexivity. Qed.

(* the registered parameter domains (translated): every lsearch0 parameter lives in an open interval with these ends *)
Lemma domains_spec :
  (src_l0dom_eps_lo_f = 0 /\ src_l0dom_eps_hi_f = 1) /\
  (src_l0dom_const_t0_lo_f = 0 /\ src_l0dom_const_t0_hi_f = 1000000) /\
  (src_l0dom_lin_beta_lo_f = 1 /\ src_l0dom_lin_alpha_lo_f = 1 /\ src_l0dom_quad_beta_lo_f = 1 /\ src_l0dom_quad_alpha_lo_f = 1) /\
  (src_l0dom_lin_beta_hi_f = 1000000 /\ src_l0dom_lin_alpha_hi_f = 1000000 /\ src_l0dom_quad_beta_hi_f = 1000000 /\
   src_l0dom_quad_alpha_hi_f = 1000000) /\
  (src_l0dom_cg_phi0_lo_f = 0 /\ src_l0dom_cg_phi0_hi_f = 1 /\ src_l0dom_cg_phi1_lo_f = 0 /\ src_l0dom_cg_phi1_hi_f = 1 /\
   src_l0dom_cg_phi2_lo_f = 1 /\ src_l0dom_cg_phi2_hi_f = 1000000).
Proof. repeat split; reflexivity. Qed.

(* number of objective evaluations of one lsearch0_t::get: none, except one for lsearch0-cgdescent after its first call *)
Lemma init_evals : forall prm0 tr k m v last,
  ir_evals (lsearch0_get prm0 tr k m v last) =
  match k with L0CGDescent => if last <? 0 then 0%Z else 1%Z | _ => 0%Z end.
Proof.
  intros prm0 tr k m v last. destruct k; try reflexivity.
  rewrite init_cgdescent_spec. destruct (last <? 0); reflexivity.
Qed.

Lemma init_evals_le1 : forall prm0 tr k m v last, (0 <= ir_evals (lsearch0_get prm0 tr k m v last) <= 1)%Z.
Proof. intros. rewrite init_evals. destruct k; try lia. destruct (last <? 0); lia. Qed.

(* the trial evaluation is requested at last * phi1 exactly when an evaluation is made *)
Lemma init_trial : forall prm0 tr k m v last,
  ir_trial (lsearch0_get prm0 tr k m v last) =
  match k with L0CGDescent => if last <? 0 then None else Some (last * l0_cg_phi1 prm0) | _ => None end.
Proof.
  intros prm0 tr k m v last. destruct k; try reflexivity.
  rewrite init_cgdescent_spec. destruct (last <? 0); reflexivity.
Qed.

(* only linear / quadratic have memory, and they store the CURRENT (fx, dg) after t0 was computed *)
Lemma init_mem : forall prm0 tr k m v last,
  ir_mem (lsearch0_get prm0 tr k m v last) =
  match k with
  | L0Linear => mkM0 (m_prevf m) (v_dg v)
  | L0Quadratic => mkM0 (v_fx v) (v_dg v)
  | _ => m
  end.
Proof.
  intros prm0 tr k m v last. destruct k; try reflexivity.
  rewrite init_cgdescent_spec. destruct (last <? 0); reflexivity.
Qed.

(* ================= ranges ================= *)
Definition nonneg_or_nan (x : float) : Prop := cls x = CPos \/ cls x = CZero \/ cls x = CNaN.
Definition nonpos_or_nan (x : float) : Prop := cls x = CNeg \/ cls x = CZero \/ cls x = CNaN.
Definition pos_or_nan (x : float) : Prop := cls x = CPos \/ cls x = CNaN.

Lemma pos_of_ltb : forall x, (0 <? x) = true -> cls x = CPos.
Proof. intros x H. rewrite ltb_0_l in H. destruct (cls x); try discriminate; reflexivity. Qed.

Lemma neg_of_ltb : forall x, (x <? 0) = true -> cls x = CNeg.
Proof. intros x H. rewrite ltb_0_r in H. destruct (cls x); try discriminate; reflexivity. Qed.

Lemma mul_nonpos_pos : forall a m, nonpos_or_nan a -> pos_or_nan m -> nonpos_or_nan (a * m).
Proof.
  intros a m Ha Hm. pose proof (cls_mul a m) as P. unfold nonpos_or_nan, pos_or_nan in *.
  destruct Ha as [Ha|[Ha|Ha]], Hm as [Hm|Hm]; rewrite Ha, Hm in P; destruct (cls (a * m)); cbn in P; try discriminate; auto.
Qed.

Lemma mul_nonneg_pos : forall a m, nonneg_or_nan a -> pos_or_nan m -> nonneg_or_nan (a * m).
Proof.
  intros a m Ha Hm. pose proof (cls_mul a m) as P. unfold nonneg_or_nan, pos_or_nan in *.
  destruct Ha as [Ha|[Ha|Ha]], Hm as [Hm|Hm]; rewrite Ha, Hm in P; destruct (cls (a * m)); cbn in P; try discriminate; auto.
Qed.

Lemma div_nonpos_neg : forall n d, nonpos_or_nan n -> cls d = CNeg -> nonneg_or_nan (n / d).
Proof.
  intros n d Hn Hd. pose proof (cls_div n d) as P. unfold nonpos_or_nan, nonneg_or_nan in *.
  destruct Hn as [Hn|[Hn|Hn]]; rewrite Hn, Hd in P; destruct (cls (n / d)); cbn in P; try discriminate; auto.
Qed.

Lemma div_nonneg_pos : forall n d, nonneg_or_nan n -> pos_or_nan d -> nonneg_or_nan (n / d).
Proof.
  intros n d Hn Hd. pose proof (cls_div n d) as P. unfold pos_or_nan, nonneg_or_nan in *.
  destruct Hn as [Hn|[Hn|Hn]], Hd as [Hd|Hd]; rewrite Hn, Hd in P; destruct (cls (n / d)); cbn in P; try discriminate; auto.
Qed.

(* std::max(a, b) with b > 0: positive or NaN (NaN exactly when a is NaN: `a < b` is false and a is returned) *)
Lemma fmax_pos : forall a b, cls b = CPos -> pos_or_nan (fmax a b).
Proof.
  intros a b Hb. unfold fmax, pos_or_nan. destruct (a <? b) eqn:E; [left; exact Hb|].
  apply ltb_false_cls in E. rewrite Hb in E. destruct (cls a); cbn in E; try discriminate; auto.
Qed.

(* std::min(1, v) with v >= 0 or NaN lies in [0, 1] (a NaN v gives 1: `v < 1` is false) *)
Lemma fmin1_range : forall v, nonneg_or_nan v -> (0 <=? fmin 1 v) = true /\ (fmin 1 v <=? 1) = true.
Proof.
  intros v Hv. unfold fmin. destruct (v <? 1) eqn:E.
  - split; [|apply leb_of_ltb; exact E].
    rewrite leb_0_l. apply ltb_true_cls in E. destruct Hv as [Hv|[Hv|Hv]]; rewrite Hv in *; try reflexivity; discriminate.
  - split; reflexivity.
Qed.

(* without the hypotheses: std::min(1, v) <= 1 always holds or the result is v itself, never NaN *)
Lemma fmin1_le1 : forall v, (fmin 1 v <=? 1) = true.
Proof. intros v. unfold fmin. destruct (v <? 1) eqn:E; [apply leb_of_ltb; exact E|reflexivity]. Qed.

Section Ranges.
  Variable prm0 : params0.

  (* linear: alpha > 0, beta * epsilon > 0 (as computed), descent direction: whatever the memory and last_step_size,
     0 <= t0 <= 1 (in particular finite, not NaN) *)
  Lemma linear_range : forall tr m v last,
    (0 <? l0_lin_alpha prm0) = true -> (0 <? l0_lin_beta prm0 * l0_epsilon prm0) = true ->
    (v_dg v <? 0) = true ->
    let t0 := ir_t0 (lsearch0_get prm0 tr L0Linear m v last) in
    (0 <=? t0) = true /\ (t0 <=? 1) = true.
  Proof.
    intros tr m v last Ha Hb Hd. rewrite init_linear_spec. cbn [ir_t0].
    destruct (last <? 0); [split; reflexivity|].
    apply fmin1_range. apply div_nonpos_neg; [|apply neg_of_ltb; exact Hd].
    apply mul_nonpos_pos.
    - left. rewrite cls_opp, (pos_of_ltb _ Ha). reflexivity.
    - apply fmax_pos. apply pos_of_ltb. exact Hb.
  Qed.

  (* quadratic: the denominator is the PREVIOUS call's dg: first call, or m_prevdg < 0 *)
  Lemma quadratic_range : forall tr m v last,
    (0 <? l0_quad_alpha prm0) = true -> (0 <? l0_quad_beta prm0 * l0_epsilon prm0) = true ->
    (last <? 0) = true \/ (m_prevdg m <? 0) = true ->
    let t0 := ir_t0 (lsearch0_get prm0 tr L0Quadratic m v last) in
    (0 <=? t0) = true /\ (t0 <=? 1) = true.
  Proof.
    intros tr m v last Ha Hb Hd. rewrite init_quadratic_spec. cbn [ir_t0].
    destruct (last <? 0) eqn:F; [split; reflexivity|].
    destruct Hd as [Hd|Hd]; [discriminate|].
    apply fmin1_range. apply div_nonpos_neg; [|apply neg_of_ltb; exact Hd].
    apply mul_nonpos_pos; [|apply fmax_pos; apply pos_of_ltb; exact Hb].
    apply mul_nonpos_pos; [|left; exact cls_two].
    left. rewrite cls_opp, (pos_of_ltb _ Ha). reflexivity.
  Qed.

  (* t0 <= 1 needs no hypothesis at all (linear / quadratic): NaN never comes out of std::min(1.0, .) *)
  Lemma linear_quadratic_le1 : forall tr k m v last,
    k = L0Linear \/ k = L0Quadratic -> (ir_t0 (lsearch0_get prm0 tr k m v last) <=? 1) = true.
  Proof.
    intros tr k m v last [K|K]; subst k.
    - rewrite init_linear_spec. cbn [ir_t0]. destruct (last <? 0); [reflexivity|apply fmin1_le1].
    - rewrite init_quadratic_spec. cbn [ir_t0]. destruct (last <? 0); [reflexivity|apply fmin1_le1].
  Qed.

  (* cgdescent, first call: phi0 > 0 and positive (or NaN) denominators give t0 >= 0 or NaN -- +inf and 0 are possible *)
  Lemma cg_first_nonneg : forall tr m v last,
    (last <? 0) = true -> (0 <? l0_cg_phi0 prm0) = true -> (0 <? v_ginf v) = true -> (0 <? v_gsq v) = true ->
    nonneg_or_nan (ir_t0 (lsearch0_get prm0 tr L0CGDescent m v last)).
  Proof.
    intros tr m v last F Hp Hg Hq. rewrite init_cgdescent_spec, F. cbn [ir_t0]. unfold cg_first_formula.
    destruct (0 <? v_xinf v) eqn:X.
    - apply div_nonneg_pos; [|left; apply pos_of_ltb; exact Hg].
      apply mul_nonneg_pos; [left; apply pos_of_ltb; exact Hp|left; apply pos_of_ltb; exact X].
    - destruct (0 <? abs (v_fx v)) eqn:A.
      + apply div_nonneg_pos; [|left; apply pos_of_ltb; exact Hq].
        apply mul_nonneg_pos; [left; apply pos_of_ltb; exact Hp|left; apply pos_of_ltb; exact A].
      + left. exact cls_one.
  Qed.

  (* cgdescent, later calls, the interpolation is not accepted: t0 = last * phi2 >= 0 or NaN for last >= 0 *)
  Lemma cg_later_cases : forall tr m v last,
    (last <? 0) = false ->
    let r := lsearch0_get prm0 tr L0CGDescent m v last in
    let s := last * l0_cg_phi1 prm0 in
    ir_evals r = 1%Z /\ ir_trial r = Some s /\ ir_mem r = m /\
    (((tr s <? v_fx v) = true /\ cg_convex (v_fx v) (v_dg v) s (tr s) = true /\ ir_t0 r = cg_interp (v_fx v) (v_dg v) s (tr s)) \/
     (((tr s <? v_fx v) = false \/ cg_convex (v_fx v) (v_dg v) s (tr s) = false) /\ ir_t0 r = last * l0_cg_phi2 prm0)).
  Proof.
    intros tr m v last F. cbv zeta. rewrite init_cgdescent_spec, F. cbv zeta. cbn [ir_evals ir_trial ir_mem ir_t0].
    repeat split.
    destruct (tr (last * l0_cg_phi1 prm0) <? v_fx v) eqn:A; cbn [andb].
    - destruct (cg_convex (v_fx v) (v_dg v) (last * l0_cg_phi1 prm0) (tr (last * l0_cg_phi1 prm0))) eqn:C.
      + left. repeat split.
      + right. split; [right; reflexivity|reflexivity].
    - right. split; [left; reflexivity|reflexivity].
  Qed.

  Lemma cg_first_cases : forall tr m v last,
    (last <? 0) = true ->
    let r := lsearch0_get prm0 tr L0CGDescent m v last in
    ir_evals r = 0%Z /\ ir_trial r = None /\ ir_mem r = m /\
    (((0 <? v_xinf v) = true /\ ir_t0 r = l0_cg_phi0 prm0 * v_xinf v / v_ginf v) \/
     ((0 <? v_xinf v) = false /\ (0 <? abs (v_fx v)) = true /\ ir_t0 r = l0_cg_phi0 prm0 * abs (v_fx v) / v_gsq v) \/
     ((0 <? v_xinf v) = false /\ (0 <? abs (v_fx v)) = false /\ ir_t0 r = 1)).
  Proof.
    intros tr m v last F. cbv zeta. rewrite init_cgdescent_spec, F. cbn [ir_evals ir_trial ir_mem ir_t0].
    repeat split. unfold cg_first_formula.
    destruct (0 <? v_xinf v); [left; split; reflexivity|].
    destruct (0 <? abs (v_fx v)); [right; left; repeat split|right; right; repeat split].
  Qed.
End Ranges.

(* ================= what lsearchk_t::get starts from: std::isfinite(t0) ? std::clamp(t0, stpmin, 1) : 1 ================= *)
Lemma leb_true_cls_pos : forall x y, (x <=? y) = true -> cls x = CPos -> cls y = CPos.
Proof.
  intros x y H Hx. rewrite leb_spec in H. unfold cls, SFleb in *.
  destruct (Prim2SF x) as [sx|sx| |sx mx ex], (Prim2SF y) as [sy|sy| |sy my ey]; cbn in *;
    try destruct sx; try destruct sy; cbn in *; try reflexivity; try discriminate.
Qed.

Lemma finite_of_pos_le1 : forall x, cls x = CPos -> (x <=? 1) = true -> is_finite x = true.
Proof.
  intros x P H. rewrite is_finite_SF. rewrite leb_spec in H. unfold SFleb, cls in *.
  change (Prim2SF 1) with (S754_finite false 4503599627370496 (-52)) in H.
  destruct (Prim2SF x) as [s|s| |s m e]; try reflexivity; cbn in *; try discriminate.
  destruct s; cbn in *; discriminate.
Qed.

Lemma stpmin_facts : (1 <? stpmin) = false /\ (stpmin <=? stpmin) = true /\ (stpmin <=? 1) = true /\ cls stpmin = CPos /\
  Prim2SF stpmin <> S754_nan /\ Prim2SF 1 <> S754_nan.
Proof. repeat split; try reflexivity; vm_compute; discriminate. Qed.

(* for EVERY t0 (NaN, +-inf, 0, negative, huge): the step the line search starts from lies in [stpmin, 1] *)
Lemma init_step_range : forall t0,
  (stpmin <=? init_step t0) = true /\ (init_step t0 <=? 1) = true.
Proof.
  intros t0. rewrite init_step_spec.
  destruct stpmin_facts as [S1 [S2 [S3 [_ [N1 N2]]]]].
  destruct (is_finite t0) eqn:F; [|split; [exact S3|reflexivity]].
  assert (Nt : Prim2SF t0 <> S754_nan).
  { rewrite is_finite_SF in F. intros E. rewrite E in F. discriminate. }
  unfold fclamp, fmax, fmin.
  destruct (t0 <? stpmin) eqn:A.
  - rewrite S1. split; assumption.
  - pose proof (leb_of_ltb_false _ _ A Nt N1) as L.
    destruct (1 <? t0) eqn:B.
    + split; [exact S3|reflexivity].
    + split; [exact L|]. apply leb_of_ltb_false; assumption.
Qed.

Lemma init_step_pos_finite : forall t0, (0 <? init_step t0) = true /\ is_finite (init_step t0) = true.
Proof.
  intros t0. destruct (init_step_range t0) as [L U].
  destruct stpmin_facts as [_ [_ [_ [P _]]]].
  pose proof (leb_true_cls_pos _ _ L P) as C.
  split; [rewrite ltb_0_l, C; reflexivity|apply finite_of_pos_le1; assumption].
Qed.

(* the first trial point of lsearchk_t::get is requested at init_step t0 *)
Lemma shrink_first_probe : forall phi fuel s t,
  (0 < fuel)%nat -> exists pre, trace (fst (shrink phi fuel s t)) = pre ++ t :: trace s.
Proof.
  intros phi fuel. induction fuel as [|k IH]; intros s t F; [lia|].
  cbn [shrink]. destruct (pv (cur (update phi s t))) eqn:V; cbn [fst].
  - exists []. reflexivity.
  - destruct k as [|k'].
    + cbn [shrink fst]. exists []. reflexivity.
    + destruct (IH (update phi s t) (t * k03) ltac:(lia)) as [pre E]. rewrite E.
      exists (pre ++ [t * k03]). rewrite <- app_assoc. reflexivity.
Qed.

(* ================= lsearch_t::get = lsearch0->get, then lsearchk->get at the computed t0 ================= *)
Lemma lsearch_get_spec : forall k prm0 prm a it st,
  let ir := lsearch0_get prm0 (it_trial it) k (lm_mem st) (it_view it) (lm_last st) in
  let r := ls_get (it_phi it) prm (v_p (it_view it)) a (ir_t0 ir) in
  lsearch_get k prm0 prm a it st = (mkIO ir r, mkLM (ir_mem ir) (rt r)).
Proof. reflexivity. Qed.

Section Composed.
  Variable k : kind0.
  Variable prm0 : params0.
  Variable prm : params.
  Variable a : alg.

  Lemma composed_success : forall it st,
    (0 < maxit prm)%Z ->
    let o := fst (lsearch_get k prm0 prm a it st) in
    let st' := snd (lsearch_get k prm0 prm a it st) in
    let r := io_res o in
    let p0 := v_p (it_view it) in
    ok r = true ->
    pv (cur (rs r)) = true /\
    (exists rest, trace (rs r) = rt r :: rest /\ cur (rs r) = it_phi it (Z.of_nat (length rest)) (rt r)) /\
    match a with
    | Backtrack => (pf (cur (rs r)) <=? pf p0 + rt r * c1 prm * pg p0) = true
    | Lemarechal => (pf (cur (rs r)) <=? pf p0 + rt r * c1 prm * pg p0) = true /\ (c2 prm * pg p0 <=? pg (cur (rs r))) = true
    | Fletcher => (pf (cur (rs r)) <=? pf p0 + rt r * c1 prm * pg p0) = true /\
                  (abs (pg (cur (rs r))) <=? c2 prm * abs (pg p0)) = true
    | MoreThuente => exists m, rx r = XMT m
    | CGDescent => exists iv b, rx r = XCG iv b
    end /\
    lm_last st' = rt r /\ (pg p0 <? 0) = true.
  Proof.
    intros it st M. rewrite lsearch_get_spec. cbn [fst snd io_res lm_last]. cbv zeta.
    set (t0 := ir_t0 _). set (p0 := v_p (it_view it)). set (phi := it_phi it). intros H.
    pose proof (ls_get_valid phi prm p0 a t0 H) as V.
    destruct (ls_get_ok phi prm p0 a t0 M H) as [[[Hc Hw] [Hn Hs]] Adv].
    split; [exact V|]. split.
    - destruct (Hs V) as [rest E]. exists rest. split; [exact E|]. rewrite E in Hw. exact Hw.
    - split; [|split; [reflexivity|]].
      + destruct a; cbn in Adv; try exact Adv.
        * destruct (ls_get_mt_cases phi prm p0 t0 H) as [m [E _]]. exists m. exact E.
        * destruct (ls_get_cg_cases phi prm p0 t0 H) as [_ [iv [b [E _]]]]. exists iv, b. exact E.
      + destruct (pg p0 <? 0) eqn:D; [reflexivity|].
        rewrite (ls_get_refuses phi prm p0 a t0 D) in H. discriminate.
  Qed.

  (* a refused direction: nothing evaluated by lsearchk, the step handed to the next lsearch0 call is t0 itself *)
  Lemma composed_refusal : forall it st,
    (pg (v_p (it_view it)) <? 0) = false ->
    let o := fst (lsearch_get k prm0 prm a it st) in
    let st' := snd (lsearch_get k prm0 prm a it st) in
    ok (io_res o) = false /\ cnt (rs (io_res o)) = 0%Z /\ lm_last st' = ir_t0 (io_init o).
  Proof.
    intros it st D. rewrite lsearch_get_spec. cbn [fst snd io_res io_init lm_last]. cbv zeta.
    rewrite (ls_get_refuses _ prm _ a _ D). repeat split.
  Qed.

  (* evaluations of one outer iteration: the trial of lsearch0 (at most one) + the probes of lsearchk *)
  Lemma composed_evals : forall it st,
    (0 < maxit prm)%Z ->
    (0 <= iter_evals (fst (lsearch_get k prm0 prm a it st)) <= 1 + ls_bound a (maxit prm))%Z.
  Proof.
    intros it st M. rewrite lsearch_get_spec. cbn [fst]. cbv zeta. unfold iter_evals. cbn [io_init io_res].
    pose proof (init_evals_le1 prm0 (it_trial it) k (lm_mem st) (it_view it) (lm_last st)) as E.
    pose proof (ls_get_cnt (it_phi it) prm (v_p (it_view it)) a
                  (ir_t0 (lsearch0_get prm0 (it_trial it) k (lm_mem st) (it_view it) (lm_last st))) M) as C.
    lia.
  Qed.

  (* a descent direction and max_iterations >= 1: at least one probe, the first one at clamp(t0) in [stpmin, 1] *)
  Lemma composed_first_probe : forall it st,
    (0 < maxit prm)%Z -> (pg (v_p (it_view it)) <? 0) = true ->
    let o := fst (lsearch_get k prm0 prm a it st) in
    let start := init_step (ir_t0 (io_init o)) in
    (stpmin <=? start) = true /\ (start <=? 1) = true /\
    exists s1 t1, shrink (it_phi it) (fuel_of (maxit prm)) (init_state (v_p (it_view it))) start = (s1, t1) /\
                  exists pre, trace s1 = pre ++ [start].
  Proof.
    intros it st M D. rewrite lsearch_get_spec. cbn [fst io_init]. cbv zeta.
    set (t0 := ir_t0 _). destruct (init_step_range t0) as [L U]. split; [exact L|]. split; [exact U|].
    destruct (shrink (it_phi it) (fuel_of (maxit prm)) (init_state (v_p (it_view it))) (init_step t0)) as [s1 t1] eqn:E.
    exists s1, t1. split; [reflexivity|].
    assert (F : (0 < fuel_of (maxit prm))%nat) by (unfold fuel_of; lia).
    destruct (shrink_first_probe (it_phi it) _ (init_state (v_p (it_view it))) (init_step t0) F) as [pre P].
    rewrite E in P. exists pre. exact P.
  Qed.
End Composed.

(* ================= whole runs: every history of calls ================= *)
Lemma lsearch_run_app : forall k prm0 prm a its1 its2 st,
  lsearch_run k prm0 prm a (its1 ++ its2) st =
  let '(os1, st1) := lsearch_run k prm0 prm a its1 st in
  let '(os2, st2) := lsearch_run k prm0 prm a its2 st1 in
  (os1 ++ os2, st2).
Proof.
  intros k prm0 prm a its1. induction its1 as [|it rest IH]; intros its2 st.
  - cbn [app lsearch_run]. destruct (lsearch_run k prm0 prm a its2 st). reflexivity.
  - cbn [app lsearch_run]. destruct (lsearch_get k prm0 prm a it st) as [o st1].
    rewrite IH. destruct (lsearch_run k prm0 prm a rest st1) as [os1 st2].
    destruct (lsearch_run k prm0 prm a its2 st2) as [os2 st3]. reflexivity.
Qed.

(* an invariant-style induction principle for runs: P holds of the state before every call, Q of every output *)
Lemma lsearch_run_inv : forall k prm0 prm a (P : lsmem -> Prop) (Q : iter_out -> Prop) (G : iter_in -> Prop),
  (forall it st, G it -> P st -> Q (fst (lsearch_get k prm0 prm a it st)) /\ P (snd (lsearch_get k prm0 prm a it st))) ->
  forall its st, Forall G its -> P st ->
  Forall Q (fst (lsearch_run k prm0 prm a its st)) /\ P (snd (lsearch_run k prm0 prm a its st)).
Proof.
  intros k prm0 prm a P Q G Step its. induction its as [|it rest IH]; intros st HG HP.
  - cbn. split; [constructor|exact HP].
  - inversion HG as [|? ? G1 G2]; subst. cbn [lsearch_run].
    destruct (Step it st G1 HP) as [Q1 P1].
    destruct (lsearch_get k prm0 prm a it st) as [o st1]. cbn [fst snd] in *.
    destruct (IH st1 G2 P1) as [Q2 P2].
    destruct (lsearch_run k prm0 prm a rest st1) as [os st2]. cbn [fst snd] in *.
    split; [constructor; assumption|exact P2].
Qed.

Section Runs.
  Variable prm0 : params0.
  Variable prm : params.
  Variable a : alg.

  Definition descent_it (it : iter_in) : Prop := (v_dg (it_view it) <? 0) = true.
  Definition t0_in_01 (o : iter_out) : Prop :=
    (0 <=? ir_t0 (io_init o)) = true /\ (ir_t0 (io_init o) <=? 1) = true.

  (* constant: every t0 of every run is the parameter; no evaluation; independent of the history *)
  Lemma run_constant : forall its st,
    Forall (fun o => ir_t0 (io_init o) = l0_const_t0 prm0 /\ ir_evals (io_init o) = 0%Z)
           (fst (lsearch_run L0Constant prm0 prm a its st)).
  Proof.
    intros its st.
    apply (lsearch_run_inv L0Constant prm0 prm a (fun _ => True) _ (fun _ => True)); [|apply Forall_forall; trivial|trivial].
    intros it st0 _ _. rewrite lsearch_get_spec. cbn [fst snd io_init]. cbv zeta. rewrite init_constant_spec. repeat split.
  Qed.

  (* linear: along descent directions every t0 of every run lies in [0, 1], whatever the probe / trial oracles answer *)
  Lemma run_linear_range : forall its st,
    (0 <? l0_lin_alpha prm0) = true -> (0 <? l0_lin_beta prm0 * l0_epsilon prm0) = true ->
    Forall descent_it its ->
    Forall t0_in_01 (fst (lsearch_run L0Linear prm0 prm a its st)).
  Proof.
    intros its st Ha Hb HG.
    apply (lsearch_run_inv L0Linear prm0 prm a (fun _ => True) _ descent_it); [|exact HG|trivial].
    intros it st0 G _. rewrite lsearch_get_spec. cbn [fst snd io_init]. cbv zeta. split; [|trivial].
    exact (linear_range prm0 (it_trial it) (lm_mem st0) (it_view it) (lm_last st0) Ha Hb G).
  Qed.

  (* quadratic: the invariant "first call or m_prevdg < 0" is established by lsearch_t's m_last_step_size{-1} and
     maintained by every call along a descent direction *)
  Definition quad_inv (st : lsmem) : Prop := (lm_last st <? 0) = true \/ (m_prevdg (lm_mem st) <? 0) = true.

  Lemma run_quadratic_range_inv : forall its st,
    (0 <? l0_quad_alpha prm0) = true -> (0 <? l0_quad_beta prm0 * l0_epsilon prm0) = true ->
    Forall descent_it its -> quad_inv st ->
    Forall t0_in_01 (fst (lsearch_run L0Quadratic prm0 prm a its st)).
  Proof.
    intros its st Ha Hb HG HI.
    apply (lsearch_run_inv L0Quadratic prm0 prm a quad_inv _ descent_it); [|exact HG|exact HI].
    intros it st0 G I. rewrite lsearch_get_spec. cbn [fst snd io_init]. cbv zeta. split.
    - exact (quadratic_range prm0 (it_trial it) (lm_mem st0) (it_view it) (lm_last st0) Ha Hb I).
    - right. cbn [lm_mem]. rewrite init_mem. cbn [m_prevdg]. exact G.
  Qed.

  Lemma quad_inv_init : quad_inv (lsmem_init L0Quadratic).
  Proof. left. reflexivity. Qed.

  (* the closed form over a history: after ANY run ending with iteration it1, the next t0 of quadratic is computed from
     it1's (fx, dg), the step its line search returned, and the new fx *)
  Lemma run_quadratic_history : forall pre it1 it2 st,
    let '(os, st1) := lsearch_run L0Quadratic prm0 prm a (pre ++ [it1]) st in
    let o2 := fst (lsearch_get L0Quadratic prm0 prm a it2 st1) in
    exists os' o1, os = os' ++ [o1] /\
      ir_t0 (io_init o2) =
      (if rt (io_res o1) <? 0 then 1
       else quad_formula prm0 (v_fx (it_view it1)) (v_dg (it_view it1)) (v_fx (it_view it2))).
  Proof.
    intros pre it1 it2 st. rewrite lsearch_run_app.
    destruct (lsearch_run L0Quadratic prm0 prm a pre st) as [os1 st0].
    cbn [lsearch_run]. rewrite (lsearch_get_spec L0Quadratic prm0 prm a it1 st0). cbv zeta.
    exists os1. eexists. split; [reflexivity|].
    rewrite lsearch_get_spec. cbn [fst io_init io_res lm_mem lm_last]. cbv zeta.
    rewrite init_quadratic_spec. cbn [ir_t0]. rewrite init_mem. reflexivity.
  Qed.

  Lemma run_linear_history : forall pre it1 it2 st,
    let '(os, st1) := lsearch_run L0Linear prm0 prm a (pre ++ [it1]) st in
    let o2 := fst (lsearch_get L0Linear prm0 prm a it2 st1) in
    exists os' o1, os = os' ++ [o1] /\
      ir_t0 (io_init o2) =
      (if rt (io_res o1) <? 0 then 1
       else lin_formula prm0 (rt (io_res o1)) (v_dg (it_view it1)) (v_dg (it_view it2))).
  Proof.
    intros pre it1 it2 st. rewrite lsearch_run_app.
    destruct (lsearch_run L0Linear prm0 prm a pre st) as [os1 st0].
    cbn [lsearch_run]. rewrite (lsearch_get_spec L0Linear prm0 prm a it1 st0). cbv zeta.
    exists os1. eexists. split; [reflexivity|].
    rewrite lsearch_get_spec. cbn [fst io_init io_res lm_mem lm_last]. cbv zeta.
    rewrite init_linear_spec. cbn [ir_t0]. rewrite init_mem. reflexivity.
  Qed.

  (* the budget of a whole run: n outer iterations cost at most n * (1 + ls_bound) evaluations *)
  Fixpoint sum_evals (os : list iter_out) : Z :=
    match os with [] => 0%Z | o :: rest => (iter_evals o + sum_evals rest)%Z end.

  Lemma run_evals : forall k its st,
    (0 < maxit prm)%Z ->
    (0 <= sum_evals (fst (lsearch_run k prm0 prm a its st)) <= Z.of_nat (length its) * (1 + ls_bound a (maxit prm)))%Z.
  Proof.
    intros k its. induction its as [|it rest IH]; intros st M.
    - cbn. lia.
    - cbn [lsearch_run]. pose proof (composed_evals k prm0 prm a it st M) as E.
      destruct (lsearch_get k prm0 prm a it st) as [o st1]. cbn [fst] in E.
      specialize (IH st1 M). destruct (lsearch_run k prm0 prm a rest st1) as [os st2]. cbn [fst] in *.
      cbn [sum_evals length]. rewrite Nat2Z.inj_succ. nia.
  Qed.
End Runs.

(* from the state a fresh lsearch_t starts in (m_last_step_size = -1, the members at their initialisers) *)
Lemma run_range_from_init : forall k prm0 prm a its,
  (k = L0Linear /\ (0 <? l0_lin_alpha prm0) = true /\ (0 <? l0_lin_beta prm0 * l0_epsilon prm0) = true) \/
  (k = L0Quadratic /\ (0 <? l0_quad_alpha prm0) = true /\ (0 <? l0_quad_beta prm0 * l0_epsilon prm0) = true) ->
  Forall descent_it its ->
  Forall t0_in_01 (fst (lsearch_run k prm0 prm a its (lsmem_init k))).
Proof.
  intros k prm0 prm a its [[K [Ha Hb]]|[K [Ha Hb]]] HG; subst k.
  - apply run_linear_range; assumption.
  - apply run_quadratic_range_inv; try assumption. apply quad_inv_init.
Qed.
