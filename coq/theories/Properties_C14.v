(* C14 -- Feature scaling is invertible; the un-scaled linear model is the same predictor.
   Only statements + `exact` + Print Assumptions (+ non-vacuity examples) live here.
   Model: C14_Defs (exact rationals Q; the integer guards of update()/done() and the enable flags are
   translated from src/dataset/stats.cpp on every run; [sd] stands for the value stored in m_stdev,
   [eps] for epsilon2<scalar_t>(), [big] for numeric_limits<scalar_t>::max()).
   The theorems are about exact arithmetic; the floating-point behaviour (rounding, NaN) is what the
   correspondence and the direct search of ./check C14 cover. *)
From Coq Require Import List ZArith QArith Bool.
From LNGen Require Import Src_dstats.
From LN Require Import C14_Defs C14_Proofs.
Import ListNotations.
Local Open Scope Q_scope.

(* 1. scaling followed by up-scaling returns the original value, for the statistics of ANY accumulated
      history (constant, single-sample, all-missing, disabled columns), ANY stored stdev (even a wrong or
      negative one) and each of the four modes: the guarded denominators are never zero *)
Theorem C14_roundtrip : forall eps sd i esize eflag a m x, 0 < eps ->
  let s := done1 eps sd i esize eflag a in upscale1 m s (scale1 m s (Some x)) == x.
Proof. exact roundtrip. Qed.
Print Assumptions C14_roundtrip.

(* ... row-wise, as scalar_stats_t::scale / upscale apply it *)
Theorem C14_roundtrip_row : forall m ss xs, Forall stats_wf ss -> length ss = length xs ->
  Forall2 Qeq (upscale_row m ss (scale_row m ss (map Some xs))) xs.
Proof. exact roundtrip_row. Qed.
Print Assumptions C14_roundtrip_row.

(* 2. every statistics record done() can produce has inverse (de)normalisers and positive multipliers *)
Theorem C14_denominators_guarded : forall eps sd i esize eflag a, 0 < eps ->
  let s := done1 eps sd i esize eflag a in
  s_div_range s * s_mul_range s == 1 /\ s_div_stdev s * s_mul_stdev s == 1 /\
  0 < s_mul_range s /\ 0 < s_mul_stdev s.
Proof. exact done1_wf. Qed.
Print Assumptions C14_denominators_guarded.

(* 3. categorical columns are never rescaled: a disabled column gets the identity record, scale and upscale
      leave every value alone; and the flags computed by make_flatten_stats / make_targets_stats /
      make_feature_stats (translated) disable exactly the sclass / mclass columns *)
Theorem C14_categorical_untouched : forall eps sd i esize eflag a m x y,
  src_c14_disabled i esize eflag = true ->
  let s := done1 eps sd i esize eflag a in
  s = stats_off (a_n a) /\ scale1 m s (Some x) == x /\ upscale1 m s y == y.
Proof. exact disabled_identity. Qed.
Print Assumptions C14_categorical_untouched.

Theorem C14_categorical_flags : forall i esize, (0 <= i < esize)%Z ->
  (forall s m, src_c14_isclass s m = true ->
     src_c14_disabled i esize (src_c14_flatten_flag (src_c14_isclass s m)) = true) /\
  (forall s m, src_c14_isclass s m = false ->
     src_c14_disabled i esize (src_c14_flatten_flag (src_c14_isclass s m)) = false) /\
  (forall s m, src_c14_isclass s m = true <-> s = true \/ m = true) /\
  (forall s m, src_c14_target_isclass s m = true <-> s = true \/ m = true) /\
  src_c14_disabled i esize src_c14_target_flag_class = true /\
  src_c14_disabled i esize src_c14_target_flag_cont = false /\
  src_c14_disabled i esize src_c14_feature_flag = false.
Proof. exact flags_spec. Qed.
Print Assumptions C14_categorical_flags.

(* 4. missing values do not affect the statistics (removing one anywhere, or all of them, gives the same
      record) and are scaled to zero *)
Theorem C14_missing_ignored : forall eps big sd eflag l1 l2 m s,
  col_stats eps big sd eflag (l1 ++ None :: l2) = col_stats eps big sd eflag (l1 ++ l2) /\
  col_stats eps big sd eflag l1 = col_stats eps big sd eflag (map Some (finite l1)) /\
  scale1 m s None = 0.
Proof. exact missing_ignored. Qed.
Print Assumptions C14_missing_ignored.

(* 5. min-max scaling maps the column into [0, 1] ... *)
Theorem C14_minmax_range : forall eps big sd col x, 0 < eps -> bounded big (finite col) -> In x (finite col) ->
  let s := col_stats eps big sd 1 col in 0 <= scale1 MMinMax s (Some x) <= 1.
Proof. exact minmax_range. Qed.
Print Assumptions C14_minmax_range.

(* ... and both ends are attained unless the range is below the epsilon guard *)
Theorem C14_minmax_attained : forall eps big sd col, 0 < eps -> bounded big (finite col) ->
  (length (finite col) > 1)%nat ->
  let s := col_stats eps big sd 1 col in
  eps <= s_max s - s_min s ->
  exists lo hi, In lo (finite col) /\ In hi (finite col) /\
    scale1 MMinMax s (Some lo) == 0 /\ scale1 MMinMax s (Some hi) == 1.
Proof. exact minmax_attained. Qed.
Print Assumptions C14_minmax_attained.

(* 6. mean and standard scaling centre the column: the scaled column (missing -> 0) sums to zero, for every
      column (also constant, single-sample, all-missing) and every stored stdev *)
Theorem C14_mean_zero : forall eps big sd col m, 0 < eps -> m = MMean \/ m = MStandard ->
  let s := col_stats eps big sd 1 col in qsum (map (scale1 m s) col) == 0.
Proof. exact zero_mean. Qed.
Print Assumptions C14_mean_zero.

Theorem C14_mean_range : forall eps big sd col x, 0 < eps -> bounded big (finite col) -> In x (finite col) ->
  let s := col_stats eps big sd 1 col in -1 <= scale1 MMean s (Some x) <= 1.
Proof. exact mean_range. Qed.
Print Assumptions C14_mean_range.

(* 7. the one-pass variance is never negative in exact arithmetic: the clamp std::max(., 0.0) before the
      square root only matters for the floating-point rounding *)
Theorem C14_variance_nonneg : forall big col, (length (finite col) > 1)%nat ->
  0 <= var_of (accumulate (acc0 big) col).
Proof. exact variance_nonneg. Qed.
Print Assumptions C14_variance_nonneg.

(* 8. standard scaling: the (one-pass, sample) variance of the scaled entries times max(stdev, eps)^2 is the
      variance of the column -- for every stored stdev; it is exactly 1 when the stored stdev is the root of
      the variance and not below the guard *)
Theorem C14_standard_variance : forall eps big big' sd col, 0 < eps -> (length (finite col) > 1)%nat ->
  let a := accumulate (acc0 big) col in
  let s := col_stats eps big sd 1 col in
  var_of (accumulate (acc0 big') (map Some (scaled_present MStandard s col))) * (s_mul_stdev s * s_mul_stdev s)
  == var_of a.
Proof. exact scaled_variance. Qed.
Print Assumptions C14_standard_variance.

Theorem C14_standard_unit : forall eps big big' sd col, 0 < eps -> (length (finite col) > 1)%nat ->
  let a := accumulate (acc0 big) col in
  let s := col_stats eps big sd 1 col in
  sd_ok a sd -> eps <= sd ->
  var_of (accumulate (acc0 big') (map Some (scaled_present MStandard s col))) == 1.
Proof. exact unit_variance. Qed.
Print Assumptions C14_standard_unit.

(* 9. nano::upscale(flatten_stats, fm, targets_stats, tm, W, b): the converted affine map applied to the raw
      inputs is the up-scaled output of the original map on the scaled inputs -- any W row, bias, input,
      any flatten statistics, any target statistics with inverse (de)normalisers (all those of clause 2) *)
Theorem C14_affine_conversion : forall fm tm fs t w b x, stats_wf t -> length fs = length w -> length w = length x ->
  dot (up_wrow fm tm fs t w) x + up_bias fm tm fs t w b ==
  upscale1 tm t (dot w (scale_row fm fs (map Some x)) + b).
Proof. exact affine_conversion. Qed.
Print Assumptions C14_affine_conversion.

(* 10. the statistics do not depend on the batch size of make_*_stats (ranges translated from the loop) *)
Theorem C14_batching_irrelevant : forall col a batch, (1 <= batch)%Z ->
  accumulate_batched a col batch = accumulate a col.
Proof. exact batching_irrelevant. Qed.
Print Assumptions C14_batching_irrelevant.

(* ---- non-vacuity: the hypotheses are satisfiable and the objects are the intended ones ----------------- *)
Definition ex_eps : Q := 1 # 100000000.
Definition ex_big : Q := 1000000.
Definition ex_col : list (option Q) := [Some 1; None; Some 3; Some 5].   (* mean 3, variance 4, stdev 2 *)
Definition ex_st : stats := col_stats ex_eps ex_big 2 1 ex_col.

Example C14_nonvacuous_stats :
  0 < ex_eps /\ bounded ex_big (finite ex_col) /\ (length (finite ex_col) > 1)%nat /\
  sd_ok (accumulate (acc0 ex_big) ex_col) 2 /\ ex_eps <= 2 /\ ex_eps <= s_max ex_st - s_min ex_st /\
  s_n ex_st = 3%Z /\ s_min ex_st == 1 /\ s_max ex_st == 5 /\ s_mean ex_st == 3 /\ s_stdev ex_st == 2 /\
  s_div_range ex_st == 1 # 4 /\ s_mul_stdev ex_st == 2 /\ var_of (accumulate (acc0 ex_big) ex_col) == 4 /\
  stats_wf ex_st.
Proof.
  unfold bounded, sd_ok, stats_wf. repeat split; try (repeat constructor); vm_compute; try reflexivity;
    intro H; discriminate H.
Qed.

Example C14_nonvacuous_scaling :
  Forall2 Qeq (map (scale1 MStandard ex_st) ex_col) [-1; 0; 0; 1] /\
  Forall2 Qeq (map (scale1 MMinMax ex_st) ex_col) [0; 0; 1 # 2; 1] /\
  Forall2 Qeq (map (scale1 MMean ex_st) ex_col) [- (1 # 2); 0; 0; 1 # 2] /\
  upscale1 MStandard ex_st (scale1 MStandard ex_st (Some 5)) == 5 /\
  var_of (accumulate (acc0 ex_big) (map Some (scaled_present MStandard ex_st ex_col))) == 1 /\
  (* constant column (range and stdev below the guard), single sample, all missing, categorical *)
  s_mul_range (col_stats ex_eps ex_big 0 1 [Some 7; Some 7; Some 7]) == ex_eps /\
  upscale1 MMinMax (col_stats ex_eps ex_big 0 1 [Some 7; Some 7; Some 7])
           (scale1 MMinMax (col_stats ex_eps ex_big 0 1 [Some 7; Some 7; Some 7]) (Some 9)) == 9 /\
  col_stats ex_eps ex_big 0 1 [None; Some 7] = mkstats 1 7 7 7 0 1 1 1 1 /\
  col_stats ex_eps ex_big 0 1 [None; None] = mkstats 0 0 0 0 0 1 1 1 1 /\
  col_stats ex_eps ex_big 2 0 ex_col = stats_off 3 /\
  src_c14_disabled 2 3 (src_c14_flatten_flag (src_c14_isclass true false)) = true.
Proof.
  vm_compute. repeat split; try reflexivity; repeat (constructor; try reflexivity).
Qed.

(* W = [2; -1], b = 1/2, two input columns (the example column and a constant one), standard scaling on both sides *)
Example C14_nonvacuous_affine :
  let fs := [ex_st; col_stats ex_eps ex_big 0 1 [Some 7; Some 7]] in
  let t := col_stats ex_eps ex_big 2 1 [Some 10; Some 14; Some 12] in
  stats_wf t /\ length fs = length [2; -1] /\
  dot (up_wrow MStandard MStandard fs t [2; -1]) [5; 7] + up_bias MStandard MStandard fs t [2; -1] (1 # 2) == 17 /\
  upscale1 MStandard t (dot [2; -1] (scale_row MStandard fs [Some 5; Some 7]) + (1 # 2)) == 17 /\
  accumulate_batched (acc0 ex_big) ex_col 3 = accumulate (acc0 ex_big) ex_col /\
  batches 4 0 3 4 = [(0, 3); (3, 4)]%Z.
Proof.
  unfold stats_wf. repeat split; vm_compute; try reflexivity; intro H; discriminate H.
Qed.
