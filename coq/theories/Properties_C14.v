(* C14 -- Feature scaling is invertible; the un-scaled linear model is the same predictor.
   Only statements + `exact` + Print Assumptions (+ non-vacuity examples) live here.
   Model: C14_Defs (exact rationals Q; the integer guards of update()/done() and the enable flags are
   translated from src/dataset/stats.cpp on every run; [sd] stands for the value stored in m_stdev,
   [eps] for epsilon2<scalar_t>(), [big] for numeric_limits<scalar_t>::max()).
   The theorems are about exact arithmetic; the floating-point behaviour (rounding, NaN) is what the
   correspondence and the direct search of ./check C14 cover. *)
From Coq Require Import List ZArith QArith Bool.
From LNGen Require Import Src_dstats.
From LN Require Import C14_Defs C14_Proofs.
Import ListNotations.
Local Open Scope Q_scope.

(* 1. scaling followed by up-scaling returns the original value, for the statistics of ANY accumulated
      history (constant, single-sample, all-missing, disabled columns), ANY stored stdev (even a wrong or
      negative one) and each of the four modes: the guarded denominators are never zero *)
Theorem C14_roundtrip : forall eps sd i esize eflag a m x, 0 < eps ->
  let s := done1 eps sd i esize eflag a in upscale1 m s (scale1 m s (Some x)) == x.
Proof. exact roundtrip. Qed.
Print Assumptions C14_roundtrip.

(* ... row-wise, as scalar_stats_t::scale / upscale apply it *)
Theorem C14_roundtrip_row : forall m ss xs, Forall stats_wf ss -> length ss = length xs ->
  Forall2 Qeq (upscale_row m ss (scale_row m ss (map Some xs))) xs.
Proof. exact roundtrip_row. Qed.
Print Assumptions C14_roundtrip_row.

(* 2. every statistics record done() can produce has inverse (de)normalisers and positive multipliers *)
Theorem C14_denominators_guarded : forall eps sd i esize eflag a, 0 < eps ->
  let s := done1 eps sd i esize eflag a in
  s_div_range s * s_mul_range s == 1 /\ s_div_stdev s * s_mul_stdev s == 1 /\
  0 < s_mul_range s /\ 0 < s_mul_stdev s.
Proof. exact done1_wf. Qed.
Print Assumptions C14_denominators_guarded.

(* 3. categorical columns are never rescaled: a disabled column gets the identity record, scale and upscale
      leave every value alone; and the flags computed by make_flatten_stats / make_targets_stats /
      make_feature_stats (translated) disable exactly the sclass / mclass columns *)
Theorem C14_categorical_untouched : forall eps sd i esize eflag a m x y,
  src_c14_disabled i esize eflag = true ->
  let s := done1 eps sd i esize eflag a in
  s = stats_off (a_n a) /\ scale1 m s (Some x) == x /\ upscale1 m s y == y.
Proof. exact disabled_identity. Qed.
Print Assumptions C14_categorical_untouched.

Theorem C14_categorical_flags : forall i esize, (0 <= i < esize)%Z ->
  (forall s m, src_c14_isclass s m = true ->
     src_c14_disabled i esize (src_c14_flatten_flag (src_c14_isclass s m)) = true) /\
  (forall s m, src_c14_isclass s m = false ->
     src_c14_disabled i esize (src_c14_flatten_flag (src_c14_isclass s m)) = false) /\
  (forall s m, src_c14_isclass s m = true <-> s = true \/ m = true) /\
  (forall s m, src_c14_target_isclass s m = true <-> s = true \/ m = true) /\
  src_c14_disabled i esize src_c14_target_flag_class = true /\
  src_c14_disabled i esize src_c14_target_flag_cont = false /\
  src_c14_disabled i esize src_c14_feature_flag = false.
Proof. exact flags_spec. Qed.
Print Assumptions C14_categorical_flags.

(* 4. missing values do not affect the statistics (removing one anywhere, or all of them, gives the same
      record) and are scaled to zero *)
Theorem C14_missing_ignored : forall eps big sd eflag l1 l2 m s,
  col_stats eps big sd eflag (l1 ++ None :: l2) = col_stats eps big sd eflag (l1 ++ l2) /\
  col_stats eps big sd eflag l1 = col_stats eps big sd eflag (map Some (finite l1)) /\
  scale1 m s None = 0.
Proof. exact missing_ignored. Qed.
Print Assumptions C14_missing_ignored.

(* 5. min-max scaling maps the column into [0, 1] ... *)
Theorem C14_minmax_range : forall eps big sd col x, 0 < eps -> bounded big (finite col) -> In x (finite col) ->
  let s := col_stats eps big sd 1 col in 0 <= scale1 MMinMax s (Some x) <= 1.
Proof. exact minmax_range. Qed.
Print Assumptions C14_minmax_range.

(* ... and both ends are attained unless the range is below the epsilon guard *)
Theorem C14_minmax_attained : forall eps big sd col, 0 < eps -> bounded big (finite col) ->
  (length (finite col) > 1)%nat ->
  let s := col_stats eps big sd 1 col in
  eps <= s_max s - s_min s ->
  exists lo hi, In lo (finite col) /\ In hi (finite col) /\
    scale1 MMinMax s (Some lo) == 0 /\ scale1 MMinMax s (Some hi) == 1.
Proof. exact minmax_attained. Qed.
Print Assumptions C14_minmax_attained.

(* 6. mean and standard scaling centre the column: the scaled column (missing -> 0) sums to zero, for every
      column (also constant, single-sample, all-missing) and every stored stdev *)
Theorem C14_mean_zero : forall eps big sd col m, 0 < eps -> m = MMean \/ m = MStandard ->
  let s := col_stats eps big sd 1 col in qsum (map (scale1 m s) col) == 0.
Proof. exact zero_mean. Qed.
Print Assumptions C14_mean_zero.

Theorem C14_mean_range : forall eps big sd col x, 0 < eps -> bounded big (finite col) -> In x (finite col) ->
  let s := col_stats eps big sd 1 col in -1 <= scale1 MMean s (Some x) <= 1.
Proof. exact mean_range. Qed.
Print Assumptions C14_mean_range.

(* 7. the one-pass variance is never negative in exact arithmetic: the clamp std::max(., 0.0) before the
      square root only matters for the floating-point rounding *)
Theorem C14_variance_nonneg : forall big col, (length (finite col) > 1)%nat ->
  0 <= var_of (accumulate (acc0 big) col).
Proof. exact variance_nonneg. Qed.
Print Assumptions C14_variance_nonneg.

(* 8. standard scaling: the (one-pass, sample) variance of the scaled entries times max(stdev, eps)^2 is the
      variance of the column -- for every stored stdev; it is exactly 1 when the stored stdev is the root of
      the variance and not below the guard *)
Theorem C14_standard_variance : forall eps big big' sd col, 0 < eps -> (length (finite col) > 1)%nat ->
  let a := accumulate (acc0 big) col in
  let s := col_stats eps big sd 1 col in
  var_of (accumulate (acc0 big') (map Some (scaled_present MStandard s col))) * (s_mul_stdev s * s_mul_stdev s)
  == var_of a.
Proof. exact scaled_variance. Qed.
Print Assumptions C14_standard_variance.

Theorem C14_standard_unit : forall eps big big' sd col, 0 < eps -> (length (finite col) > 1)%nat ->
  let a := accumulate (acc0 big) col in
  let s := col_stats eps big sd 1 col in
  sd_ok a sd -> eps <= sd ->
  var_of (accumulate (acc0 big') (map Some (scaled_present MStandard s col))) == 1.
Proof. exact unit_variance. Qed.
Print Assumptions C14_standard_unit.

(* 9. nano::upscale(flatten_stats, fm, targets_stats, tm, W, b): the converted affine map applied to the raw
      inputs is the up-scaled output of the original map on the scaled inputs -- any W row, bias, input,
      any flatten statistics, any target statistics with inverse (de)normalisers (all those of clause 2) *)
Theorem C14_affine_conversion : forall fm tm fs t w b x, stats_wf t -> length fs = length w -> length w = length x ->
  dot (up_wrow fm tm fs t w) x + up_bias fm tm fs t w b ==
  upscale1 tm t (dot w (scale_row fm fs (map Some x)) + b).
Proof. exact affine_conversion. Qed.
Print Assumptions C14_affine_conversion.

(* 10. the statistics do not depend on the batch size of make_*_stats (ranges translated from the loop) *)
Theorem C14_batching_irrelevant : forall col a batch, (1 <= batch)%Z ->
  accumulate_batched a col batch = accumulate a col.
Proof. exact batching_irrelevant. Qed.
Print Assumptions C14_batching_irrelevant.

(* ---- non-vacuity: the hypotheses are satisfiable and the objects are the intended ones ----------------- *)
Definition ex_eps : Q := 1 # 100000000.
Definition ex_big : Q := 1000000.
Definition ex_col : list (option Q) := [Some 1; None; Some 3; Some 5].   (* mean 3, variance 4, stdev 2 *)
Definition ex_st : stats := col_stats ex_eps ex_big 2 1 ex_col.

Example C14_nonvacuous_stats :
  0 < ex_eps /\ bounded ex_big (finite ex_col) /\ (length (finite ex_col) > 1)%nat /\
  sd_ok (accumulate (acc0 ex_big) ex_col) 2 /\ ex_eps <= 2 /\ ex_eps <= s_max ex_st - s_min ex_st /\
  s_n ex_st = 3%Z /\ s_min ex_st == 1 /\ s_max ex_st == 5 /\ s_mean ex_st == 3 /\ s_stdev ex_st == 2 /\
  s_div_range ex_st == 1 # 4 /\ s_mul_stdev ex_st == 2 /\ var_of (accumulate (acc0 ex_big) ex_col) == 4 /\
  stats_wf ex_st.
Proof.
  unfold bounded, sd_ok, stats_wf. repeat split; try (repeat constructor); vm_compute; try reflexivity;
    intro H; discriminate H.
Qed.

Example C14_nonvacuous_scaling :
  Forall2 Qeq (map (scale1 MStandard ex_st) ex_col) [-1; 0; 0; 1] /\
  Forall2 Qeq (map (scale1 MMinMax ex_st) ex_col) [0; 0; 1 # 2; 1] /\
  Forall2 Qeq (map (scale1 MMean ex_st) ex_col) [- (1 # 2); 0; 0; 1 # 2] /\
  upscale1 MStandard ex_st (scale1 MStandard ex_st (Some 5)) == 5 /\
  var_of (accumulate (acc0 ex_big) (map Some (scaled_present MStandard ex_st ex_col))) == 1 /\
  (* constant column (range and stdev below the guard), single sample, all missing, categorical *)
  s_mul_range (col_stats ex_eps ex_big 0 1 [Some 7; Some 7; Some 7]) == ex_eps /\
  upscale1 MMinMax (col_stats ex_eps ex_big 0 1 [Some 7; Some 7; Some 7])
           (scale1 MMinMax (col_stats ex_eps ex_big 0 1 [Some 7; Some 7; Some 7]) (Some 9)) == 9 /\
  col_stats ex_eps ex_big 0 1 [None; Some 7] = mkstats 1 7 7 7 0 1 1 1 1 /\
  col_stats ex_eps ex_big 0 1 [None; None] = mkstats 0 0 0 0 0 1 1 1 1 /\
  col_stats ex_eps ex_big 2 0 ex_col = stats_off 3 /\
  src_c14_disabled 2 3 (src_c14_flatten_flag (src_c14_isclass true false)) = true.
Proof.
  vm_compute. repeat split; try reflexivity; repeat (constructor; try reflexivity).
Qed.

(* W = [2; -1], b = 1/2, two input columns (the example column and a constant one), standard scaling on both sides *)
Example C14_nonvacuous_affine :
  let fs := [ex_st; col_stats ex_eps ex_big 0 1 [Some 7; Some 7]] in
  let t := col_stats ex_eps ex_big 2 1 [Some 10; Some 14; Some 12] in
  stats_wf t /\ length fs = length [2; -1] /\
  dot (up_wrow MStandard MStandard fs t [2; -1]) [5; 7] + up_bias MStandard MStandard fs t [2; -1] (1 # 2) == 17 /\
  upscale1 MStandard t (dot [2; -1] (scale_row MStandard fs [Some 5; Some 7]) + (1 # 2)) == 17 /\
  accumulate_batched (acc0 ex_big) ex_col 3 = accumulate (acc0 ex_big) ex_col /\
  batches 4 0 3 4 = [(0, 3); (3, 4)]%Z.
Proof.
  unfold stats_wf. repeat split; vm_compute; try reflexivity; intro H; discriminate H.
Qed.

(* ===================================================================================================================== *)
(* Extension: the FLOATING-POINT clauses, in the standard model of binary64 arithmetic (Flocq) and for the executable   *)
(* PrimFloat twin of the scalar code of stats.cpp (C14_FloatDefs.v / C14_Float.v).                                      *)
(*   rnd = round radix2 (FLT_exp (-1074) 53) ZnearestE, u = 2^-53, eta = 2^-1075, g n = (1 + u)^n - 1,                  *)
(*   fmt = representable, NU t = (t = 0 or |t| >= 2^-1022), FR = real value of a primitive float, fin = is_finite.      *)
(* ===================================================================================================================== *)
(* Floats / Flocq.IEEE754 are deliberately not imported: Print Assumptions then prints the primitive operations with their
   module names (PrimFloat.sub, FloatAxioms.sub_spec, ...), which is what the axiom gate whitelists *)
From Coq Require Import Reals Permutation Lra Lia.
From Flocq Require Import Core.
From LNGen Require Import Src_dstatsf.
From LN Require Import C14_FloatDefs C14_Float.
Local Open Scope R_scope.

(* 11. the bridge: a primitive binary64 operation on finite operands with a finite result IS the rounding of the exact
       result, and it is finite whenever that rounding is below 2^1024 *)
Theorem C14_fl_bridge : forall a b, fin a -> fin b ->
  ((fin (PrimFloat.add a b) -> FR (PrimFloat.add a b) = rnd (FR a + FR b)) /\
   (Rabs (rnd (FR a + FR b)) < bpow radix2 1024 -> fin (PrimFloat.add a b))) /\
  ((fin (PrimFloat.sub a b) -> FR (PrimFloat.sub a b) = rnd (FR a - FR b)) /\
   (Rabs (rnd (FR a - FR b)) < bpow radix2 1024 -> fin (PrimFloat.sub a b))) /\
  ((fin (PrimFloat.mul a b) -> FR (PrimFloat.mul a b) = rnd (FR a * FR b)) /\
   (Rabs (rnd (FR a * FR b)) < bpow radix2 1024 -> fin (PrimFloat.mul a b))) /\
  (FR b <> 0 ->
   (fin (PrimFloat.div a b) -> FR (PrimFloat.div a b) = rnd (FR a / FR b)) /\
   (Rabs (rnd (FR a / FR b)) < bpow radix2 1024 -> fin (PrimFloat.div a b))) /\
  fmt (FR a) /\ (fin (fmax_cpp a b) /\ FR (fmax_cpp a b) = Rmax (FR a) (FR b)).
Proof.
  intros a b Fa Fb. repeat split; try (now apply fin_add); try (now apply fin_sub); try (now apply fin_mul);
    try (now apply fin_div); try apply FR_fmt; now apply fmax_cpp_fin.
Qed.
Print Assumptions C14_fl_bridge.

(* 12. round trip in the standard model: for representable x and offset and ANY multiplier in (0, 2^1022] with the
       divisor computed as rnd(1 / mul) -- as done() does -- up-scaling the scaled value returns x up to
       (5 |x| + 4 |offset|) u (1 + 3u) plus the underflow term 2^-1074 (mul + 1); no other assumption (underflow allowed) *)
Theorem C14_fl_roundtrip_real : forall x off mul, fmt x -> fmt off -> 0 < mul -> mul <= bpow radix2 1022 ->
  Rabs (rt_upscale (rt_scale x off mul) off mul - x)
  <= (5 * Rabs x + 4 * Rabs off) * (u * (1 + 3 * u)) + 2 * eta * (mul + 1).
Proof. exact roundtrip_R. Qed.
Print Assumptions C14_fl_roundtrip_real.

(* 13. ... for the executable twin and every statistics record the twin of done() produces (any accumulated history, any
       flags, each of the four modes): if no input / intermediate result of upscale(scale(x)) overflows (chain_finite,
       an executable test) the real value of the result is within the same bound of x *)
Theorem C14_fl_roundtrip : forall eps i esize eflag a m x, fin eps -> 0 < FR eps ->
  let s := fdone eps i esize eflag a in
  chain_finite m s x = true -> FR (f_mul m s) <= bpow radix2 1022 ->
  Rabs (FR (fupscale_one m s (fscale_one m s x)) - FR x) <= rt_bound (FR x) (FR (f_off m s)) (FR (f_mul m s)).
Proof. exact roundtrip_fdone. Qed.
Print Assumptions C14_fl_roundtrip.

(* ... and for ANY record whose divisor is 1.0 / multiplier in binary64 (e.g. statistics read back from the library) *)
Theorem C14_fl_roundtrip_any_stats : forall m s x, denorm_ok m s -> chain_finite m s x = true ->
  0 < FR (f_mul m s) -> FR (f_mul m s) <= bpow radix2 1022 ->
  Rabs (FR (fupscale_one m s (fscale_one m s x)) - FR x) <= rt_bound (FR x) (FR (f_off m s)) (FR (f_mul m s)).
Proof. exact roundtrip_twin. Qed.
Print Assumptions C14_fl_roundtrip_any_stats.

(* 14. the (de)normalisers of every record of done(): div = 1.0 / mul bit for bit, and mul > 0 as soon as it is finite *)
Theorem C14_fl_denormalisers : forall eps i esize eflag a m,
  denorm_ok m (fdone eps i esize eflag a) /\
  (fin eps -> 0 < FR eps -> fin (f_mul m (fdone eps i esize eflag a)) -> 0 < FR (f_mul m (fdone eps i esize eflag a))).
Proof. intros. split; [apply fdone_denorm_ok|apply fdone_mul_pos]. Qed.
Print Assumptions C14_fl_denormalisers.

(* 15. min-max scaling in floating point: the minimum is mapped to 0 exactly, the maximum into [1 - u, 1] (when the range
       is not below the guard), and every value of [min, max] INTO [0, 1] -- no rounding slack *)
Theorem C14_fl_minmax_real : forall mn mx eps x, 0 < eps -> eps <= bpow radix2 1022 -> rnd (mx - mn) <= bpow radix2 1022 ->
  rt_scale mn mn (mm_mul mn mx eps) = 0 /\
  (eps <= rnd (mx - mn) -> 1 - u <= rt_scale mx mn (mm_mul mn mx eps) <= 1) /\
  (mn <= x <= mx -> 0 <= rt_scale x mn (mm_mul mn mx eps) <= 1).
Proof.
  intros mn mx eps x Pe Le L. split; [apply minmax_min_R|]. split; intros H.
  - now apply minmax_max_R.
  - now apply minmax_range_R.
Qed.
Print Assumptions C14_fl_minmax_real.

Theorem C14_fl_minmax : forall s eps x,
  fin eps -> 0 < FR eps -> FR eps <= bpow radix2 1022 ->
  f_mul_range s = fmax_cpp (PrimFloat.sub (f_max s) (f_min s)) eps ->
  f_div_range s = PrimFloat.div fone (f_mul_range s) -> fin (f_div_range s) ->
  fin (f_min s) -> fin (f_max s) -> fin x ->
  fin (PrimFloat.sub (f_max s) (f_min s)) -> FR (PrimFloat.sub (f_max s) (f_min s)) <= bpow radix2 1022 ->
  FR (f_min s) <= FR x <= FR (f_max s) ->
  let y := fscale_one MMinMax s x in
  fin y /\ 0 <= FR y <= 1 /\
  (FR x = FR (f_min s) -> FR y = 0) /\
  (FR x = FR (f_max s) -> FR eps <= FR (PrimFloat.sub (f_max s) (f_min s)) -> 1 - u <= FR y).
Proof. exact minmax_twin. Qed.
Print Assumptions C14_fl_minmax.

(* ... whose structural hypotheses hold for the records of done() in the branch N > 1 of an enabled column *)
Theorem C14_fl_minmax_structure : forall eps i esize eflag a,
  src_c14_disabled i esize eflag = false -> src_c14_many (fa_n a) = true ->
  let s := fdone eps i esize eflag a in
  f_min s = fa_min a /\ f_max s = fa_max a /\
  f_mul_range s = fmax_cpp (PrimFloat.sub (f_max s) (f_min s)) eps /\
  f_div_range s = PrimFloat.div fone (f_mul_range s) /\
  f_mul_stdev s = fmax_cpp (f_stdev s) eps /\
  f_div_stdev s = PrimFloat.div fone (f_mul_stdev s).
Proof. exact fdone_many_structure. Qed.
Print Assumptions C14_fl_minmax_structure.

(* 16. summation in ANY order (Eigen's reduction order is unspecified): a tree whose leaves are a permutation of n
       representable numbers evaluates within g (n - 1) * sum |p_i| of the exact sum; g n <= n u / (1 - n u) *)
Theorem C14_fl_sum_any_order : forall t ps, Forall fmt ps -> Permutation (sleaves t) ps ->
  Rabs (sfl t - rsum ps) <= g (length ps - 1) * rabssum ps.
Proof. exact sum_any_order. Qed.
Print Assumptions C14_fl_sum_any_order.

Theorem C14_fl_gamma : forall n, INR n * u < 1 -> g n <= INR n * u / (1 - INR n * u).
Proof. exact g_le_gamma. Qed.
Print Assumptions C14_fl_gamma.

(* 17. nano::upscale, one output with C input columns: bias' = rnd(rnd(rnd(D + b) - rnd tbx) / tw) where D is the sum, in
       any order, of the products rnd(w_j * rnd(fbx_j)); without underflow it is within
       g (C + 4) * (sum |w_j fbx_j| + |b| + |tbx|) / |tw| of the exact (sum w_j fbx_j + b - tbx) / tw *)
Theorem C14_fl_up_bias : forall t w fbx b tbx tw,
  length w = length fbx -> (1 <= length w)%nat ->
  Permutation (sleaves t) (prods w fbx) -> NU_prods w fbx -> fmt b -> NU tbx -> tw <> 0 ->
  NU (rnd (rnd (sfl t + b) - rnd tbx) / tw) ->
  let M := rabssum (xprods w fbx) + Rabs b + Rabs tbx in
  Rabs (rnd (rnd (rnd (sfl t + b) - rnd tbx) / tw) - (rsum (xprods w fbx) + b - tbx) / tw)
  <= g (length w + 4) * (M / Rabs tw).
Proof. exact up_bias_R. Qed.
Print Assumptions C14_fl_up_bias.

(* 18. one up-scaled weight W' = (W / tw) * fw: relative error g 2 = 2u + u^2 (standard model and twin) *)
Theorem C14_fl_up_weight : forall w tw fw, tw <> 0 -> NU (w / tw) -> NU (rnd (w / tw) * fw) ->
  Rabs (rnd (rnd (w / tw) * fw) - w / tw * fw) <= g 2 * Rabs (w / tw * fw).
Proof. exact up_weight_R. Qed.
Print Assumptions C14_fl_up_weight.

Theorem C14_fl_up_weight_twin : forall fm tm f t w,
  fin w -> fin (fmk_w tm t) -> fin (fmk_w fm f) -> FR (fmk_w tm t) <> 0 ->
  fin (PrimFloat.div w (fmk_w tm t)) -> fin (fup_w fm tm f t w) ->
  NU (FR w / FR (fmk_w tm t)) -> NU (rnd (FR w / FR (fmk_w tm t)) * FR (fmk_w fm f)) ->
  Rabs (FR (fup_w fm tm f t w) - FR w / FR (fmk_w tm t) * FR (fmk_w fm f))
  <= g 2 * Rabs (FR w / FR (fmk_w tm t) * FR (fmk_w fm f)).
Proof. exact up_weight_twin. Qed.
Print Assumptions C14_fl_up_weight_twin.

(* 19. the polymorphic shapes instantiated by the twin are, at type Z, the expressions translated from stats.cpp *)
Theorem C14_fl_shapes_are_source :
  (forall x mean mn mx dr mr ds ms : Z,
     src_c14f_scale_mean x mean mn mx dr mr ds ms = scale_shape zops MMean x mean mn dr ds /\
     src_c14f_scale_minmax x mean mn mx dr mr ds ms = scale_shape zops MMinMax x mean mn dr ds /\
     src_c14f_scale_standard x mean mn mx dr mr ds ms = scale_shape zops MStandard x mean mn dr ds /\
     src_c14f_upscale_mean x mean mn mx dr mr ds ms = upscale_shape zops MMean x mean mn mr ms /\
     src_c14f_upscale_minmax x mean mn mx dr mr ds ms = upscale_shape zops MMinMax x mean mn mr ms /\
     src_c14f_upscale_standard x mean mn mx dr mr ds ms = upscale_shape zops MStandard x mean mn mr ms) /\
  (forall one zero mx mn sd sum eps dN : Z,
     src_c14f_var one zero mx mn sd sum eps dN = var_shape zops one zero sd sum dN /\
     src_c14f_mean one zero mx mn sd sum eps dN = mean_shape zops sum dN /\
     src_c14f_div_range one zero mx mn sd sum eps dN = div_range_shape zops one mx mn eps /\
     src_c14f_mul_range one zero mx mn sd sum eps dN = mul_range_shape zops mx mn eps /\
     src_c14f_div_stdev one zero mx mn sd sum eps dN = div_stdev_shape zops one sd eps /\
     src_c14f_mul_stdev one zero mx mn sd sum eps dN = mul_stdev_shape zops sd eps) /\
  (forall sum sq v : Z, src_c14f_upd_sum sum v = upd_sum_shape zops sum v /\ src_c14f_upd_sq sq v = upd_sq_shape zops sq v) /\
  (forall one zero mean mn dr ds : Z,
     src_c14f_mk_w_mean mean mn dr ds = mk_w_shape one MMean dr ds /\
     src_c14f_mk_w_minmax mean mn dr ds = mk_w_shape one MMinMax dr ds /\
     src_c14f_mk_w_standard mean mn dr ds = mk_w_shape one MStandard dr ds /\
     src_c14f_mk_b_mean mean mn dr ds = mk_b_shape zops zero MMean mean mn dr ds /\
     src_c14f_mk_b_minmax mean mn dr ds = mk_b_shape zops zero MMinMax mean mn dr ds /\
     src_c14f_mk_b_standard mean mn dr ds = mk_b_shape zops zero MStandard mean mn dr ds) /\
  (forall d b tb tw w fw : Z,
     src_c14f_up_bias_div (src_c14f_up_bias_num d b tb) tw = up_b_shape zops d b tb tw /\
     src_c14f_up_w_mul (src_c14f_up_w_div w tw) fw = up_w_shape zops w tw fw).
Proof. exact shapes_are_source. Qed.
Print Assumptions C14_fl_shapes_are_source.

(* 20. no NaN: every statistic of an enabled column with N > 1 samples is finite, the deviation is >= 0 and the
       (de)normalisers are > 0, whenever the two running sums and the two intermediates of the one-pass variance that can
       overflow are finite ([var_finite], an executable test) -- the clamp std::max(., 0.0) makes the square root safe for
       EVERY such history (this is the clause that failed before the fix 4a52c08: stdev = NaN for constant columns) *)
Theorem C14_fl_stats_finite : forall eps i esize eflag a,
  fin eps -> bpow radix2 (-1022) <= FR eps -> (2 <= fa_n a < 2 ^ 53)%Z -> var_finite a = true ->
  fin (fa_min a) -> fin (fa_max a) -> fin (PrimFloat.sub (fa_max a) (fa_min a)) ->
  let s := fdone eps i esize eflag a in
  fin (f_min s) /\ fin (f_max s) /\ fin (f_mean s) /\ fin (f_stdev s) /\ fin (f_div_range s) /\ fin (f_mul_range s) /\
  fin (f_div_stdev s) /\ fin (f_mul_stdev s) /\ 0 <= FR (f_stdev s) /\
  0 < FR (f_mul_range s) /\ 0 < FR (f_mul_stdev s) /\ 0 < FR (f_div_range s) /\ 0 < FR (f_div_stdev s).
Proof. exact fdone_finite. Qed.
Print Assumptions C14_fl_stats_finite.

(* 21. clause 3 in floating point, one output with C input columns (cs: weight, offset, divisor, raw input per column): the
       converted model -- W' and b' AS COMPUTED by nano::upscale (any reduction order), applied to raw inputs with an exact
       dot product -- is within  g 2 * sum |W'ex_j x_j| + g (C + 4) * (sum |w_j off_j div_j| + |b| + |toff tdv|) / |tdv|  of
       the exact up-scaling of the exact original model on the exactly scaled inputs, when nothing underflows *)
Theorem C14_fl_prediction : forall t cs b toff tdv,
  (1 <= length cs)%nat -> Permutation (sleaves t) (prods (ws cs) (fbxs cs)) -> NU_prods (ws cs) (fbxs cs) ->
  fmt b -> NU (- toff * tdv) -> tdv <> 0 -> Forall (NU_w tdv) cs ->
  NU (rnd (rnd (sfl t + b) - rnd (- toff * tdv)) / tdv) ->
  let bfl := rnd (rnd (rnd (sfl t + b) - rnd (- toff * tdv)) / tdv) in
  let M := rabssum (xprods (ws cs) (fbxs cs)) + Rabs b + Rabs (- toff * tdv) in
  Rabs (pred_fl tdv cs bfl - pred_ex cs b toff tdv)
  <= g 2 * rsum (map (fun c => Rabs (wex tdv c * c_x c)) cs) + g (length cs + 4) * (M / Rabs tdv).
Proof. exact prediction_R. Qed.
Print Assumptions C14_fl_prediction.

(* ---- non-vacuity of the extension ------------------------------------------------------------------------------------- *)
(* ex_fcol = [1; nan; 3; 5] as binary64 values, ex_feps = 1e-8, ex_fst = the twin's statistics of that column (C14_FloatDefs.v):
   the twin computes the statistics of the exact example above, the hypotheses of 13 / 14 / 15 hold for it, and the round
   trip of 5 under standard scaling is exact here *)
Example C14_fl_nonvacuous_twin :
  ex_fst = mkfstats 3 fl1 fl5 fl3 fl2 fl025 fl4 fl05 fl2 /\
  fin ex_feps /\ 0 < FR ex_feps /\ FR ex_feps <= bpow radix2 1022 /\
  chain_finite MStandard ex_fst fl5 = true /\ chain_finite MMinMax ex_fst fl5 = true /\
  FR (f_mul MStandard ex_fst) = 2 /\ FR (f_mul MStandard ex_fst) <= bpow radix2 1022 /\
  denorm_ok MStandard ex_fst /\
  fscale_one MStandard ex_fst fl5 = fl1 /\ fupscale_one MStandard ex_fst fl1 = fl5 /\
  fscale_one MMinMax ex_fst fl1 = fzero /\ fscale_one MMinMax ex_fst fl5 = fl1 /\
  fscale_one MMean ex_fst flnan = fzero /\
  src_c14_disabled 0 1 1 = false /\ src_c14_many (fa_n (faccumulate (facc0 ex_fbig) ex_fcol)) = true /\
  fin (PrimFloat.sub (f_max ex_fst) (f_min ex_fst)) /\ FR (PrimFloat.sub (f_max ex_fst) (f_min ex_fst)) = 4 /\
  fin (f_div_range ex_fst) /\ FR (f_min ex_fst) <= FR fl3 <= FR (f_max ex_fst) /\
  (* hypotheses of 20 *)
  bpow radix2 (-1022) <= FR ex_feps /\ (2 <= fa_n (faccumulate (facc0 ex_fbig) ex_fcol) < 2 ^ 53)%Z /\
  var_finite (faccumulate (facc0 ex_fbig) ex_fcol) = true /\
  fin (fa_min (faccumulate (facc0 ex_fbig) ex_fcol)) /\ fin (fa_max (faccumulate (facc0 ex_fbig) ex_fcol)) /\
  fin (PrimFloat.sub (fa_max (faccumulate (facc0 ex_fbig) ex_fcol)) (fa_min (faccumulate (facc0 ex_fbig) ex_fcol))).
Proof.
  assert (B : 4 <= bpow radix2 1022) by (change 4 with (bpow radix2 2); apply bpow_le; discriminate).
  destruct ex_float_values as (E1 & E2 & E3 & E4 & E5 & Ee).
  repeat split; try (vm_compute; reflexivity); try apply Ee; try (vm_compute; intro H; discriminate H).
  - eapply Rle_trans; [apply Ee|lra].
  - change (f_mul MStandard ex_fst) with fl2. exact E2.
  - change (f_mul MStandard ex_fst) with fl2. rewrite E2. lra.
  - change (PrimFloat.sub (f_max ex_fst) (f_min ex_fst)) with fl4. exact E4.
  - change (f_min ex_fst) with fl1. rewrite E1, E3. lra.
  - change (f_max ex_fst) with fl5. rewrite E5, E3. lra.
  - exact ex_feps_normal.
Qed.

(* the hypotheses of 12 / 15 / 16 / 17 / 18 are satisfiable: x = 4, offset = 1, mul = 2; one column with w = fbx = b = tbx = tw = 1 *)
Example C14_fl_nonvacuous_real :
  fmt 4 /\ fmt 1 /\ 0 < 2 <= bpow radix2 1022 /\ rnd (4 - 2) <= bpow radix2 1022 /\ 2 <= 3 <= 4 /\
  (let t := SLeaf 1 in let w := [1] in let fbx := [1] in
   length w = length fbx /\ (1 <= length w)%nat /\ Permutation (sleaves t) (prods w fbx) /\ NU_prods w fbx /\ fmt 1 /\
   NU 1 /\ 1 <> 0 /\ NU (rnd (rnd (sfl t + 1) - rnd 1) / 1) /\ Forall fmt (prods w fbx)) /\
  NU (1 / 1) /\ NU (rnd (1 / 1) * 1) /\ INR 20 * u < 1 /\
  (* 21: one column (w, off, div, x) = (1, -1, 1, 4), b = 1, toff = -1, tdv = 1: fbxs = [1], tbx = 1 as above *)
  (let cs := [mkpcol 1 (-1) 1 4] in
   ws cs = [1] /\ fbxs cs = [1] /\ - -1 * 1 = 1 /\ Forall (NU_w 1) cs /\ pred_ex cs 1 (-1) 1 = 5).
Proof.
  assert (F1 : fmt 1) by exact fmt_1.
  assert (F2 : fmt 2) by (change 2 with (bpow radix2 1); apply fmt_bpow; discriminate).
  assert (F4 : fmt 4) by (change 4 with (bpow radix2 2); apply fmt_bpow; discriminate).
  assert (N1 : NU 1) by (change 1 with (bpow radix2 0); apply NU_bpow; discriminate).
  assert (B2 : 2 <= bpow radix2 1022) by (change 2 with (bpow radix2 1); apply bpow_le; discriminate).
  assert (R1 : rnd 1 = 1) by (apply rnd_id, F1).
  assert (P : prods [1] [1] = [1]) by (simpl; rewrite R1, Rmult_1_l, R1; reflexivity).
  assert (D1 : 1 / 1 = 1) by (unfold Rdiv; rewrite Rinv_1; ring).
  split; [exact F4|]. split; [exact F1|]. split; [lra|]. split.
  { replace (4 - 2) with 2 by ring. rewrite (rnd_id _ F2). exact B2. }
  split; [lra|]. split.
  { cbv zeta. simpl sleaves. simpl sfl. rewrite P. repeat split; auto.
    - rewrite R1, Rmult_1_l. exact N1.
    - replace (1 + 1) with 2 by ring. rewrite (rnd_id _ F2), R1. replace (2 - 1) with 1 by ring. rewrite R1, D1. exact N1. }
  rewrite D1, R1, Rmult_1_l. split; [exact N1|]. split; [exact N1|].
  split; [rewrite u_val; simpl; lra|].
  cbv zeta. unfold ws, fbxs, pred_ex. simpl. repeat split; try (f_equal; ring); try lra.
  constructor; [|constructor]. unfold NU_w. simpl. rewrite D1, R1, Rmult_1_l. split; exact N1.
Qed.

(* ===================================================================================================================== *)
(* Second extension: ACCURACY of the one-pass statistics, the ADVERTISED properties of the scaled columns in floating    *)
(* point (C14_Float2Defs.v / C14_Float2.v), and the wrappers linear_t::fit / predict (C14_WrapDefs.v / C14_Wrap.v).      *)
(*   sumR / sqR = the running sums of update() folded LEFT TO RIGHT (sequential scalar code), meanR / varR / sdR = the    *)
(*   expression trees of done(), var_ex = the exact sample variance, yR m d x = rnd (rnd (x - m) * d) = one scaled value. *)
(* ===================================================================================================================== *)
From LN Require Import C14_Float2Defs C14_Float2.

(* 22. the mean: |rnd (s / N) - S / N| <= g N * (sum |x_i| / N) -- N - 1 effective additions (0 + x_1 is exact) and the
       division; sharper than the classical gamma_{N+1} *)
Theorem C14_fl_mean_accuracy_real : forall l dn, (1 <= length l)%nat -> Forall fmt l -> 0 < dn -> NU (sumR l / dn) ->
  Rabs (meanR l dn - rsum l / dn) <= g (length l) * (rabssum l / dn).
Proof. exact mean_accuracy_R. Qed.
Print Assumptions C14_fl_mean_accuracy_real.

(* 23. the one-pass variance of done(), (sq - sum * sum / dN) / (dN - 1.0), before the clamp: within
       (g (N+2) * sum x^2 + g (2N+2) * (sum |x|)^2 / N) / (N - 1) of the exact sample variance, no underflow (var_NU) *)
Theorem C14_fl_variance_accuracy_real : forall l dn,
  (1 <= length l)%nat -> Forall fmt l -> 1 < dn -> fmt (dn - 1) -> var_NU l dn ->
  Rabs (varR l dn - var_ex l dn) <= var_err l dn.
Proof. exact variance_accuracy_R. Qed.
Print Assumptions C14_fl_variance_accuracy_real.

(* 24. the exact one-pass variance is >= 0 over R (Cauchy-Schwarz), as C14_variance_nonneg over Q *)
Theorem C14_fl_variance_nonneg_real : forall l, (2 <= length l)%nat -> 0 <= var_ex l (INR (length l)).
Proof. exact var_ex_nonneg. Qed.
Print Assumptions C14_fl_variance_nonneg_real.

(* 25. the deviation sqrt (max (v, 0.0)): correctly rounded root (never underflows) + the clamp (1-Lipschitz):
       (var - E) (1-u)^2 <= sd^2 <= (var + E) (1+u)^2   and   |sd - sqrt var| <= u sqrt var + (1+u) sqrt E,  E = var_err *)
Theorem C14_fl_stdev_accuracy_real : forall l, let dn := INR (length l) in
  (2 <= length l)%nat -> Forall fmt l -> fmt (dn - 1) -> var_NU l dn ->
  0 <= sdR l dn /\
  sdR l dn * sdR l dn <= (var_ex l dn + var_err l dn) * ((1 + u) * (1 + u)) /\
  (var_ex l dn - var_err l dn) * ((1 - u) * (1 - u)) <= sdR l dn * sdR l dn /\
  Rabs (sdR l dn - sqrt (var_ex l dn)) <= u * sqrt (var_ex l dn) + (1 + u) * sqrt (var_err l dn).
Proof.
  intros l dn Hn F Fd N. destruct (stdev_sq_accuracy_R l Hn F Fd N) as (A & B & C).
  repeat split; try assumption. exact (stdev_accuracy_R l Hn F Fd N).
Qed.
Print Assumptions C14_fl_stdev_accuracy_real.

(* 26. the bridge: for an enabled column with 2 <= N < 2^53 finite entries whose sums do not overflow (var_finite, the test
       on the FINAL sums covers every intermediate one), the mean and the deviation of the twin's record ARE meanR / sdR of
       the real values of the finite entries, in the order of the column *)
Theorem C14_fl_twin_statistics : forall eps big i esize eflag col,
  let a := fcol_acc big col in let xs := FRs col in let n := length xs in
  src_c14_disabled i esize eflag = false -> (2 <= n)%nat -> (Z.of_nat n < 2 ^ 53)%Z -> var_finite a = true ->
  let s := fdone eps i esize eflag a in
  fin (f_mean s) /\ fin (f_stdev s) /\ FR (f_mean s) = meanR xs (INR n) /\ FR (f_stdev s) = sdR xs (INR n) /\
  fmt (INR n - 1).
Proof. exact twin_stats_real. Qed.
Print Assumptions C14_fl_twin_statistics.

(* 27. accuracy of the twin's mean *)
Theorem C14_fl_mean_accuracy : forall eps big i esize eflag col,
  let a := fcol_acc big col in let xs := FRs col in let n := length xs in
  src_c14_disabled i esize eflag = false -> (2 <= n)%nat -> (Z.of_nat n < 2 ^ 53)%Z -> var_finite a = true ->
  NU (sumR xs / INR n) ->
  Rabs (FR (f_mean (fdone eps i esize eflag a)) - rsum xs / INR n) <= g n * (rabssum xs / INR n).
Proof. exact twin_mean_accuracy. Qed.
Print Assumptions C14_fl_mean_accuracy.

(* 28. accuracy of the twin's deviation *)
Theorem C14_fl_stdev_accuracy : forall eps big i esize eflag col,
  let a := fcol_acc big col in let xs := FRs col in let n := length xs in let dn := INR n in
  src_c14_disabled i esize eflag = false -> (2 <= n)%nat -> (Z.of_nat n < 2 ^ 53)%Z -> var_finite a = true ->
  var_NU xs dn ->
  let sd := FR (f_stdev (fdone eps i esize eflag a)) in
  0 <= sd /\
  sd * sd <= (var_ex xs dn + var_err xs dn) * ((1 + u) * (1 + u)) /\
  (var_ex xs dn - var_err xs dn) * ((1 - u) * (1 - u)) <= sd * sd /\
  Rabs (sd - sqrt (var_ex xs dn)) <= u * sqrt (var_ex xs dn) + (1 + u) * sqrt (var_err xs dn).
Proof. exact twin_stdev_accuracy. Qed.
Print Assumptions C14_fl_stdev_accuracy.

(* 29. ZERO MEAN in floating point. One scaled value of the twin is yR (bridge); the sum of a scaled column is
       (S - N m) d up to g 2 * d * sum |x_i - m|; hence, if the stored mean is within delta of the exact one, the mean of the
       scaled column is within d (delta + g 2 sum |x_i - m| / N) of zero; for the twin delta = g N * sum |x_i| / N *)
Theorem C14_fl_scale_real : forall m s x, m <> MNone -> scale_finite m s x = true ->
  fin (fscale_one m s x) /\ FR (fscale_one m s x) = yR (FR (f_off m s)) (FR (f_div m s)) (FR x).
Proof. exact fscale_real. Qed.
Print Assumptions C14_fl_scale_real.

Theorem C14_fl_scaled_sum_real : forall m d l, Forall fmt l -> fmt m -> 0 <= d -> scale_NU m d l ->
  Rabs (rsum (map (yR m d) l) - (rsum l - INR (length l) * m) * d) <= g 2 * (d * rabssum (devs m l)).
Proof. exact scaled_sum_R. Qed.
Print Assumptions C14_fl_scaled_sum_real.

Theorem C14_fl_zero_mean_real : forall m d l delta,
  (1 <= length l)%nat -> Forall fmt l -> fmt m -> 0 <= d -> scale_NU m d l ->
  Rabs (m - rsum l / INR (length l)) <= delta ->
  Rabs (rsum (map (yR m d) l) / INR (length l)) <= d * (delta + g 2 * (rabssum (devs m l) / INR (length l))).
Proof. exact zero_mean_R. Qed.
Print Assumptions C14_fl_zero_mean_real.

Theorem C14_fl_zero_mean : forall eps big i esize eflag col m,
  let a := fcol_acc big col in let xs := FRs col in let n := length xs in
  let s := fdone eps i esize eflag a in
  (m = MMean \/ m = MStandard) ->
  src_c14_disabled i esize eflag = false -> (2 <= n)%nat -> (Z.of_nat n < 2 ^ 53)%Z -> var_finite a = true ->
  col_scale_finite m s (ffin_entries col) = true -> 0 <= FR (f_div m s) ->
  NU (sumR xs / INR n) -> scale_NU (FR (f_mean s)) (FR (f_div m s)) xs ->
  Rabs (rsum (map FR (fscale_col m s (ffin_entries col))) / INR n)
  <= FR (f_div m s) * (g n * (rabssum xs / INR n) + g 2 * (rabssum (devs (FR (f_mean s)) xs) / INR n)).
Proof. exact twin_zero_mean. Qed.
Print Assumptions C14_fl_zero_mean.

(* 30. RANGE of mean scaling in floating point: a value of [min, max] is mapped into [-1, 1] up to the error delta of the
       stored mean and three roundings: |y| <= ((max - min) + delta) d (1+u)^2 + eta (no underflow assumption); the exact mean
       lies in [min, max] *)
Theorem C14_fl_mean_range_real : forall m d x mn mx mu delta, fmt x -> fmt m -> 0 <= d ->
  mn <= x <= mx -> mn <= mu <= mx -> Rabs (m - mu) <= delta ->
  Rabs (yR m d x) <= ((mx - mn) + delta) * d * ((1 + u) * (1 + u)) + eta.
Proof. exact mean_range_R. Qed.
Print Assumptions C14_fl_mean_range_real.

Theorem C14_fl_mean_between : forall l mn mx, (1 <= length l)%nat -> Forall (fun x => mn <= x <= mx) l ->
  mn <= rsum l / INR (length l) <= mx.
Proof. exact mean_between. Qed.
Print Assumptions C14_fl_mean_between.

(* 31. UNIT DEVIATION of standard scaling in floating point: the sample variance of the scaled column is d^2 * (sample
       variance of the column) up to g 4 d^2 (sum (x_i-m)^2 + (sum |x_i-m|)^2 / N) / (N-1)  [any offset m, any d >= 0];
       with d = rnd (1 / sd), sd = sqrt (vc) (1 + e), |vc - var| <= E (25.):  |d^2 var - 1| <= ((1+u)^2/(1-u)^2 - 1) +
       (1+u)^2 E / sd^2; and |sqrt v - 1| <= |v - 1| turns a variance statement into a deviation statement *)
Theorem C14_fl_scaled_variance_real : forall m d l,
  (2 <= length l)%nat -> Forall fmt l -> fmt m -> 0 <= d -> scale_NU m d l ->
  Rabs (svar (map (yR m d) l) - d * d * svar l) <= g 4 * (d * d) * spread2 m l / (INR (length l) - 1).
Proof. exact scaled_variance_R. Qed.
Print Assumptions C14_fl_scaled_variance_real.

Theorem C14_fl_unit_variance_real : forall var vc E sd e, 0 <= var -> 0 <= vc -> Rabs (vc - var) <= E -> Rabs e <= u ->
  sd = sqrt vc * (1 + e) -> 0 < sd -> NU (/ sd) ->
  Rabs (rnd (/ sd) * rnd (/ sd) * var - 1) <= ((1 + u) * (1 + u) / ((1 - u) * (1 - u)) - 1) + (1 + u) * (1 + u) * E / (sd * sd).
Proof. exact unit_variance_R. Qed.
Print Assumptions C14_fl_unit_variance_real.

Theorem C14_fl_sqrt_near_one : forall v, 0 <= v -> Rabs (sqrt v - 1) <= Rabs (v - 1).
Proof. exact sqrt_near_1. Qed.
Print Assumptions C14_fl_sqrt_near_one.

(* 32. linear::predict in floating point: outputs = inputs * W'^T (Eigen: any summation order) then += bias:
       |rnd (D + b') - (sum w'_j x_j + b')| <= g (C + 1) (sum |w'_j x_j| + |b'|) *)
Theorem C14_fl_predict_dot : forall t w x b, length w = length x -> (1 <= length w)%nat ->
  Permutation (sleaves t) (prods1 w x) -> NU_prods1 w x -> fmt b ->
  Rabs (rnd (sfl t + b) - (rsum (xprods w x) + b)) <= g (length w + 1) * (rabssum (xprods w x) + Rabs b).
Proof. exact predict_dot_R. Qed.
Print Assumptions C14_fl_predict_dot.

(* non-vacuity: the column [1; nan; 3; 5] (ex_fcol, binary64) satisfies every hypothesis of 22-31; its scaled column under
   standard scaling is [-1; 0; 1] *)
Example C14_fl2_nonvacuous :
  let a := fcol_acc ex_fbig ex_fcol in let xs := FRs ex_fcol in
  xs = [1; 3; 5] /\ src_c14_disabled 0 1 1 = false /\ (2 <= length xs)%nat /\ (Z.of_nat (length xs) < 2 ^ 53)%Z /\
  var_finite a = true /\ NU (sumR xs / INR (length xs)) /\ var_NU xs (INR (length xs)) /\
  Forall fmt xs /\ fmt (INR (length xs) - 1) /\
  fdone ex_feps 0 1 1 a = ex_fst /\
  col_scale_finite MStandard ex_fst (ffin_entries ex_fcol) = true /\ 0 <= FR (f_div MStandard ex_fst) /\
  scale_NU (FR (f_mean ex_fst)) (FR (f_div MStandard ex_fst)) xs /\
  var_ex xs 3 = 4 /\ FR (f_mean ex_fst) = 3 /\ FR (f_stdev ex_fst) = 2 /\
  map FR (fscale_col MStandard ex_fst (ffin_entries ex_fcol)) = [-1; 0; 1].
Proof. exact ex2_nonvacuous. Qed.

(* 30 / 31 / 32 with small dyadics: x = 5 in [1, 5], m = mu = 3, delta = 0; var = vc = 4, sd = 2; one product 2 * 3 + 1 *)
Example C14_fl2_nonvacuous_real :
  fmt 5 /\ fmt 3 /\ 0 <= / 4 /\ 1 <= 5 <= 5 /\ 1 <= 3 <= 5 /\ Rabs (3 - 3) <= 0 /\
  0 <= 4 /\ Rabs (4 - 4) <= 0 /\ Rabs 0 <= u /\ 2 = sqrt 4 * (1 + 0) /\ 0 < 2 /\ NU (/ 2) /\
  (let t := SLeaf 6 in length [2] = length [3] /\ (1 <= length [2])%nat /\ Permutation (sleaves t) (prods1 [2] [3]) /\
   NU_prods1 [2] [3] /\ fmt 1).
Proof. exact ex2_nonvacuous_real. Qed.

(* ===================================================================================================================== *)
(* The wrappers of src/linear.cpp (exact arithmetic, thin compositions over the model of nano::upscale / scale / upscale) *)
(* ===================================================================================================================== *)
From LNGen Require Import Src_dlinear.
From LN Require Import C14_WrapDefs C14_Wrap.
Local Open Scope Q_scope.

(* 33. the translated mode arguments: ::fit trains with the model's linear::scaling parameter and calls nano::upscale with
       that mode for BOTH the inputs and the targets; do_predict / evaluate run their iterator with scaling_type::none *)
Theorem C14_wrap_modes : forall p, fit_mode_f p = p /\ fit_mode_t p = p /\ train_mode p = p /\ predict_mode = MNone /\
  mode_of_Z src_c14l_evaluate_mode = MNone.
Proof. exact wrap_modes. Qed.
Print Assumptions C14_wrap_modes.

(* 34. for EVERY (W, b) in scaled space (whatever the solver returned), every mode pair, every statistics with inverse
       (de)normalisers: linear_t::predict of the stored model on a finite raw row = the up-scaled outputs of (W, b) on the
       scaled row *)
Theorem C14_wrap_predict_finite : forall fm tm fs ts W b x, shaped (length fs) ts W b -> length x = length fs ->
  Forall2 Qeq (wrap_predict fs (lin_store fm tm fs ts W b) (map Some x)) (ref_predict fm tm fs ts W b (map Some x)).
Proof. exact wrap_predict_finite. Qed.
Print Assumptions C14_wrap_predict_finite.

(* 35. missing raw inputs: do_predict reads them as 0 in RAW space, i.e. as scale(0) = -offset * div in scaled space, NOT as
       the scaled zero the training iterator used; the exact discrepancy per output is
       (sum over the missing columns of w_j * scaling_b_j) / scaling_w_target *)
Theorem C14_wrap_predict_missing : forall fm tm fs ts W b raw, shaped (length fs) ts W b -> length raw = length fs ->
  Forall2 Qeq (wrap_predict fs (lin_store fm tm fs ts W b) raw)
              (qadd_list (ref_predict fm tm fs ts W b raw) (miss_terms fm tm fs ts W raw)).
Proof. exact wrap_predict_missing. Qed.
Print Assumptions C14_wrap_predict_missing.

Theorem C14_wrap_predict_missing_is_raw_zero : forall fm tm fs ts W b raw,
  shaped (length fs) ts W b -> length raw = length fs ->
  Forall2 Qeq (wrap_predict fs (lin_store fm tm fs ts W b) raw)
              (ref_predict fm tm fs ts W b (map Some (zero_missing raw))).
Proof. exact wrap_predict_missing_is_raw_zero. Qed.
Print Assumptions C14_wrap_predict_missing_is_raw_zero.

Theorem C14_wrap_predict_missing_none : forall tm fs ts W b raw, shaped (length fs) ts W b -> length raw = length fs ->
  Forall2 Qeq (wrap_predict fs (lin_store MNone tm fs ts W b) raw) (ref_predict MNone tm fs ts W b raw).
Proof. exact wrap_predict_missing_none. Qed.
Print Assumptions C14_wrap_predict_missing_none.

(* "missing -> 0 in scaled space" is FALSE of the predictor (an observation, not a violation: the property's predictor clause
   is stated on raw finite inputs, its missing-value clause is about scaling): witness = mean scaling of [1; 3; 5] *)
Theorem C14_wrap_missing_scaled_zero_refuted : exists fm tm fs ts W b raw,
  shaped (length fs) ts W b /\ length raw = length fs /\
  ~ Forall2 Qeq (wrap_predict fs (lin_store fm tm fs ts W b) raw) (ref_predict fm tm fs ts W b raw).
Proof. exact wrap_missing_refuted. Qed.
Print Assumptions C14_wrap_missing_scaled_zero_refuted.

Example C14_wrap_nonvacuous :
  shaped (length [wx_stats]) [stats_off 3] [[1]] [0] /\ length [Some 5] = length [wx_stats] /\
  Forall2 Qeq (wrap_predict [wx_stats] (lin_store MMean MNone [wx_stats] [stats_off 3] [[1]] [0]) [Some 5]) [1 # 2] /\
  Forall2 Qeq (ref_predict MMean MNone [wx_stats] [stats_off 3] [[1]] [0] [Some 5]) [1 # 2] /\
  Forall2 Qeq (wrap_predict [wx_stats] (lin_store MMean MNone [wx_stats] [stats_off 3] [[1]] [0]) [None]) [- (3 # 4)] /\
  Forall2 Qeq (ref_predict MMean MNone [wx_stats] [stats_off 3] [[1]] [0] [None]) [0].
Proof. exact wrap_nonvacuous. Qed.
