(* C12 (extension) -- sample_from_ball in binary64 (Flocq), the bridge from the executable PrimFloat twin
   (C12_Float_Defs.v) to the standard model, and the floating-point count of gboost::sampler_t.

   Sections 1-4 are COPIED from coq/theories/C14_Float.v (sections 1, 2, 5 and 6 there: the standard model of rounding,
   accumulated relative errors `g`/`approx`, summation in any order `sum_any_order`, the PrimFloat bridge `fin_add`,
   `fin_mul`, `fin_div`, `fin_sqrt`, `rnd_abs_le`, `fmt_IZR`).  They are copied rather than imported because C14_Float.v
   also requires C14's translated kernels (Src_dstats, Src_dstatsf) and C14's models: importing it would make C12's
   proof check fail whenever src/dataset/stats.cpp changes.  The statements are unchanged (C14_fl_sum_any_order,
   C14_fl_gamma, C14_fl_bridge in Properties_C14.v); C09_fp_tree_sum (C09_Real.v) is the same fact for C09's trees and
   would drag in C06/C09/C17.

   5. vectors: Cauchy-Schwarz and the triangle inequality of the 2-norm on lists
   6. the norm: any reduction tree over the rounded squares, then a correctly rounded square root
   7. the ball: element-wise part in the standard model
   8. the PrimFloat twin
   9. the shape is the translated source expression; a binary64 point outside the ball
   10. gboost::sampler_t's count *)
From Coq Require Import ZArith Reals Lra Lia Psatz List Bool Floats Permutation.
From Flocq Require Import Core Relative Plus_error BinarySingleNaN.
From Flocq Require PrimFloat.
From LNGen Require Import Src_sampling Src_gbsampler.
From LN Require Import C12_Statements C12_Float_Defs.
Import ListNotations.
Local Open Scope R_scope.

(* ------------------------------------------------------------------------------------------------------------------- *)
(* 1. the standard model (copied from C14_Float.v, section 1)                                                         *)
(* ------------------------------------------------------------------------------------------------------------------- *)
Definition fexp64 : Z -> Z := FLT_exp (-1074) 53.
Definition rnd (x : R) : R := round radix2 fexp64 ZnearestE x.
Definition fmt (x : R) : Prop := generic_format radix2 fexp64 x.
Definition u : R := bpow radix2 (-53).
Definition eta : R := bpow radix2 (-1075).
(* no underflow: zero, or at least the smallest normal number *)
Definition NU (t : R) : Prop := t = 0 \/ bpow radix2 (-1022) <= Rabs t.

Local Instance prec53_gt_0 : Prec_gt_0 53. Proof. reflexivity. Qed.
Local Instance fexp64_valid : Valid_exp fexp64. Proof. apply FLT_exp_valid. reflexivity. Qed.
Local Instance rndNE_valid : Valid_rnd ZnearestE. Proof. apply valid_rnd_N. Qed.

Lemma u_val : u = / 9007199254740992.
Proof. unfold u. change (-53)%Z with (- (53))%Z. rewrite bpow_opp. f_equal. all: simpl; try reflexivity; try lra. Qed.
Lemma u_pos : 0 < u. Proof. apply bpow_gt_0. Qed.
Lemma u_small : u <= / 1024. Proof. rewrite u_val. lra. Qed.
Lemma eta_pos : 0 < eta. Proof. apply bpow_gt_0. Qed.
Lemma u_ro_is_u : u_ro radix2 53 = u.
Proof.
  unfold u_ro, u. change (-53)%Z with (-1 + (-53 + 1))%Z. rewrite (bpow_plus radix2 (-1) (-53 + 1)).
  simpl. lra.
Qed.
Lemma half_emin_is_eta : / 2 * bpow radix2 (-1074) = eta.
Proof. unfold eta. change (-1075)%Z with (-1 + -1074)%Z. rewrite (bpow_plus radix2 (-1) (-1074)). simpl. lra. Qed.

Lemma rnd_0 : rnd 0 = 0. Proof. apply round_0; apply rndNE_valid. Qed.
Lemma rnd_fmt x : fmt (rnd x). Proof. apply generic_format_round; auto with typeclass_instances. Qed.
Lemma rnd_id x : fmt x -> rnd x = x. Proof. apply round_generic; auto with typeclass_instances. Qed.
Lemma rnd_le x y : x <= y -> rnd x <= rnd y. Proof. apply round_le; auto with typeclass_instances. Qed.
Lemma rnd_ge_0 x : 0 <= x -> 0 <= rnd x. Proof. intros H. rewrite <- rnd_0. now apply rnd_le. Qed.
Lemma rnd_le_0 x : x <= 0 -> rnd x <= 0. Proof. intros H. rewrite <- rnd_0. now apply rnd_le. Qed.
Lemma fmt_0 : fmt 0. Proof. apply generic_format_0. Qed.
Lemma fmt_opp x : fmt x -> fmt (- x). Proof. apply generic_format_opp. Qed.
Lemma rnd_opp x : rnd (- x) = - rnd x. Proof. apply round_NE_opp. Qed.
Lemma fmt_1 : fmt 1.
Proof.
  change 1 with (bpow radix2 0). apply generic_format_bpow. unfold fexp64, FLT_exp. simpl. lia.
Qed.

(* (a) any real: relative error u and absolute error eta *)
Lemma model_any t : exists e h, Rabs e <= u /\ Rabs h <= eta /\ rnd t = t * (1 + e) + h.
Proof.
  destruct (relative_error_N_FLT'_ex radix2 (-1074) 53 prec53_gt_0 (fun x => negb (Z.even x)) t)
    as (e & h & He & Hh & _ & Hr).
  exists e, h. split; [|split].
  - eapply Rle_trans; [exact He|]. rewrite <- u_ro_is_u. apply u_rod1pu_ro_le_u_ro.
  - now rewrite <- half_emin_is_eta.
  - exact Hr.
Qed.

(* (b) no underflow: relative error only *)
Lemma model_NU t : NU t -> exists e, Rabs e <= u /\ rnd t = t * (1 + e).
Proof.
  intros [Z|N].
  - exists 0. subst t. rewrite rnd_0, Rabs_R0. split; [apply Rlt_le, u_pos|ring].
  - destruct (relative_error_N_FLT_ex radix2 (-1074) 53 prec53_gt_0 (fun x => negb (Z.even x)) t) as (e & He & Hr).
    + exact N.
    + exists e. split; [|exact Hr]. fold (u_ro radix2 53) in He. now rewrite u_ro_is_u in He.
Qed.

(* (c) sum / difference of two numbers of the format: relative error only (a subnormal sum is exact) *)
Lemma model_add a b : fmt a -> fmt b -> exists e, Rabs e <= u /\ rnd (a + b) = (a + b) * (1 + e).
Proof.
  intros Fa Fb.
  destruct (FLT_plus_error_N_ex radix2 (-1074) 53 (fun x => negb (Z.even x)) a b Fa Fb) as (e & He & Hr).
  exists e. split; [|exact Hr].
  eapply Rle_trans; [exact He|]. rewrite <- u_ro_is_u. apply u_rod1pu_ro_le_u_ro.
Qed.
Lemma model_sub a b : fmt a -> fmt b -> exists e, Rabs e <= u /\ rnd (a - b) = (a - b) * (1 + e).
Proof. intros Fa Fb. apply (model_add a (- b)); [exact Fa|now apply fmt_opp]. Qed.

(* sharper relative bound u / (1 + u) when there is no underflow (needed for the tie-free rounding near 1) *)
Lemma model_NU_sharp t : NU t -> exists e, Rabs e <= u / (1 + u) /\ rnd t = t * (1 + e).
Proof.
  intros [Z|N].
  - exists 0. subst t. rewrite rnd_0, Rabs_R0. split; [|ring].
    apply Rmult_le_pos; [apply Rlt_le, u_pos|]. apply Rlt_le, Rinv_0_lt_compat. pose proof u_pos. lra.
  - destruct (relative_error_N_FLX'_ex radix2 53 prec53_gt_0 (fun x => negb (Z.even x)) t) as (e & He & Hr).
    exists e. rewrite u_ro_is_u in He. split; [exact He|].
    unfold rnd, fexp64. rewrite <- Hr. apply round_FLT_FLX. exact N.
Qed.

(* ------------------------------------------------------------------------------------------------------------------- *)
(* 2. accumulated relative errors (copied from C14_Float.v, section 2)                                                *)
(* ------------------------------------------------------------------------------------------------------------------- *)
(* g n = (1 + u)^n - 1  (= n u + O(u^2); at most n u / (1 - n u) when n u < 1) *)
Definition g (n : nat) : R := (1 + u) ^ n - 1.

Lemma g_0 : g 0 = 0. Proof. unfold g. simpl. ring. Qed.
Lemma g_S n : g (S n) = g n * (1 + u) + u. Proof. unfold g. simpl. ring. Qed.
Lemma g_nonneg n : 0 <= g n.
Proof. induction n; [rewrite g_0; lra|]. rewrite g_S. pose proof u_pos. nra. Qed.
Lemma g_le_S n : g n <= g (S n).
Proof. rewrite g_S. pose proof u_pos. pose proof (g_nonneg n). nra. Qed.
Lemma g_mono n m : (n <= m)%nat -> g n <= g m.
Proof. induction 1; [lra|]. eapply Rle_trans; [exact IHle|apply g_le_S]. Qed.
Lemma g_1 : g 1 = u. Proof. unfold g. simpl. ring. Qed.
Lemma g_plus n m : g (n + m) = g n * (1 + u) ^ m + g m.
Proof. unfold g. rewrite pow_add. ring. Qed.

(* the classical constant: g n <= n u / (1 - n u) as long as n u < 1 *)
Lemma g_le_gamma n : INR n * u < 1 -> g n <= INR n * u / (1 - INR n * u).
Proof.
  induction n; intros H.
  - rewrite g_0. simpl. lra.
  - rewrite g_S. rewrite S_INR in *. pose proof u_pos. pose proof (pos_INR n).
    assert (Hn : INR n * u < 1) by nra. specialize (IHn Hn).
    set (a := INR n * u) in *. assert (0 <= a) by (unfold a; nra).
    replace ((INR n + 1) * u) with (a + u) in * by (unfold a; ring).
    apply Rle_trans with (a / (1 - a) * (1 + u) + u); [nra|].
    apply Rmult_le_reg_r with ((1 - a) * (1 - (a + u))); [nra|].
    field_simplify; [|lra|lra]. nra.
Qed.

(* y approximates Y = (a sum of terms of total magnitude at most M) after at most k roundings of each term *)
Definition approx (k : nat) (y Y M : R) : Prop := Rabs (y - Y) <= g k * M /\ Rabs Y <= M.

Lemma approx_M_nonneg k y Y M : approx k y Y M -> 0 <= M.
Proof. intros [_ H]. pose proof (Rabs_pos Y). lra. Qed.
Lemma approx_exact Y : approx 0 Y Y (Rabs Y).
Proof. split; [|lra]. rewrite g_0. replace (Y - Y) with 0 by ring. rewrite Rabs_R0. lra. Qed.
Lemma approx_weaken k k' y Y M M' : (k <= k')%nat -> M <= M' -> approx k y Y M -> approx k' y Y M'.
Proof.
  intros Hk HM [H1 H2]. split; [|lra].
  pose proof (g_mono _ _ Hk). pose proof (g_nonneg k). pose proof (Rabs_pos Y). nra.
Qed.
Lemma approx_round k y Y M e : Rabs e <= u -> approx k y Y M -> approx (S k) (y * (1 + e)) Y M.
Proof.
  intros He [H1 H2]. split; [|exact H2].
  replace (y * (1 + e) - Y) with ((y - Y) * (1 + e) + e * Y) by ring.
  eapply Rle_trans; [apply Rabs_triang|]. rewrite !Rabs_mult, g_S.
  assert (H3 : Rabs (1 + e) <= 1 + u).
  { eapply Rle_trans; [apply Rabs_triang|]. rewrite Rabs_R1. lra. }
  pose proof (Rabs_pos (y - Y)). pose proof (Rabs_pos (1 + e)). pose proof (Rabs_pos e). pose proof (Rabs_pos Y).
  pose proof (g_nonneg k). pose proof u_pos.
  assert (Rabs (y - Y) * Rabs (1 + e) <= g k * M * (1 + u)) by (apply Rmult_le_compat; lra).
  assert (Rabs e * Rabs Y <= u * M) by (apply Rmult_le_compat; lra).
  lra.
Qed.
Lemma approx_add k y1 Y1 M1 y2 Y2 M2 :
  approx k y1 Y1 M1 -> approx k y2 Y2 M2 -> approx k (y1 + y2) (Y1 + Y2) (M1 + M2).
Proof.
  intros [A1 A2] [B1 B2]. split.
  - replace (y1 + y2 - (Y1 + Y2)) with ((y1 - Y1) + (y2 - Y2)) by ring.
    eapply Rle_trans; [apply Rabs_triang|]. lra.
  - eapply Rle_trans; [apply Rabs_triang|]. lra.
Qed.

(* ------------------------------------------------------------------------------------------------------------------- *)
(* 3. summation in any order (copied from C14_Float.v, section 5)                                                     *)
(* ------------------------------------------------------------------------------------------------------------------- *)
(* a summation order = a binary tree whose leaves are the (already rounded) products; every inner node rounds *)
Inductive stree := SLeaf (p : R) | SNode (l r : stree).

Fixpoint sfl (t : stree) : R := match t with SLeaf p => p | SNode l r => rnd (sfl l + sfl r) end.
Fixpoint sleaves (t : stree) : list R := match t with SLeaf p => [p] | SNode l r => sleaves l ++ sleaves r end.
Fixpoint rsum (l : list R) : R := match l with [] => 0 | x :: r => x + rsum r end.
Definition rabssum (l : list R) : R := rsum (map Rabs l).

Lemma rsum_app a b : rsum (a ++ b) = rsum a + rsum b.
Proof. induction a; simpl; [ring|rewrite IHa; ring]. Qed.
Lemma rabssum_app a b : rabssum (a ++ b) = rabssum a + rabssum b.
Proof. unfold rabssum. now rewrite map_app, rsum_app. Qed.
Lemma rsum_perm a b : Permutation a b -> rsum a = rsum b.
Proof. induction 1; simpl; try lra. Qed.
Lemma rabssum_perm a b : Permutation a b -> rabssum a = rabssum b.
Proof. intros H. unfold rabssum. apply rsum_perm. now apply Permutation_map. Qed.
Lemma rabssum_nonneg l : 0 <= rabssum l.
Proof. unfold rabssum. induction l; simpl; [lra|]. pose proof (Rabs_pos a). lra. Qed.
Lemma rsum_abs_le l : Rabs (rsum l) <= rabssum l.
Proof.
  unfold rabssum. induction l; simpl; [rewrite Rabs_R0; lra|].
  eapply Rle_trans; [apply Rabs_triang|]. lra.
Qed.
Lemma sleaves_length_pos t : (1 <= length (sleaves t))%nat.
Proof. induction t; simpl; [lia|]. rewrite app_length. lia. Qed.
Lemma sfl_fmt t : Forall fmt (sleaves t) -> fmt (sfl t).
Proof. destruct t; simpl; intros H; [now inversion H|apply rnd_fmt]. Qed.

(* the computed sum of n numbers of the format, in any order, is within g (n - 1) * sum |p_i| of the exact sum *)
Lemma sum_tree_approx t : Forall fmt (sleaves t) ->
  approx (length (sleaves t) - 1) (sfl t) (rsum (sleaves t)) (rabssum (sleaves t)).
Proof.
  induction t as [p|l IHl r IHr]; intros F.
  - simpl. unfold rabssum. simpl. rewrite !Rplus_0_r. apply approx_exact.
  - simpl in *. apply Forall_app in F. destruct F as [Fl Fr].
    specialize (IHl Fl). specialize (IHr Fr).
    destruct (model_add _ _ (sfl_fmt l Fl) (sfl_fmt r Fr)) as (e & He & E). rewrite E.
    rewrite app_length, rsum_app, rabssum_app.
    pose proof (sleaves_length_pos l). pose proof (sleaves_length_pos r).
    replace (length (sleaves l) + length (sleaves r) - 1)%nat
      with (S (length (sleaves l) + length (sleaves r) - 2))%nat by lia.
    apply approx_round; [exact He|]. apply approx_add.
    + eapply approx_weaken; [| |exact IHl]; [lia|lra].
    + eapply approx_weaken; [| |exact IHr]; [lia|lra].
Qed.

Theorem sum_any_order t ps : Forall fmt ps -> Permutation (sleaves t) ps ->
  Rabs (sfl t - rsum ps) <= g (length ps - 1) * rabssum ps.
Proof.
  intros F P.
  assert (F' : Forall fmt (sleaves t)).
  { apply Forall_forall. intros x Hx. rewrite Forall_forall in F. apply F. eapply Permutation_in; eauto. }
  destruct (sum_tree_approx t F') as [H _].
  rewrite (Permutation_length P), (rsum_perm _ _ P), (rabssum_perm _ _ P) in H. exact H.
Qed.

(* ------------------------------------------------------------------------------------------------------------------- *)
(* 4. bridge: Coq's primitive binary64 operations on finite values (copied from C14_Float.v, sections 6 and 9)        *)
(* ------------------------------------------------------------------------------------------------------------------- *)
From Flocq Require Import PrimFloat.

Definition FR (a : PrimFloat.float) : R := B2R (Prim2B a).
Definition fin (a : PrimFloat.float) : Prop := PrimFloat.is_finite a = true.

Lemma FR_fmt a : fmt (FR a).
Proof. unfold FR. exact (generic_format_B2R prec emax (Prim2B a)). Qed.
Lemma FR_lt_emax a : Rabs (FR a) < bpow radix2 1024.
Proof. unfold FR. exact (abs_B2R_lt_emax prec emax (Prim2B a)). Qed.
Lemma FR_one : FR fone = 1.
Proof. unfold FR. change fone with one. rewrite one_equiv, Prim2B_B2Prim. apply Bone_correct. Qed.
Lemma FR_zero : FR fzero = 0.
Proof. unfold FR. change fzero with zero. rewrite zero_equiv, Prim2B_B2Prim. reflexivity. Qed.
Lemma overflow_not_finite (x : binary_float prec emax) s :
  B2SF x = binary_overflow prec emax mode_NE s -> BinarySingleNaN.is_finite x = false.
Proof. intros H. rewrite <- is_finite_SF_B2SF, H. reflexivity. Qed.

(* a finite result is the rounding of the exact result; a result whose rounding is below 2^1024 is finite *)
Lemma fin_add a b : fin a -> fin b ->
  (fin (PrimFloat.add a b) -> FR (PrimFloat.add a b) = rnd (FR a + FR b)) /\
  (Rabs (rnd (FR a + FR b)) < bpow radix2 1024 -> fin (PrimFloat.add a b)).
Proof.
  unfold fin, FR. rewrite !is_finite_equiv, add_equiv. intros Fa Fb.
  generalize (Bplus_correct prec emax Hprec Hmax mode_NE _ _ Fa Fb).
  change (round radix2 (fexp prec emax) (round_mode mode_NE)) with rnd. change (bpow radix2 emax) with (bpow radix2 1024).
  case Rlt_bool_spec; intros C H.
  - destruct H as (H1 & H2 & _). split; intros; assumption.
  - destruct H as (H & _). rewrite (overflow_not_finite _ _ H). split; [discriminate|intros; lra].
Qed.
Lemma fin_mul a b : fin a -> fin b ->
  (fin (PrimFloat.mul a b) -> FR (PrimFloat.mul a b) = rnd (FR a * FR b)) /\
  (Rabs (rnd (FR a * FR b)) < bpow radix2 1024 -> fin (PrimFloat.mul a b)).
Proof.
  unfold fin, FR. rewrite !is_finite_equiv, mul_equiv. intros Fa Fb.
  generalize (Bmult_correct prec emax Hprec Hmax mode_NE (Prim2B a) (Prim2B b)).
  change (round radix2 (fexp prec emax) (round_mode mode_NE)) with rnd. change (bpow radix2 emax) with (bpow radix2 1024).
  case Rlt_bool_spec; intros C H.
  - destruct H as (H1 & H2 & _). rewrite Fa, Fb in H2. split; intros; assumption.
  - rewrite (overflow_not_finite _ _ H). split; [discriminate|intros; lra].
Qed.
Lemma fin_div a b : fin a -> fin b -> FR b <> 0 ->
  (fin (PrimFloat.div a b) -> FR (PrimFloat.div a b) = rnd (FR a / FR b)) /\
  (Rabs (rnd (FR a / FR b)) < bpow radix2 1024 -> fin (PrimFloat.div a b)).
Proof.
  unfold fin, FR. rewrite !is_finite_equiv, div_equiv. intros Fa Fb Nb.
  generalize (Bdiv_correct prec emax Hprec Hmax mode_NE (Prim2B a) (Prim2B b) Nb).
  change (round radix2 (fexp prec emax) (round_mode mode_NE)) with rnd. change (bpow radix2 emax) with (bpow radix2 1024).
  case Rlt_bool_spec; intros C H.
  - destruct H as (H1 & H2 & _). rewrite Fa in H2. split; intros; assumption.
  - rewrite (overflow_not_finite _ _ H). split; [discriminate|intros; lra].
Qed.

Lemma fin_ltb a b : fin a -> fin b -> (PrimFloat.ltb a b = true <-> FR a < FR b).
Proof.
  unfold fin, FR. rewrite !is_finite_equiv, ltb_equiv. intros Fa Fb. rewrite (Bltb_correct _ _ _ _ Fa Fb).
  case Rlt_bool_spec; intros; split; intros; try lra; try discriminate; reflexivity.
Qed.

Lemma FR_SF x : FR x = SF2R radix2 (Prim2SF x).
Proof. unfold FR, Prim2B. apply B2R_SF2B. Qed.
Lemma fmt_bpow e : (-1074 <= e)%Z -> fmt (bpow radix2 e).
Proof. intros H. apply generic_format_bpow. unfold fexp64, FLT_exp. lia. Qed.

Lemma rnd_abs_le x y : fmt y -> Rabs x <= y -> Rabs (rnd x) <= y.
Proof. intros Fy H. apply abs_round_le_generic; auto with typeclass_instances. Qed.

Lemma fmt_IZR n : (Z.abs n < 2 ^ 53)%Z -> fmt (IZR n).
Proof.
  intros H. apply generic_format_FLT. exists (Float radix2 n 0).
  - unfold F2R. simpl. ring.
  - simpl. exact H.
  - simpl. lia.
Qed.
Lemma fin_sqrt a : fin a -> 0 <= FR a ->
  fin (PrimFloat.sqrt a) /\ FR (PrimFloat.sqrt a) = rnd (R_sqrt.sqrt (FR a)).
Proof.
  unfold fin, FR. rewrite !is_finite_equiv, sqrt_equiv. intros Fa Pa.
  destruct (Bsqrt_correct prec emax Hprec Hmax mode_NE (Prim2B a)) as (H1 & H2 & _).
  split; [|exact H1]. rewrite H2.
  destruct (Prim2B a) as [s|s| |s m e Hb]; try discriminate; try reflexivity.
  destruct s; [|reflexivity]. exfalso. simpl in Pa.
  assert (F2R (Float radix2 (Zneg m) e) < 0) by (apply F2R_lt_0; simpl; lia). lra.
Qed.

(* from here on `sqrt` is the real square root again (Flocq's PrimFloat module shadows the name) *)
Local Notation sqrt := R_sqrt.sqrt (only parsing).
Local Notation Rabs := Rbasic_fun.Rabs (only parsing).

(* ------------------------------------------------------------------------------------------------------------------- *)
(* 5. vectors: Cauchy-Schwarz and the triangle inequality of the 2-norm on lists                                      *)
(* ------------------------------------------------------------------------------------------------------------------- *)
Fixpoint dot (a b : list R) : R := match a, b with x :: a', y :: b' => x * y + dot a' b' | _, _ => 0 end.

Lemma norm2_nonneg v : 0 <= norm2 v. Proof. apply sqrt_pos. Qed.
Lemma norm2_sq v : norm2 v * norm2 v = sumsq v. Proof. apply sqrt_sqrt, sumsq_nonneg. Qed.
Lemma sumsq_abs v : sumsq (map Rabs v) = sumsq v.
Proof. induction v as [|x v IH]; cbn [map sumsq]; [reflexivity|]. rewrite IH, <- Rabs_mult, Rabs_pos_eq; [reflexivity|nra]. Qed.
Lemma norm2_abs v : norm2 (map Rabs v) = norm2 v. Proof. unfold norm2. now rewrite sumsq_abs. Qed.

Lemma cauchy_schwarz a : forall b, dot a b <= norm2 a * norm2 b.
Proof.
  induction a as [|x a IH]; intros [|y b]; cbn [dot];
    try (apply Rmult_le_pos; apply norm2_nonneg).
  specialize (IH b).
  pose proof (norm2_nonneg a) as Pa. pose proof (norm2_nonneg b) as Pb.
  pose proof (norm2_sq a) as Sa. pose proof (norm2_sq b) as Sb.
  destruct (Rle_or_lt (x * y + dot a b) 0) as [N|P].
  - eapply Rle_trans; [exact N|]. apply Rmult_le_pos; apply norm2_nonneg.
  - unfold norm2 at 1 2. cbn [sumsq]. rewrite <- sqrt_mult by (pose proof (sumsq_nonneg a); pose proof (sumsq_nonneg b); nra).
    rewrite <- (sqrt_square (x * y + dot a b)) by lra. apply sqrt_le_1_alt.
    rewrite <- Sa, <- Sb.
    set (sa := norm2 a) in *. set (sb := norm2 b) in *. set (D := dot a b) in *. clearbody sa sb D.
    assert (H1 : (x * y + D) * (x * y + D) <= (x * y + sa * sb) * (x * y + sa * sb)) by nra.
    assert (H2 : 0 <= (x * sb - y * sa) * (x * sb - y * sa)) by (apply Rle_0_sqr).
    nra.
Qed.

(* component-wise |d_k| <= alpha |b_k| + beta |a_k| *)
Fixpoint comp_bound (alpha beta : R) (d b a : list R) : Prop :=
  match d, b, a with
  | x :: d', y :: b', w :: a' => Rabs x <= alpha * Rabs y + beta * Rabs w /\ comp_bound alpha beta d' b' a'
  | [], [], [] => True
  | _, _, _ => False
  end.

Lemma comp_bound_sumsq alpha beta : 0 <= alpha -> 0 <= beta -> forall d b a, comp_bound alpha beta d b a ->
  sumsq d <= alpha * alpha * sumsq b + 2 * alpha * beta * dot (map Rabs b) (map Rabs a) + beta * beta * sumsq a.
Proof.
  intros Ha Hb. induction d as [|x d IH]; intros [|y b] [|w a] H; cbn in H; try contradiction.
  - cbn. lra.
  - destruct H as [H1 H2]. specialize (IH _ _ H2). cbn [sumsq map dot].
    pose proof (Rabs_pos x). pose proof (Rabs_pos y). pose proof (Rabs_pos w).
    assert (E : x * x = Rabs x * Rabs x) by (rewrite <- Rabs_mult, Rabs_pos_eq; [reflexivity|nra]).
    assert (Ey : y * y = Rabs y * Rabs y) by (rewrite <- Rabs_mult, Rabs_pos_eq; [reflexivity|nra]).
    assert (Ew : w * w = Rabs w * Rabs w) by (rewrite <- Rabs_mult, Rabs_pos_eq; [reflexivity|nra]).
    rewrite E, Ey, Ew.
    assert (Rabs x * Rabs x <= (alpha * Rabs y + beta * Rabs w) * (alpha * Rabs y + beta * Rabs w)) by nra.
    nra.
Qed.

(* the triangle inequality in the form needed: ||d|| <= alpha ||b|| + beta ||a|| *)
Lemma comp_bound_norm alpha beta d b a : 0 <= alpha -> 0 <= beta -> comp_bound alpha beta d b a ->
  norm2 d <= alpha * norm2 b + beta * norm2 a.
Proof.
  intros Ha Hb H. pose proof (comp_bound_sumsq alpha beta Ha Hb d b a H) as S.
  pose proof (cauchy_schwarz (map Rabs b) (map Rabs a)) as CS. rewrite !norm2_abs in CS.
  pose proof (norm2_nonneg a) as Pa. pose proof (norm2_nonneg b) as Pb.
  pose proof (norm2_sq a) as Sa. pose proof (norm2_sq b) as Sb.
  unfold norm2 at 1.
  rewrite <- (sqrt_square (alpha * norm2 b + beta * norm2 a)) by nra.
  apply sqrt_le_1_alt. rewrite <- Sa, <- Sb in S.
  assert (0 <= alpha * beta) by nra.
  assert (2 * alpha * beta * dot (map Rabs b) (map Rabs a) <= 2 * alpha * beta * (norm2 b * norm2 a)) by nra.
  nra.
Qed.

(* ------------------------------------------------------------------------------------------------------------------- *)
(* 6. the norm: x.lpNorm<2>() = sqrt (squaredNorm): the rounded squares added in ANY order, then a rounded sqrt       *)
(* ------------------------------------------------------------------------------------------------------------------- *)
(* `us` are the normal deviates (the constant `u` is the unit roundoff 2^-53) *)
Definition squares (us : list R) : list R := map (fun b => rnd (b * b)) us.

Lemma squares_length us : length (squares us) = length us. Proof. apply map_length. Qed.
Lemma squares_fmt us : Forall fmt (squares us).
Proof. unfold squares. apply Forall_forall. intros x Hx. apply in_map_iff in Hx. destruct Hx as (b & <- & _). apply rnd_fmt. Qed.

Lemma squares_bounds us : Forall (fun b => NU (b * b)) us ->
  (1 - u) * sumsq us <= rsum (squares us) <= (1 + u) * sumsq us /\ rabssum (squares us) = rsum (squares us).
Proof.
  unfold rabssum, squares. induction 1 as [|b us N _ IH]; cbn [map rsum sumsq]; [split; [lra|reflexivity]|].
  destruct IH as [IH1 IH2].
  destruct (model_NU _ N) as (e & He & E).
  assert (P : 0 <= b * b) by nra.
  assert (Q : 0 <= rnd (b * b)) by now apply rnd_ge_0.
  apply Rabs_le_inv in He. split.
  - rewrite E. split; nra.
  - rewrite (Rabs_pos_eq _ Q). now rewrite IH2.
Qed.

(* what any reduction order returns for the squared norm: at least (1 - g n) S, at most (1 + g n) S *)
Lemma sqnorm_any_tree t us : Permutation (sleaves t) (squares us) -> Forall (fun b => NU (b * b)) us -> (1 <= length us)%nat ->
  (1 - g (length us)) * sumsq us <= sfl t <= (1 + g (length us)) * sumsq us.
Proof.
  intros P N L.
  pose proof (sum_any_order t (squares us) (squares_fmt us) P) as H. rewrite squares_length in H.
  destruct (squares_bounds us N) as [[B1 B2] B3]. rewrite B3 in H.
  apply Rabs_le_inv in H.
  assert (EG : g (length us) = g (length us - 1) * (1 + u) + u).
  { replace (length us) with (S (length us - 1)) at 1 by lia. apply g_S. }
  rewrite EG.
  pose proof (g_nonneg (length us - 1)) as G. pose proof u_pos as U. pose proof (sumsq_nonneg us) as S0.
  set (gm := g (length us - 1)) in *. clearbody gm. set (S := sumsq us) in *. clearbody S.
  set (r := rsum (squares us)) in *. clearbody r.
  assert (gm * r <= gm * ((1 + u) * S)) by nra.
  split; nra.
Qed.

Lemma sqrt_fmt_pos_NU s : fmt s -> 0 < s -> NU (sqrt s).
Proof.
  intros F P. right.
  assert (B : bpow radix2 (-1074) <= s).
  { apply (generic_format_ge_bpow radix2 fexp64 (-1074)); [|exact P|exact F].
    intros e. unfold fexp64, FLT_exp. lia. }
  rewrite Rabs_pos_eq by apply sqrt_pos.
  apply Rle_trans with (bpow radix2 (-537)); [apply bpow_le; lia|].
  change (-1074)%Z with (2 * -537)%Z in B. rewrite <- (sqrt_bpow radix2 (-537)). now apply sqrt_le_1_alt.
Qed.

(* the lower bound on the computed norm that the ball theorem needs *)
Definition norm_lower (n : nat) (S nrm : R) : Prop := sqrt S * ((1 - u) * sqrt (1 - g n)) <= nrm.

Theorem norm_any_tree t us : Permutation (sleaves t) (squares us) -> Forall (fun b => NU (b * b)) us ->
  0 < sumsq us -> g (length us) < 1 ->
  let nrm := rnd (sqrt (sfl t)) in
  norm_lower (length us) (sumsq us) nrm /\ nrm <= sqrt (sumsq us) * ((1 + u) * sqrt (1 + g (length us))) /\ 0 < nrm.
Proof.
  intros P N S0 G nrm.
  assert (L : (1 <= length us)%nat).
  { destruct us; [cbn in S0; lra|cbn; lia]. }
  destruct (sqnorm_any_tree t us P N L) as [B1 B2].
  pose proof (g_nonneg (length us)) as G0. pose proof u_pos as U. pose proof u_small as U1.
  assert (Ps : 0 < sfl t) by nra.
  assert (Ft : fmt (sfl t)).
  { apply sfl_fmt. apply Forall_forall. intros x Hx. pose proof (squares_fmt us) as F. rewrite Forall_forall in F.
    apply F. eapply Permutation_in; eauto. }
  destruct (model_NU _ (sqrt_fmt_pos_NU _ Ft Ps)) as (e & He & E). apply Rabs_le_inv in He.
  assert (Q1 : sqrt ((1 - g (length us)) * sumsq us) <= sqrt (sfl t)) by now apply sqrt_le_1_alt.
  assert (Q2 : sqrt (sfl t) <= sqrt ((1 + g (length us)) * sumsq us)) by now apply sqrt_le_1_alt.
  rewrite sqrt_mult in Q1 by lra. rewrite sqrt_mult in Q2 by lra.
  pose proof (sqrt_pos (1 - g (length us))) as R1. pose proof (sqrt_lt_R0 _ S0) as R2.
  pose proof (sqrt_pos (1 + g (length us))) as R3. pose proof (sqrt_lt_R0 _ Ps) as R4.
  unfold norm_lower, nrm. rewrite E.
  set (a := sqrt (1 - g (length us))) in *. set (b := sqrt (sumsq us)) in *. set (c := sqrt (1 + g (length us))) in *.
  set (s := sqrt (sfl t)) in *. clearbody a b c s.
  repeat split; nra.
Qed.

(* ------------------------------------------------------------------------------------------------------------------- *)
(* 7. the ball: the element-wise part in the standard model                                                           *)
(* ------------------------------------------------------------------------------------------------------------------- *)
(* x_k = rnd (a_k + rnd (rnd (rnd (radius * z) * b_k) / nrm)) *)
Definition fl_comp (radius z nrm a b : R) : R := rnd (a + rnd (rnd (rnd (radius * z) * b) / nrm)).
Fixpoint fl_ball (x0 us : list R) (radius z nrm : R) : list R :=
  match x0, us with
  | a :: x0', b :: us' => fl_comp radius z nrm a b :: fl_ball x0' us' radius z nrm
  | _, _ => []
  end.

(* no underflow in the product and in the quotient of one component *)
Definition comp_NU (rz nrm b : R) : Prop := NU (rz * b) /\ NU (rnd (rz * b) / nrm).

Lemma abs_1pe e : Rabs e <= u -> Rabs (1 + e) <= 1 + u.
Proof. intros H. eapply Rle_trans; [apply Rabs_triang|]. rewrite Rabs_R1. lra. Qed.

Lemma fl_comp_bound radius z nrm a b : fmt a -> 0 < nrm -> 0 <= rnd (radius * z) -> comp_NU (rnd (radius * z)) nrm b ->
  Rabs (fl_comp radius z nrm a b - a) <= ((1 + u) ^ 3 * rnd (radius * z) / nrm) * Rabs b + u * Rabs a.
Proof.
  intros Fa Pn Prz [N1 N2]. unfold fl_comp. set (rz := rnd (radius * z)) in *. clearbody rz.
  destruct (model_NU _ N1) as (e1 & He1 & E1). destruct (model_NU _ N2) as (e2 & He2 & E2).
  destruct (model_add a (rnd (rnd (rz * b) / nrm)) Fa (rnd_fmt _)) as (e3 & He3 & E3).
  rewrite E3, E2, E1.
  replace ((a + rz * b * (1 + e1) / nrm * (1 + e2)) * (1 + e3) - a)
    with ((rz / nrm * b) * ((1 + e1) * (1 + e2) * (1 + e3)) + a * e3) by (field; lra).
  eapply Rle_trans; [apply Rabs_triang|]. rewrite !Rabs_mult.
  pose proof (abs_1pe _ He1) as A1. pose proof (abs_1pe _ He2) as A2. pose proof (abs_1pe _ He3) as A3.
  pose proof (Rabs_pos (1 + e1)). pose proof (Rabs_pos (1 + e2)). pose proof (Rabs_pos (1 + e3)).
  pose proof (Rabs_pos a). pose proof (Rabs_pos b). pose proof (Rabs_pos e3). pose proof u_pos.
  assert (Q : 0 <= rz / nrm) by (apply Rmult_le_pos; [lra|apply Rlt_le, Rinv_0_lt_compat; lra]).
  rewrite (Rabs_pos_eq _ Q).
  assert (T : Rabs (1 + e1) * Rabs (1 + e2) * Rabs (1 + e3) <= (1 + u) ^ 3).
  { simpl. rewrite Rmult_1_r.
    assert (Rabs (1 + e1) * Rabs (1 + e2) <= (1 + u) * (1 + u)) by (apply Rmult_le_compat; lra).
    rewrite <- Rmult_assoc. apply Rmult_le_compat; try lra. apply Rmult_le_pos; lra. }
  assert (T2 : rz / nrm * Rabs b * (Rabs (1 + e1) * Rabs (1 + e2) * Rabs (1 + e3)) <= rz / nrm * Rabs b * (1 + u) ^ 3).
  { apply Rmult_le_compat_l; [apply Rmult_le_pos; lra|exact T]. }
  assert (T3 : Rabs a * Rabs e3 <= u * Rabs a) by nra.
  replace ((1 + u) ^ 3 * rz / nrm * Rabs b) with (rz / nrm * Rabs b * (1 + u) ^ 3) by (unfold Rdiv; ring).
  lra.
Qed.

Lemma fl_ball_length x0 : forall us radius z nrm, length x0 = length us -> length (fl_ball x0 us radius z nrm) = length x0.
Proof. induction x0 as [|a x0 IH]; intros [|b us] radius z nrm H; cbn in *; try reflexivity; try discriminate. f_equal. apply IH. congruence. Qed.

Lemma fl_ball_comp_bound radius z nrm : 0 < nrm -> 0 <= rnd (radius * z) -> forall x0 us,
  length x0 = length us -> Forall fmt x0 -> Forall (comp_NU (rnd (radius * z)) nrm) us ->
  comp_bound ((1 + u) ^ 3 * rnd (radius * z) / nrm) u (vsub (fl_ball x0 us radius z nrm) x0) us x0.
Proof.
  intros Pn Prz. induction x0 as [|a x0 IH]; intros [|b us] L F N; cbn in L; try discriminate.
  - exact I.
  - inversion F as [|? ? Fa F']; subst. inversion N as [|? ? Nb N']; subst.
    cbn [fl_ball vsub comp_bound]. split; [now apply fl_comp_bound|]. apply IH; [congruence|assumption|assumption].
Qed.

(* (A) whatever value the norm reduction returned *)
Theorem ball_fl_any_norm x0 us radius z nrm :
  length x0 = length us -> Forall fmt x0 -> 0 < nrm -> 0 <= rnd (radius * z) ->
  Forall (comp_NU (rnd (radius * z)) nrm) us ->
  norm2 (vsub (fl_ball x0 us radius z nrm) x0) <= (1 + u) ^ 3 * rnd (radius * z) / nrm * norm2 us + u * norm2 x0.
Proof.
  intros L F Pn Prz N. apply comp_bound_norm.
  - pose proof u_pos. assert (0 < (1 + u) ^ 3) by (apply pow_lt; lra).
    unfold Rdiv. apply Rmult_le_pos; [apply Rmult_le_pos; lra|apply Rlt_le, Rinv_0_lt_compat; lra].
  - apply Rlt_le, u_pos.
  - now apply fl_ball_comp_bound.
Qed.

Lemma rz_bounds radius z : fmt radius -> 0 < radius -> 0 <= z <= 1 -> 0 <= rnd (radius * z) <= radius.
Proof.
  intros F P Z. split; [apply rnd_ge_0; nra|].
  rewrite <- (rnd_id radius F) at 2. apply rnd_le. nra.
Qed.

Lemma inv_sqrt_1m x : 0 <= x <= / 2 -> 1 <= sqrt (1 - x) * (1 + x).
Proof.
  intros H.
  assert (Q : / (1 + x) <= sqrt (1 - x)).
  { rewrite <- (sqrt_square (/ (1 + x))) by (apply Rlt_le, Rinv_0_lt_compat; lra).
    apply sqrt_le_1_alt. apply Rmult_le_reg_r with ((1 + x) * (1 + x)); [nra|].
    replace (/ (1 + x) * / (1 + x) * ((1 + x) * (1 + x))) with 1 by (field; lra). nra. }
  apply Rmult_le_reg_r with (/ (1 + x)); [apply Rinv_0_lt_compat; lra|].
  replace (sqrt (1 - x) * (1 + x) * / (1 + x)) with (sqrt (1 - x)) by (field; lra). lra.
Qed.

(* (B) with the norm any reduction order returns: radius (1 + u)^(n + 5) + u |x0| *)
Theorem ball_fl_R x0 us radius z nrm :
  length x0 = length us -> Forall fmt x0 -> fmt radius -> 0 < radius -> 0 <= z <= 1 ->
  0 < sumsq us -> g (length us) <= / 2 -> norm_lower (length us) (sumsq us) nrm ->
  Forall (comp_NU (rnd (radius * z)) nrm) us ->
  norm2 (vsub (fl_ball x0 us radius z nrm) x0) <= radius * (1 + g (length us + 5)) + u * norm2 x0.
Proof.
  intros L F Fr Pr Z S0 G NL N.
  destruct (rz_bounds radius z Fr Pr Z) as [R0 R1].
  pose proof u_pos as U. pose proof u_small as U1. pose proof (g_nonneg (length us)) as G0.
  pose proof (inv_sqrt_1m (g (length us)) (conj G0 G)) as I1.
  pose proof (sqrt_lt_R0 _ S0) as PS. fold (norm2 us) in PS.
  unfold norm_lower in NL. fold (norm2 us) in NL.
  assert (I2 : 1 <= (1 - u) * ((1 + u) * (1 + u))) by nra.
  assert (Psq : 0 < sqrt (1 - g (length us))) by (apply sqrt_lt_R0; lra).
  assert (Pn : 0 < nrm).
  { eapply Rlt_le_trans; [|exact NL]. apply Rmult_lt_0_compat; [exact PS|]. apply Rmult_lt_0_compat; lra. }
  eapply Rle_trans; [apply ball_fl_any_norm; assumption|].
  apply Rplus_le_compat_r.
  (* norm2 us <= nrm * (1 + u)^2 * (1 + g n) *)
  assert (K : norm2 us <= nrm * ((1 + u) * (1 + u) * (1 + g (length us)))).
  { set (c1 := 1 - u) in *. set (c2 := sqrt (1 - g (length us))) in *. set (gn := g (length us)) in *.
    set (s := norm2 us) in *. clearbody c2 gn s.
    assert (s * 1 <= s * (c1 * ((1 + u) * (1 + u)) * (c2 * (1 + gn)))).
    { apply Rmult_le_compat_l; [lra|]. assert (1 * 1 <= c1 * ((1 + u) * (1 + u)) * (c2 * (1 + gn))) by (apply Rmult_le_compat; lra). lra. }
    assert (0 <= (1 + u) * (1 + u) * (1 + gn)) by nra.
    assert (s * (c1 * c2) * ((1 + u) * (1 + u) * (1 + gn)) <= nrm * ((1 + u) * (1 + u) * (1 + gn))) by (apply Rmult_le_compat_r; lra).
    lra. }
  assert (E : 1 + g (length us + 5) = (1 + u) ^ 3 * ((1 + u) * (1 + u) * (1 + g (length us)))).
  { unfold g. rewrite pow_add. simpl. ring. }
  rewrite E.
  assert (P3 : 0 < (1 + u) ^ 3) by (apply pow_lt; lra).
  replace ((1 + u) ^ 3 * rnd (radius * z) / nrm * norm2 us) with ((1 + u) ^ 3 * (rnd (radius * z) * (norm2 us / nrm))) by (field; lra).
  assert (K2 : norm2 us / nrm <= (1 + u) * (1 + u) * (1 + g (length us))).
  { apply Rmult_le_reg_r with nrm; [exact Pn|]. replace (norm2 us / nrm * nrm) with (norm2 us) by (field; lra). lra. }
  assert (K3 : 0 <= norm2 us / nrm) by (apply Rmult_le_pos; [lra|apply Rlt_le, Rinv_0_lt_compat; lra]).
  assert (M : rnd (radius * z) * (norm2 us / nrm) <= radius * ((1 + u) * (1 + u) * (1 + g (length us)))) by (apply Rmult_le_compat; lra).
  replace (radius * ((1 + u) ^ 3 * ((1 + u) * (1 + u) * (1 + g (length us)))))
    with ((1 + u) ^ 3 * (radius * ((1 + u) * (1 + u) * (1 + g (length us))))) by ring.
  apply Rmult_le_compat_l; lra.
Qed.

(* the explicit constant: (n + 5) u / (1 - (n + 5) u), at most 2 (n + 5) u while (n + 5) u <= 1/4 *)
Lemma ball_constant n : INR (n + 5) * u <= / 4 -> g n <= / 2 /\ g (n + 5) <= INR (n + 5) * u / (1 - INR (n + 5) * u) /\
  g (n + 5) <= 2 * (INR (n + 5) * u).
Proof.
  intros H. pose proof u_pos as U. pose proof (pos_INR (n + 5)) as P.
  assert (G : g (n + 5) <= INR (n + 5) * u / (1 - INR (n + 5) * u)) by (apply g_le_gamma; lra).
  assert (G2 : INR (n + 5) * u / (1 - INR (n + 5) * u) <= 2 * (INR (n + 5) * u)).
  { set (k := INR (n + 5) * u) in *. assert (0 <= k) by (unfold k; nra).
    apply Rmult_le_reg_r with (1 - k); [lra|]. replace (k / (1 - k) * (1 - k)) with k by (field; lra). nra. }
  repeat split; try lra.
  apply Rle_trans with (g (n + 5)); [apply g_mono; lia|]. lra.
Qed.

(* ------------------------------------------------------------------------------------------------------------------- *)
(* 8. the PrimFloat twin                                                                                              *)
(* ------------------------------------------------------------------------------------------------------------------- *)
Lemma fin_one : fin fone. Proof. reflexivity. Qed.
Lemma fin_zero : fin fzero. Proof. reflexivity. Qed.

Lemma fin_leb a b : fin a -> fin b -> (PrimFloat.leb a b = true <-> FR a <= FR b).
Proof.
  unfold fin, FR. rewrite !is_finite_equiv, leb_equiv. intros Fa Fb. rewrite (Bleb_correct _ _ _ _ Fa Fb).
  case Rle_bool_spec; intros; split; intros; try lra; try discriminate; reflexivity.
Qed.
Lemma fin_eqb a b : fin a -> fin b -> (PrimFloat.eqb a b = true <-> FR a = FR b).
Proof.
  unfold fin, FR. rewrite !is_finite_equiv, eqb_equiv. intros Fa Fb. rewrite (Beqb_correct _ _ _ _ Fa Fb).
  case Req_bool_spec; intros; split; intros; try lra; try discriminate; try reflexivity; try contradiction.
Qed.
Lemma fin_abs a : fin a -> fin (PrimFloat.abs a) /\ FR (PrimFloat.abs a) = Rabs (FR a).
Proof. unfold fin, FR. rewrite !is_finite_equiv, abs_equiv, is_finite_Babs, B2R_Babs. intros Fa. split; [exact Fa|reflexivity]. Qed.

Lemma FR_ftiny : fin ftiny /\ FR ftiny = bpow radix2 (-1021).
Proof.
  split; [reflexivity|]. rewrite FR_SF. vm_compute (Prim2SF ftiny). unfold SF2R, F2R. cbn [Fnum Fexp cond_Zopp].
  replace (IZR (Z.pos 4503599627370496)) with (bpow radix2 52) by (simpl; lra).
  rewrite <- bpow_plus. reflexivity.
Qed.

Lemma is_zero_FR t : fin t -> is_zero t = true -> FR t = 0.
Proof. intros F H. unfold is_zero in H. apply (fin_eqb t fzero F fin_zero) in H. now rewrite FR_zero in H. Qed.

Lemma big_enough_FR t : fin t -> big_enough t = true -> bpow radix2 (-1021) <= Rabs (FR t).
Proof.
  intros F H. unfold big_enough in H. destruct (fin_abs t F) as [Fa Ea]. destruct FR_ftiny as [Ft Et].
  apply (fin_leb _ _ Ft Fa) in H. now rewrite Et, Ea in H.
Qed.

Lemma rnd_big_NU t : bpow radix2 (-1021) <= Rabs (rnd t) -> NU t.
Proof.
  intros H. right. destruct (Rle_or_lt (bpow radix2 (-1022)) (Rabs t)) as [G|G]; [exact G|exfalso].
  assert (Rabs (rnd t) <= bpow radix2 (-1022)) by (apply rnd_abs_le; [apply fmt_bpow; lia|lra]).
  assert (bpow radix2 (-1022) < bpow radix2 (-1021)) by (apply bpow_lt; lia). lra.
Qed.

Lemma NU_0 : NU 0. Proof. now left. Qed.

(* one component: the twin computes fl_comp and the executable no-underflow test implies comp_NU *)
Lemma comp_twin radius z nrm a b : fin radius -> fin z -> fin nrm -> fin (PrimFloat.mul radius z) -> FR nrm <> 0 ->
  comp_finite radius z nrm a b = true -> comp_nu radius z nrm b = true ->
  FR (ball_comp radius z nrm a b) = fl_comp (FR radius) (FR z) (FR nrm) (FR a) (FR b) /\
  comp_NU (rnd (FR radius * FR z)) (FR nrm) (FR b).
Proof.
  intros Fr Fz Fn Frz Nn CF CN. unfold comp_finite, finb in CF. rewrite !andb_true_iff in CF.
  destruct CF as ((((Fa & Fb) & Fp) & Fq) & Fx).
  pose proof (proj1 (fin_mul radius z Fr Fz) Frz) as Erz.
  pose proof (proj1 (fin_mul _ b Frz Fb) Fp) as Ep.
  pose proof (proj1 (fin_div _ nrm Fp Fn Nn) Fq) as Eq.
  assert (Ex : FR (ball_comp radius z nrm a b) = rnd (FR a + FR (PrimFloat.div (PrimFloat.mul (PrimFloat.mul radius z) b) nrm))).
  { apply (proj1 (fin_add a _ Fa Fq)). exact Fx. }
  split.
  - rewrite Ex, Eq, Ep, Erz. reflexivity.
  - unfold comp_nu in CN. rewrite andb_true_iff, !orb_true_iff in CN. destruct CN as [C1 C2]. rewrite <- Erz. split.
    + destruct C1 as [[C|C]|C].
      * rewrite (is_zero_FR _ Frz C), Rmult_0_l. apply NU_0.
      * rewrite (is_zero_FR _ Fb C), Rmult_0_r. apply NU_0.
      * apply rnd_big_NU. rewrite <- Ep. now apply big_enough_FR.
    + rewrite <- Ep. destruct C2 as [C|C].
      * rewrite (is_zero_FR _ Fp C). unfold Rdiv. rewrite Rmult_0_l. apply NU_0.
      * apply rnd_big_NU. rewrite <- Eq. now apply big_enough_FR.
Qed.

Lemma comps_twin radius z nrm : fin radius -> fin z -> fin nrm -> fin (PrimFloat.mul radius z) -> FR nrm <> 0 ->
  forall x0 us, comps_ok x0 us radius z nrm = true ->
  length x0 = length us /\
  map FR (ball_twin x0 us radius z nrm) = fl_ball (map FR x0) (map FR us) (FR radius) (FR z) (FR nrm) /\
  Forall (comp_NU (rnd (FR radius * FR z)) (FR nrm)) (map FR us).
Proof.
  intros Fr Fz Fn Frz Nn. induction x0 as [|a x0 IH]; intros [|b us] H; cbn [comps_ok] in H; try discriminate.
  - repeat split. constructor.
  - rewrite !andb_true_iff in H. destruct H as [[CF CN] H]. destruct (IH _ H) as (L & E & N).
    destruct (comp_twin radius z nrm a b Fr Fz Fn Frz Nn CF CN) as [E1 N1].
    cbn [length map ball_twin fl_ball]. split; [congruence|]. split; [now rewrite E1, E|now constructor].
Qed.

Lemma map_FR_fmt l : Forall fmt (map FR l).
Proof. apply Forall_forall. intros x Hx. apply in_map_iff in Hx. destruct Hx as (a & <- & _). apply FR_fmt. Qed.

(* the bound for the values the library's binary64 code produces (given the deviates, z and the norm of the run) *)
Theorem ball_twin_bound x0 us radius z nrm :
  ball_ok x0 us radius z nrm = true ->
  0 < sumsq (map FR us) -> g (length us) <= / 2 -> norm_lower (length us) (sumsq (map FR us)) (FR nrm) ->
  length (ball_twin x0 us radius z nrm) = length x0 /\
  norm2 (vsub (map FR (ball_twin x0 us radius z nrm)) (map FR x0))
    <= FR radius * (1 + g (length us + 5)) + u * norm2 (map FR x0).
Proof.
  intros OK S0 G NL. unfold ball_ok, finb in OK. rewrite !andb_true_iff in OK.
  destruct OK as ((((((((Fr & Fz) & Fn) & Frz) & Pr) & Z0) & Z1) & Pn) & CS).
  apply (fin_ltb _ _ fin_zero Fr) in Pr. apply (fin_leb _ _ fin_zero Fz) in Z0. apply (fin_leb _ _ Fz fin_one) in Z1.
  apply (fin_ltb _ _ fin_zero Fn) in Pn. rewrite FR_zero in *. rewrite FR_one in Z1.
  assert (Nn : FR nrm <> 0) by lra.
  destruct (comps_twin radius z nrm Fr Fz Fn Frz Nn x0 us CS) as (L & E & N).
  split.
  - rewrite <- (map_length FR), E, fl_ball_length, map_length; [reflexivity|now rewrite !map_length].
  - rewrite E. replace (length us) with (length (map FR us)) in * by apply map_length.
    apply ball_fl_R; try assumption.
    + rewrite map_length. exact L.
    + apply map_FR_fmt.
    + apply FR_fmt.
    + split; assumption.
Qed.

(* the rounded squares of the deviates are what `squares` says, and they did not underflow *)
Lemma squares_twin us : squares_nu us = true ->
  Forall (fun b => NU (b * b)) (map FR us) /\ map FR (map (fun b => PrimFloat.mul b b) us) = squares (map FR us).
Proof.
  unfold squares_nu, finb. induction us as [|b us IH]; cbn [forallb map squares]; intros H; [split; [constructor|reflexivity]|].
  rewrite !andb_true_iff, orb_true_iff in H. destruct H as [[[Fb C] Fp] H]. destruct (IH H) as [N E].
  pose proof (proj1 (fin_mul b b Fb Fb) Fp) as Ep. split.
  - constructor; [|exact N]. destruct C as [C|C].
    + rewrite (is_zero_FR _ Fb C), Rmult_0_l. apply NU_0.
    + apply rnd_big_NU. rewrite <- Ep. now apply big_enough_FR.
  - unfold squares in E. now rewrite Ep, E.
Qed.

(* ------------------------------------------------------------------------------------------------------------------- *)
(* 9. the shape is the translated source expression; a binary64 point outside the ball                               *)
(* ------------------------------------------------------------------------------------------------------------------- *)
(* the operator tree shared by the twin and the Z instance is the expression of sampling.cpp (translated on every run) *)
Lemma shape_is_source : forall x0 radius z b nrm sq n1 ninf : Z,
  ball_shape zops x0 radius z b nrm = src_ball_point x0 radius z b nrm sq n1 ninf.
Proof. reflexivity. Qed.
Lemma twin_is_shape : forall radius z nrm a b,
  ball_comp radius z nrm a b = PrimFloat.add a (PrimFloat.div (PrimFloat.mul (PrimFloat.mul radius z) b) nrm) /\
  ball_comp radius z nrm a b = ball_shape fops a radius z b nrm.
Proof. intros. split; reflexivity. Qed.

(* "inside the ball" is false in binary64: radius 1e6, z = 1 - 2^-53 < 1, centre 0, two deviates; the norm is computed
   as sqrt (u0*u0 + u1*u1) with every operation rounded (one of the admissible reduction orders) *)
Definition wit_tree : stree :=
  SNode (SLeaf (rnd (FR (nth 0 wit_u fzero) * FR (nth 0 wit_u fzero)))) (SLeaf (rnd (FR (nth 1 wit_u fzero) * FR (nth 1 wit_u fzero)))).

Lemma wit_nrm_is_tree : fin wit_nrm /\ FR wit_nrm = rnd (sqrt (sfl wit_tree)) /\
  sleaves wit_tree = squares (map FR wit_u).
Proof.
  set (a := nth 0 wit_u fzero). set (b := nth 1 wit_u fzero).
  assert (Fa : fin a) by reflexivity. assert (Fb : fin b) by reflexivity.
  assert (Faa : fin (PrimFloat.mul a a)) by reflexivity. assert (Fbb : fin (PrimFloat.mul b b)) by reflexivity.
  assert (Fs : fin (PrimFloat.add (PrimFloat.mul a a) (PrimFloat.mul b b))) by reflexivity.
  pose proof (proj1 (fin_mul a a Fa Fa) Faa) as Ea. pose proof (proj1 (fin_mul b b Fb Fb) Fbb) as Eb.
  pose proof (proj1 (fin_add _ _ Faa Fbb) Fs) as Es.
  assert (Ps : 0 <= FR (PrimFloat.add (PrimFloat.mul a a) (PrimFloat.mul b b))).
  { rewrite Es. apply rnd_ge_0. rewrite Ea, Eb. apply Rplus_le_le_0_compat; apply rnd_ge_0; nra. }
  destruct (fin_sqrt _ Fs Ps) as [Fq Eq].
  split; [exact Fq|]. split; [|reflexivity].
  unfold wit_nrm. fold a b. rewrite Eq, Es, Ea, Eb. reflexivity.
Qed.

Lemma wit_outside :
  ball_ok wit_x0 wit_u wit_radius wit_z wit_nrm = true /\ squares_nu wit_u = true /\ FR wit_z < 1 /\
  FR wit_radius < norm2 (vsub (map FR (ball_twin wit_x0 wit_u wit_radius wit_z wit_nrm)) (map FR wit_x0)).
Proof.
  split; [vm_compute; reflexivity|]. split; [vm_compute; reflexivity|]. split.
  - rewrite FR_SF. vm_compute (Prim2SF wit_z). unfold SF2R, F2R. cbn [Fnum Fexp cond_Zopp]. simpl bpow. lra.
  - set (r := ball_twin wit_x0 wit_u wit_radius wit_z wit_nrm). vm_compute in r.
    unfold r, wit_x0. cbn [map vsub]. rewrite FR_zero. unfold norm2. cbn [sumsq].
    rewrite !FR_SF.
    match goal with |- context [Prim2SF ?a] => let v := eval vm_compute in (Prim2SF a) in change (Prim2SF a) with v end.
    match goal with |- context [Prim2SF ?a] => let v := eval vm_compute in (Prim2SF a) in change (Prim2SF a) with v end.
    match goal with |- context [Prim2SF ?a] => let v := eval vm_compute in (Prim2SF a) in change (Prim2SF a) with v end.
    unfold SF2R, F2R. cbn [Fnum Fexp cond_Zopp Z.opp]. simpl bpow.
    repeat match goal with |- context [Z.pow_pos ?a ?b] => let v := eval vm_compute in (Z.pow_pos a b) in change (Z.pow_pos a b) with v end.
    clear r. match goal with |- ?R < sqrt ?S => assert (H0 : 0 <= R) by lra; rewrite <- (sqrt_square R) by exact H0 end.
    apply sqrt_lt_1_alt. split; [apply Rmult_le_pos; exact H0|lra].
Qed.

(* ------------------------------------------------------------------------------------------------------------------- *)
(* 10. gboost::sampler_t: count = static_cast<tensor_size_t>(m_ratio * static_cast<scalar_t>(m_samples.size()))      *)
(* ------------------------------------------------------------------------------------------------------------------- *)
Lemma count_shape_is_source : forall ratio size : Z, count_shape zops ratio size = src_gb_count_product ratio size.
Proof. reflexivity. Qed.

(* static_cast<tensor_size_t> of a finite double: truncation toward zero *)
Lemma trunc_float_correct x : fin x -> trunc_float x = Ztrunc (FR x).
Proof.
  unfold fin, trunc_float, FR. rewrite is_finite_equiv, <- B2SF_Prim2B.
  destruct (Prim2B x) as [s|s| |s m e Hb]; cbn [B2SF BinarySingleNaN.is_finite B2R]; intros F; try discriminate.
  - symmetry. apply (Ztrunc_IZR 0).
  - unfold F2R. cbn [Fnum Fexp].
    assert (Pm : 0 <= IZR (Z.pos m)) by (apply IZR_le; lia).
    destruct (Z.leb_spec 0 e) as [He|He].
    + rewrite <- (IZR_Zpower radix2 e He), <- mult_IZR, Ztrunc_IZR.
      change (radix2 ^ e)%Z with (2 ^ e)%Z. destruct s; cbn [cond_Zopp]; lia.
    + assert (E : bpow radix2 e = / IZR (2 ^ (- e))).
      { replace e with (- (- e))%Z at 1 by lia. rewrite bpow_opp. f_equal. rewrite <- (IZR_Zpower radix2 (- e)) by lia. reflexivity. }
      assert (P2 : (0 < 2 ^ (- e))%Z) by (apply Z.pow_pos_nonneg; lia).
      assert (T : Ztrunc (IZR (Z.pos m) * bpow radix2 e) = (Z.pos m / 2 ^ (- e))%Z).
      { rewrite E. fold (IZR (Z.pos m) / IZR (2 ^ (- e))). rewrite Ztrunc_floor.
        - apply Zfloor_div. lia.
        - apply Rmult_le_pos; [exact Pm|]. apply Rlt_le, Rinv_0_lt_compat. apply IZR_lt. exact P2. }
      destruct s; cbn [cond_Zopp].
      * rewrite opp_IZR, Ropp_mult_distr_l_reverse, Ztrunc_opp, T. reflexivity.
      * rewrite T. reflexivity.
Qed.

(* static_cast<scalar_t>(n) is exact below 2^53 (copied from C14_Float.v, float_of_count_ok) *)
Lemma float_of_size_ok n : (0 <= n < 2 ^ 53)%Z -> fin (float_of_size n) /\ FR (float_of_size n) = IZR n.
Proof.
  intros H. unfold float_of_size, fin, FR. rewrite is_finite_equiv, of_int63_equiv.
  assert (E : Uint63.to_Z (Uint63.of_Z n) = n).
  { rewrite Uint63.of_Z_spec. apply Z.mod_small. split; [lia|]. eapply Z.lt_trans; [apply H|]. reflexivity. }
  rewrite E.
  generalize (binary_normalize_correct prec emax Hprec Hmax mode_NE n 0 false).
  change (round radix2 (fexp prec emax) (round_mode mode_NE)) with rnd. change (bpow radix2 emax) with (bpow radix2 1024).
  assert (X : F2R (Float radix2 n 0) = IZR n) by (unfold F2R; simpl; ring).
  cbv zeta. rewrite X. rewrite (rnd_id (IZR n)) by (apply fmt_IZR; rewrite Z.abs_eq; lia).
  rewrite Rlt_bool_true.
  - intros (H1 & H2 & _). split; assumption.
  - rewrite Rabs_pos_eq by (apply IZR_le; lia). apply Rlt_trans with (bpow radix2 53); [|apply bpow_lt; reflexivity].
    replace (bpow radix2 53) with (IZR (2 ^ 53)) by (rewrite <- (IZR_Zpower radix2 53); [reflexivity|discriminate]).
    apply IZR_lt; lia.
Qed.

(* the count follows the binary64 product: floor of the ROUNDED product; it never exceeds n for a ratio in [0, 1] *)
Theorem gb_count_general ratio n : fin ratio -> 0 <= FR ratio <= 1 -> (0 <= n < 2 ^ 53)%Z ->
  gb_count ratio n = Zfloor (rnd (FR ratio * IZR n)) /\ (0 <= gb_count ratio n <= n)%Z.
Proof.
  intros Fr [R0 R1] Hn. destruct (float_of_size_ok n Hn) as [Fn En].
  assert (Pn : 0 <= IZR n) by (apply IZR_le; lia).
  assert (Fmtn : fmt (IZR n)) by (apply fmt_IZR; rewrite Z.abs_eq; lia).
  assert (B0 : 0 <= rnd (FR ratio * IZR n)) by (apply rnd_ge_0; nra).
  assert (B1 : rnd (FR ratio * IZR n) <= IZR n) by (rewrite <- (rnd_id _ Fmtn) at 2; apply rnd_le; nra).
  destruct (fin_mul ratio (float_of_size n) Fr Fn) as [E F]. rewrite En in E, F.
  assert (Fp : fin (PrimFloat.mul ratio (float_of_size n))).
  { apply F. rewrite Rabs_pos_eq by exact B0. eapply Rle_lt_trans; [exact B1|].
    apply Rlt_trans with (bpow radix2 53); [|apply bpow_lt; reflexivity].
    replace (bpow radix2 53) with (IZR (2 ^ 53)) by (rewrite <- (IZR_Zpower radix2 53); [reflexivity|discriminate]).
    apply IZR_lt; lia. }
  assert (EC : gb_count ratio n = Zfloor (rnd (FR ratio * IZR n))).
  { unfold gb_count, count_shape. cbn [o_mul fops]. rewrite (trunc_float_correct _ Fp), (E Fp). now apply Ztrunc_floor. }
  split; [exact EC|]. rewrite EC. split.
  - apply Zfloor_lub. exact B0.
  - rewrite <- (Zfloor_IZR n) at 2. now apply Zfloor_le.
Qed.

(* dyadic ratios k / 2^j: the product is exact while k n < 2^53, so the count is the integer quotient *)
Theorem gb_count_dyadic ratio k j n : fin ratio -> (0 <= j <= 1000)%Z -> FR ratio = IZR k * bpow radix2 (- j) ->
  (0 <= k <= 2 ^ j)%Z -> (0 <= n)%Z -> (k * n < 2 ^ 53)%Z -> (n < 2 ^ 53)%Z ->
  gb_count ratio n = (k * n / 2 ^ j)%Z.
Proof.
  intros Fr Hj Er Hk Hn Hkn Hn2.
  assert (P2 : (0 < 2 ^ j)%Z) by (apply Z.pow_pos_nonneg; lia).
  assert (Bj : bpow radix2 (- j) = / IZR (2 ^ j)).
  { rewrite bpow_opp. f_equal. rewrite <- (IZR_Zpower radix2 j) by lia. reflexivity. }
  assert (R01 : 0 <= FR ratio <= 1).
  { rewrite Er, Bj. assert (0 < IZR (2 ^ j)) by (apply IZR_lt; exact P2).
    assert (0 <= IZR k <= IZR (2 ^ j)) by (split; apply IZR_le; lia).
    split.
    - apply Rmult_le_pos; [lra|]. apply Rlt_le, Rinv_0_lt_compat. lra.
    - apply Rmult_le_reg_r with (IZR (2 ^ j)); [lra|]. rewrite Rmult_assoc, Rinv_l by lra. lra. }
  destruct (gb_count_general ratio n Fr R01 (conj Hn Hn2)) as [E _]. rewrite E.
  assert (X : FR ratio * IZR n = IZR (k * n) * bpow radix2 (- j)) by (rewrite Er, mult_IZR; ring).
  rewrite X, rnd_id.
  - rewrite Bj. fold (IZR (k * n) / IZR (2 ^ j)). apply Zfloor_div. lia.
  - apply generic_format_FLT. exists (Float radix2 (k * n) (- j)).
    + reflexivity.
    + cbn [Fnum]. rewrite Z.abs_eq by nia. exact Hkn.
    + cbn [Fexp]. lia.
Qed.

(* ------------------------------------------------------------------------------------------------------------------- *)
(* 11. the two layers combined: the norm is whatever a reduction tree over the rounded squares returns                *)
(* ------------------------------------------------------------------------------------------------------------------- *)
Theorem ball_fl_tree x0 us radius z t :
  length x0 = length us -> Forall fmt x0 -> fmt radius -> 0 < radius -> 0 <= z <= 1 ->
  Permutation (sleaves t) (squares us) -> Forall (fun b => NU (b * b)) us -> 0 < sumsq us -> g (length us) <= / 2 ->
  let nrm := rnd (sqrt (sfl t)) in
  Forall (comp_NU (rnd (radius * z)) nrm) us ->
  norm2 (vsub (fl_ball x0 us radius z nrm) x0) <= radius * (1 + g (length us + 5)) + u * norm2 x0.
Proof.
  intros L F Fr Pr Z P N S0 G nrm CN.
  assert (G1 : g (length us) < 1) by lra.
  destruct (norm_any_tree t us P N S0 G1) as (NL & _ & _).
  now apply ball_fl_R.
Qed.

(* ------------------------------------------------------------------------------------------------------------------- *)
(* 12. non-vacuity: the witness of section 9 satisfies every hypothesis of the ball theorems; count examples          *)
(* ------------------------------------------------------------------------------------------------------------------- *)
Lemma g2_small : g 2 <= / 2.
Proof. unfold g. pose proof u_pos. pose proof u_small. simpl. nra. Qed.

Lemma wit_hyps :
  let x0 := map FR wit_x0 in let us := map FR wit_u in let radius := FR wit_radius in let z := FR wit_z in
  let nrm := rnd (sqrt (sfl wit_tree)) in
  length x0 = length us /\ Forall fmt x0 /\ fmt radius /\ 0 < radius /\ 0 <= z <= 1 /\
  Permutation (sleaves wit_tree) (squares us) /\ Forall (fun b => NU (b * b)) us /\ 0 < sumsq us /\
  g (length us) <= / 2 /\ g (length us) < 1 /\ Forall (comp_NU (rnd (radius * z)) nrm) us /\
  norm_lower (length us) (sumsq us) nrm /\ 0 < nrm /\ 0 <= rnd (radius * z).
Proof.
  intros x0 us radius z nrm.
  destruct wit_outside as (OK & SQ & Z1 & _). destruct wit_nrm_is_tree as (Fn & En & EL).
  destruct (squares_twin wit_u SQ) as [NU2 _].
  unfold ball_ok, finb in OK. rewrite !andb_true_iff in OK.
  destruct OK as ((((((((Fr & Fz) & Fn') & Frz) & Pr) & Z0) & Z1') & Pn) & CS).
  apply (fin_ltb _ _ fin_zero Fr) in Pr. apply (fin_leb _ _ fin_zero Fz) in Z0. apply (fin_ltb _ _ fin_zero Fn) in Pn.
  rewrite FR_zero in *.
  assert (Nn : FR wit_nrm <> 0) by lra.
  destruct (comps_twin _ _ _ Fr Fz Fn Frz Nn _ _ CS) as (L & _ & N).
  assert (S0 : 0 < sumsq us).
  { unfold us, wit_u. cbn [map sumsq]. rewrite !FR_SF.
    match goal with |- context [Prim2SF ?a] => let v := eval vm_compute in (Prim2SF a) in change (Prim2SF a) with v end.
    match goal with |- context [Prim2SF ?a] => let v := eval vm_compute in (Prim2SF a) in change (Prim2SF a) with v end.
    unfold SF2R, F2R. cbn [Fnum Fexp cond_Zopp Z.opp]. simpl bpow.
    repeat match goal with |- context [Z.pow_pos ?a ?b] => let v := eval vm_compute in (Z.pow_pos a b) in change (Z.pow_pos a b) with v end.
    lra. }
  assert (P : Permutation (sleaves wit_tree) (squares us)) by (rewrite EL; apply Permutation_refl).
  assert (G2 : g (length us) <= / 2) by apply g2_small.
  assert (G1 : g (length us) < 1) by lra.
  destruct (norm_any_tree wit_tree us P NU2 S0 G1) as (NL & _ & PN).
  assert (Lx : length x0 = length us) by (unfold x0, us; rewrite !map_length; exact L).
  assert (Fx : Forall fmt x0) by apply map_FR_fmt.
  assert (Frr : fmt radius) by apply FR_fmt.
  assert (Z01 : 0 <= z <= 1) by (unfold z; lra).
  assert (CN : Forall (comp_NU (rnd (radius * z)) nrm) us) by (unfold nrm; rewrite <- En; exact N).
  assert (Rz : 0 <= rnd (radius * z)) by (apply rnd_ge_0; unfold radius, z; nra).
  repeat split; try assumption; try lra.
Qed.

Lemma gb_count_one n : (0 <= n < 2 ^ 53)%Z -> gb_count fone n = n.
Proof.
  intros H. rewrite (gb_count_dyadic fone 1 0 n fin_one); try lia.
  - rewrite Z.mul_1_l. apply Z.div_1_r.
  - rewrite FR_one. simpl. lra.
Qed.

Lemma FR_ratio_07 : fin ex_ratio_07 /\ FR ex_ratio_07 = 6305039478318694 / 9007199254740992.
Proof.
  split; [reflexivity|]. rewrite FR_SF. vm_compute (Prim2SF ex_ratio_07). unfold SF2R, F2R. cbn [Fnum Fexp cond_Zopp]. simpl bpow.
  repeat match goal with |- context [Z.pow_pos ?a ?b] => let v := eval vm_compute in (Z.pow_pos a b) in change (Z.pow_pos a b) with v end.
  lra.
Qed.

(* the count is the floor of the ROUNDED product: 0.7 * 10 rounds up to 7.0 although double(0.7) * 10 < 7 *)
Lemma gb_count_not_exact_floor : fin ex_ratio_07 /\ 0 <= FR ex_ratio_07 <= 1 /\
  gb_count ex_ratio_07 10 = 7%Z /\ Zfloor (FR ex_ratio_07 * IZR 10) = 6%Z.
Proof.
  destruct FR_ratio_07 as [F E]. split; [exact F|]. split; [rewrite E; lra|]. split; [vm_compute; reflexivity|].
  apply Zfloor_imp. rewrite E. simpl IZR. lra.
Qed.

(* decimal ratios: count(0.29, 100) = 28, not 29 *)
Lemma gb_count_decimal : gb_count ex_ratio_029 100 = 28%Z /\ (29 * 100 / 100 = 29)%Z.
Proof. split; vm_compute; reflexivity. Qed.

Lemma FR_ratio_half : fin ex_ratio_half /\ FR ex_ratio_half = / 2.
Proof.
  split; [reflexivity|]. rewrite FR_SF. vm_compute (Prim2SF ex_ratio_half). unfold SF2R, F2R. cbn [Fnum Fexp cond_Zopp]. simpl. lra.
Qed.
