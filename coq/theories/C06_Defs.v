(* C06 -- values, gradients and convexity flags of losses, benchmark functions and constraints.

   The algebraic objects are written ONCE, over an abstract scalar structure [ops T]; the instance [Qops] is
   executable and extracted (exact rational arithmetic on the doubles the implementation saw), the instance
   [Rops] is the one the theorems of C06_Proofs.v talk about.  The transcendental objects (exp / ln / atan) are
   specified over R only; they are tied to the implementation by per-run [interval] lemmas (see tools/checks/c06.py).

   No proofs in this file. *)
From Coq Require Import ZArith QArith List Bool Reals.
From LNGen Require Import Src_c06.
Import ListNotations.

(* ------------------------------------------------------------------------------------------------ *)
(* scalar structure                                                                                 *)
(* ------------------------------------------------------------------------------------------------ *)
Record ops (T : Type) : Type := mkops {
  o_zero : T;
  o_one : T;
  o_add : T -> T -> T;
  o_sub : T -> T -> T;
  o_mul : T -> T -> T;
  o_opp : T -> T;
  o_ofQ : Q -> T;
  o_ltb : T -> T -> bool }.
Arguments o_zero {T}. Arguments o_one {T}. Arguments o_add {T}. Arguments o_sub {T}. Arguments o_mul {T}.
Arguments o_opp {T}. Arguments o_ofQ {T}. Arguments o_ltb {T}.

Definition Qltb (a b : Q) : bool := negb (Qle_bool b a).
Definition Qops : ops Q := mkops Q 0%Q 1%Q Qplus Qminus Qmult Qopp (fun q => q) Qltb.

Definition Rltb (a b : R) : bool := if Rlt_dec a b then true else false.
Definition Rops : ops R := mkops R 0%R 1%R Rplus Rminus Rmult Ropp Q2R Rltb.

Declare Scope poly_scope.
Delimit Scope poly_scope with P.

Section Poly.
  Context {T : Type} (OP : ops T).
  Local Notation zr := (o_zero OP).
  Local Notation un := (o_one OP).
  Local Notation "x + y" := (o_add OP x y) : poly_scope.
  Local Notation "x - y" := (o_sub OP x y) : poly_scope.
  Local Notation "x * y" := (o_mul OP x y) : poly_scope.
  Local Notation "- x" := (o_opp OP x) : poly_scope.
  Local Notation "x <? y" := (o_ltb OP x y) : poly_scope.
  Local Open Scope poly_scope.
  Definition cst (n : Z) (d : positive) : T := o_ofQ OP (n # d)%Q.
  Definition two : T := cst 2%Z 1%positive.
  Definition half : T := cst 1%Z 2%positive.

  Definition pabs (x : T) : T := if x <? zr then - x else x.
  Definition pmax (a b : T) : T := if a <? b then b else a.
  Definition psgn (x : T) : T := if zr <? x then un else if x <? zr then - un else zr.
  Definition sq (x : T) : T := x * x.
  Definition cube (x : T) : T := x * sq x.
  Definition quartic (x : T) : T := sq (sq x).

  (* lists: everything truncates to the shorter argument *)
  Fixpoint sum2 (k : T -> T -> T) (a x : list T) : T :=
    match a, x with u :: a', v :: x' => k u v + sum2 k a' x' | _, _ => zr end.
  Fixpoint map2 (g : T -> T -> T) (a x : list T) : list T :=
    match a, x with u :: a', v :: x' => g u v :: map2 g a' x' | _, _ => [] end.
  Definition dot (x y : list T) : T := sum2 (o_mul OP) x y.
  Definition vsub (z x : list T) : list T := map2 (o_sub OP) z x.
  Definition vadd (z x : list T) : list T := map2 (o_add OP) z x.
  Definition vscale (c : T) (x : list T) : list T := map (o_mul OP c) x.
  Definition total (x : list T) : T := fold_right (o_add OP) zr x.

  (* ---------------------------------------------------------------------------------------------- *)
  (* per-coefficient loss kernels of include/nano/loss/flatten.h and src/loss/pinball.cpp            *)
  (* (t = target, o = output); the loss of a sample is the sum over its coefficients,                *)
  (* the gradient is coefficient-wise                                                                *)
  (* ---------------------------------------------------------------------------------------------- *)
  Definition k_mse_v (t o : T) : T := half * sq (o - t).
  Definition k_mse_g (t o : T) : T := o - t.
  Definition k_mae_v (t o : T) : T := pabs (o - t).
  Definition k_mae_g (t o : T) : T := psgn (o - t).
  Definition k_hinge_v (t o : T) : T := pmax (un - t * o) zr.
  Definition k_hinge_g (t o : T) : T := (- t) * (psgn (un - t * o) + un) * half.
  Definition k_sqhinge_v (t o : T) : T := sq (pmax (un - t * o) zr).
  Definition k_sqhinge_g (t o : T) : T := (- t) * pmax (un - t * o) zr * two.
  Definition k_pinball_v (alpha t o : T) : T := alpha * pmax (t - o) zr + (un - alpha) * pmax (o - t) zr.
  Definition k_pinball_g (alpha t o : T) : T := (- alpha) + half * (un - psgn (t - o)).

  Definition loss_v (kv : T -> T -> T) (t o : list T) : T := sum2 kv t o.
  Definition loss_g (kg : T -> T -> T) (t o : list T) : list T := map2 kg t o.

  (* error measures of include/nano/loss/error.h *)
  Definition err_absdiff (t o : list T) : T := sum2 (fun a b => pabs (a - b)) t o.
  Fixpoint err_count (eps : T) (t o : list T) : nat :=
    match t, o with a :: t', b :: o' => (if a * b <? eps then S (err_count eps t' o') else err_count eps t' o') | _, _ => O end.
  (* maxCoeff(&idx): the first index of the largest coefficient *)
  Fixpoint argmax_from (best : T) (ibest i : nat) (o : list T) : nat :=
    match o with [] => ibest | v :: o' => if best <? v then argmax_from v i (S i) o' else argmax_from best ibest (S i) o' end.
  Definition argmax (o : list T) : nat := match o with [] => O | v :: o' => argmax_from v O (S O) o' end.
  Definition is_pos_target (t : T) : bool := zr <? t.
  Definition err_sclass (eps : T) (t o : list T) : nat :=
    match t with
    | _ :: _ :: _ => if is_pos_target (nth (argmax o) t zr) then O else S O
    | _ => err_count eps t o
    end.

  (* ---------------------------------------------------------------------------------------------- *)
  (* benchmark functions with a closed algebraic form (src/function/benchmark/*.cpp)                 *)
  (* ---------------------------------------------------------------------------------------------- *)
  Fixpoint weights_from (i : nat) (n : nat) : list T :=
    match n with O => [] | S n' => cst (Z.of_nat i) 1%positive :: weights_from (S i) n' end.
  (* lin_spaced(un, D): un, 2, ..., D *)
  Definition bias1 (x : list T) : list T := weights_from (S O) (length x).
  (* lin_spaced(0.5, D/2): un/2, 2/2, ..., D/2 *)
  Definition biash (x : list T) : list T := map (o_mul OP half) (bias1 x).

  Definition sphere_v (x : list T) : T := dot x x.
  Definition sphere_g (x : list T) : list T := vscale two x.

  Definition axis_v (x : list T) : T := sum2 (fun w u => sq u * w) (bias1 x) x.
  Definition axis_g (x : list T) : list T := map2 (fun w u => two * u * w) (bias1 x) x.

  Definition schumer_v (x : list T) : T := sum2 (fun _ u => quartic u) x x.
  Definition schumer_g (x : list T) : list T := map2 (fun _ u => cst 4%Z 1%positive * cube u) x x.

  Definition chung_v (x : list T) : T := sq (dot x x).
  Definition chung_g (x : list T) : list T := vscale (cst 4%Z 1%positive * dot x x) x.

  Definition sargan_v (x : list T) : T := cst 6%Z 10%positive * dot x x + cst 4%Z 10%positive * sq (dot x x).
  Definition sargan_g (x : list T) : list T := vscale (cst 12%Z 10%positive + cst 16%Z 10%positive * dot x x) x.

  Definition zakharov_v (x : list T) : T :=
    let v := dot x (biash x) in dot x x + sq v + quartic v.
  Definition zakharov_g (x : list T) : list T :=
    let v := dot x (biash x) in vadd (vscale two x) (vscale (two * v + cst 4%Z 1%positive * cube v) (biash x)).

  Definition qing_v (x : list T) : T := sum2 (fun w u => sq (sq u - w)) (bias1 x) x.
  Definition qing_g (x : list T) : list T := map2 (fun w u => cst 4%Z 1%positive * (sq u - w) * u) (bias1 x) x.

  Definition styblinski_v (x : list T) : T := sum2 (fun _ u => quartic u - cst 16%Z 1%positive * sq u + cst 5%Z 1%positive * u) x x.
  Definition styblinski_g (x : list T) : list T := map2 (fun _ u => cst 4%Z 1%positive * cube u - cst 32%Z 1%positive * u + cst 5%Z 1%positive) x x.

  (* chains: sum over adjacent pairs (x_i, x_{i+un}) of phi w_i x_i x_{i+un}; the pair contributes pa to the
     gradient at i and pb at i+un *)
  Fixpoint chain_v (phi : T -> T -> T -> T) (w x : list T) : T :=
    match w, x with
    | wi :: w', a :: ((b :: _) as x') => phi wi a b + chain_v phi w' x'
    | _, _ => zr
    end.
  Fixpoint chain_g (pa pb : T -> T -> T -> T) (carry : T) (w x : list T) : list T :=
    match w, x with
    | wi :: w', a :: ((b :: _) as x') => (carry + pa wi a b) :: chain_g pa pb (pb wi a b) w' x'
    | _, a :: _ => [carry]
    | _, [] => []
    end.
  Definition bias2 (x : list T) : list T := weights_from (S (S O)) (length x).

  Definition trid_v (x : list T) : T :=
    sum2 (fun _ u => sq (u - un)) x x - chain_v (fun _ a b => a * b) (bias2 x) x.
  Definition trid_g (x : list T) : list T :=
    vsub (map2 (fun _ u => two * (u - un)) x x) (chain_g (fun _ a b => b) (fun _ a b => a) zr (bias2 x) x).

  Definition rosen_phi (_ a b : T) : T := cst 100%Z 1%positive * sq (b - a * a) + sq (a - un).
  Definition rosen_pa (_ a b : T) : T := two * (a - un) + cst 100%Z 1%positive * two * (b - a * a) * (cst (-2)%Z 1%positive * a).
  Definition rosen_pb (_ a b : T) : T := cst 100%Z 1%positive * two * (b - a * a).
  Definition rosenbrock_v (x : list T) : T := chain_v rosen_phi (bias2 x) x.
  Definition rosenbrock_g (x : list T) : list T := chain_g rosen_pa rosen_pb zr (bias2 x) x.

  (* dixon-price: (x_0 - un)^2 + sum_{i>=un} (i+un) (2 x_i^2 - x_{i-un})^2 *)
  Definition dixon_phi (w a b : T) : T := w * sq (two * sq b - a).
  Definition dixon_pa (w a b : T) : T := - (w * two * (two * sq b - a)).
  Definition dixon_pb (w a b : T) : T := w * two * (two * sq b - a) * cst 4%Z 1%positive * b.
  Definition dixon_v (x : list T) : T :=
    match x with [] => zr | x0 :: _ => sq (x0 - un) + chain_v dixon_phi (bias2 x) x end.
  Definition dixon_g (x : list T) : list T :=
    match x with [] => [] | x0 :: _ => chain_g dixon_pa dixon_pb (two * (x0 - un)) (bias2 x) x end.

  (* chained LQ: sum of max(v1, v2), v1 = -a-b, v2 = v1 + a^2 + b^2 - un; the code takes the gradient of v2 iff v2 > v1 *)
  Definition lq_v1 (a b : T) : T := (- a) - b.
  Definition lq_v2 (a b : T) : T := lq_v1 a b + sq a + sq b - un.
  Definition lq_phi (_ a b : T) : T := pmax (lq_v1 a b) (lq_v2 a b).
  Definition lq_pa (_ a b : T) : T := if lq_v1 a b <? lq_v2 a b then (- un) + two * a else - un.
  Definition lq_pb (_ a b : T) : T := if lq_v1 a b <? lq_v2 a b then (- un) + two * b else - un.
  Definition chained_lq_v (x : list T) : T := chain_v lq_phi (bias2 x) x.
  Definition chained_lq_g (x : list T) : list T := chain_g lq_pa lq_pb zr (bias2 x) x.

  (* rotated hyper-ellipsoid: sum_i (x_0 + ... + x_i)^2; gradient_i = sum_{k >= i} 2 (x_0 + ... + x_k) *)
  Fixpoint prefix_from (acc : T) (x : list T) : list T :=
    match x with [] => [] | v :: x' => (acc + v) :: prefix_from (acc + v) x' end.
  Fixpoint suffix_sums (p : list T) : list T :=
    match p with [] => [] | v :: p' => (v + match suffix_sums p' with [] => zr | s :: _ => s end) :: suffix_sums p' end.
  Definition rotated_v (x : list T) : T := total (map sq (prefix_from zr x)).
  Definition rotated_g (x : list T) : list T := suffix_sums (map (o_mul OP two) (prefix_from zr x)).

  (* MAXQ: max_i x_i^2, gradient 2 x_idx e_idx at the first maximiser *)
  Fixpoint unit_at (i : nat) (v : T) (n : nat) : list T :=
    match n with O => [] | S n' => (match i with O => v | _ => zr end) :: unit_at (pred i) (match i with O => zr | _ => v end) n' end.
  Definition maxq_v (x : list T) : T := nth (argmax (map sq x)) (map sq x) zr.
  Definition maxq_g (x : list T) : list T :=
    let i := argmax (map sq x) in
    map2 (fun j u => if andb (negb (j <? cst (Z.of_nat i) 1%positive)) (negb (cst (Z.of_nat i) 1%positive <? j)) then two * u else zr)
         (weights_from O (length x)) x.

  (* ---------------------------------------------------------------------------------------------- *)
  (* constraints (src/function/constraint.cpp)                                                       *)
  (* ---------------------------------------------------------------------------------------------- *)
  Definition cons_ball_v (origin : list T) (radius : T) (x : list T) : T := dot (vsub x origin) (vsub x origin) - radius * radius.
  Definition cons_ball_g (origin : list T) (x : list T) : list T := vscale two (vsub x origin).
  Definition cons_linear_v (q : list T) (r : T) (x : list T) : T := dot q x + r.
  Definition cons_linear_g (q : list T) (x : list T) : list T := map2 (fun a _ => a) q x.
  (* constant_t / maximum_t: x_d - value; minimum_t: value - x_d *)
  Definition cons_coord_v (sign : T) (value : T) (d : nat) (x : list T) : T := sign * (nth d x zr - value).
  Definition cons_coord_g (sign : T) (d : nat) (x : list T) : list T :=
    map2 (fun j _ => if andb (negb (j <? cst (Z.of_nat d) 1%positive)) (negb (cst (Z.of_nat d) 1%positive <? j)) then sign else zr)
         (weights_from O (length x)) x.
End Poly.

(* ------------------------------------------------------------------------------------------------ *)
(* sizes of the function objects (translated integer kernels)                                        *)
(* ------------------------------------------------------------------------------------------------ *)
Definition size_rosenbrock (dims : Z) : Z := src_c06_rosenbrock_size dims.
Definition size_powell (dims : Z) : Z := src_c06_powell_size dims.
Definition size_enet (dims : Z) : Z := src_c06_enet_size dims.
Definition size_linear (isize tsize : Z) : Z := src_c06_linear_size isize tsize.
Definition size_surrogate_fit (n : Z) : Z := src_c06_surrogate_fit_size n.

(* ------------------------------------------------------------------------------------------------ *)
(* transcendental objects: real-valued specifications                                                *)
(* ------------------------------------------------------------------------------------------------ *)
Local Open Scope R_scope.

Definition kr_cauchy_v (t o : R) : R := / 2 * ln ((t - o) * (t - o) + 1).
Definition kr_cauchy_g (t o : R) : R := (o - t) / (1 + (o - t) * (o - t)).
(* both branches of the code (x < 1 and x >= 1, x = -t o) are the same real function *)
Definition kr_logistic_v (t o : R) : R := ln (1 + exp (- t * o)).
Definition kr_logistic_g (t o : R) : R := - t * (exp (- t * o) / (1 + exp (- t * o))).
Definition kr_exponential_v (t o : R) : R := exp (- t * o).
Definition kr_exponential_g (t o : R) : R := - t * exp (- t * o).
Definition kr_savage_v (t o : R) : R := / ((1 + exp (t * o)) * (1 + exp (t * o))).
Definition kr_savage_g (t o : R) : R := - 2 * t / ((1 + exp (t * o)) * (1 + exp (t * o)) * (1 + exp (- t * o))).
Definition kr_tangent_v (t o : R) : R := (2 * atan (t * o) - 1) * (2 * atan (t * o) - 1).
Definition kr_tangent_g (t o : R) : R := 4 * t * (2 * atan (t * o) - 1) / (1 + (t * o) * (t * o)).

(* class negative log-likelihood over a whole sample: log-sum-exp minus the outputs of the positive labels.
   The code shifts by the largest output and adds machine epsilon inside the logarithm. *)
Definition sumexp (m : R) (o : list R) : R := fold_right (fun v acc => exp (v - m) + acc) 0 o.
Fixpoint posum (t o : list R) : R :=
  match t, o with a :: t', v :: o' => (if Rltb 0 a then v else 0) + posum t' o' | _, _ => 0 end.
Definition listmax (o : list R) : R := match o with [] => 0 | v :: o' => fold_right Rmax v o' end.
Definition classnll_ideal (t o : list R) : R := ln (sumexp 0 o) - posum t o.
Definition classnll_code (eps : R) (t o : list R) : R := ln (eps + sumexp (listmax o) o) - posum t o + listmax o.
Fixpoint classnll_g_from (m s : R) (t o : list R) : list R :=
  match t, o with
  | a :: t', v :: o' => (exp (v - m) / s - (if Rltb 0 a then 1 else 0)) :: classnll_g_from m s t' o'
  | _, _ => []
  end.
Definition classnll_g (t o : list R) : list R := classnll_g_from (listmax o) (sumexp (listmax o) o) t o.

(* benchmark functions with exp / ln *)
Definition fexp_v (x : list R) : R := exp (1 + dot Rops x x / INR (length x)).
Definition fexp_g (x : list R) : list R := vscale Rops (2 * fexp_v x / INR (length x)) x.
Definition fcauchy_v (x : list R) : R := ln (1 + dot Rops x x).
Definition fcauchy_g (x : list R) : list R := vscale Rops (2 / (1 + dot Rops x x)) x.

(* chained CB3 I and II, faithful to the branch structure of the code (after /repo 114b02b: non-strict comparisons, so that on
   an exact tie the gradient of an ACTIVE piece is returned):
   if v1 >= max(v2, v3) then grad v1 else if v2 >= max(v1, v3) then grad v2 else grad v3 *)
Definition Rgeb (a b : R) : bool := negb (Rltb a b).
Definition cb3_v1 (a b : R) : R := a * a * (a * a) + b * b.
Definition cb3_v2 (a b : R) : R := (2 - a) * (2 - a) + (2 - b) * (2 - b).
Definition cb3_v3 (a b : R) : R := 2 * exp (- a + b).
(* gradients of the three pieces with respect to (a, b) *)
Definition cb3_p1a (_ a b : R) : R := 4 * (a * (a * a)).
Definition cb3_p1b (_ a b : R) : R := 2 * b.
Definition cb3_p2a (_ a b : R) : R := - (4 - 2 * a).
Definition cb3_p2b (_ a b : R) : R := - (4 - 2 * b).
Definition cb3_p3a (_ a b : R) : R := - (2 * exp (b - a)).
Definition cb3_p3b (_ a b : R) : R := 2 * exp (b - a).
Definition cb3_phi (_ a b : R) : R := Rmax (cb3_v1 a b) (Rmax (cb3_v2 a b) (cb3_v3 a b)).
Definition cb3_pa (w a b : R) : R :=
  if Rgeb (cb3_v1 a b) (Rmax (cb3_v2 a b) (cb3_v3 a b)) then cb3_p1a w a b
  else if Rgeb (cb3_v2 a b) (Rmax (cb3_v1 a b) (cb3_v3 a b)) then cb3_p2a w a b
  else cb3_p3a w a b.
Definition cb3_pb (w a b : R) : R :=
  if Rgeb (cb3_v1 a b) (Rmax (cb3_v2 a b) (cb3_v3 a b)) then cb3_p1b w a b
  else if Rgeb (cb3_v2 a b) (Rmax (cb3_v1 a b) (cb3_v3 a b)) then cb3_p2b w a b
  else cb3_p3b w a b.
Definition cb3I_v (x : list R) : R := chain_v Rops cb3_phi (bias2 Rops x) x.
Definition cb3I_g (x : list R) : list R := chain_g Rops cb3_pa cb3_pb 0 (bias2 Rops x) x.

(* the rule BEFORE 114b02b (strict comparisons): on a tie v1 = v2 > v3 the gradient of the inactive v3 was returned *)
Definition cb3_pa_old (w a b : R) : R :=
  if Rltb (Rmax (cb3_v2 a b) (cb3_v3 a b)) (cb3_v1 a b) then cb3_p1a w a b
  else if Rltb (Rmax (cb3_v1 a b) (cb3_v3 a b)) (cb3_v2 a b) then cb3_p2a w a b
  else cb3_p3a w a b.
Definition cb3_pb_old (w a b : R) : R :=
  if Rltb (Rmax (cb3_v2 a b) (cb3_v3 a b)) (cb3_v1 a b) then cb3_p1b w a b
  else if Rltb (Rmax (cb3_v1 a b) (cb3_v3 a b)) (cb3_v2 a b) then cb3_p2b w a b
  else cb3_p3b w a b.
Definition cb3I_g_old (x : list R) : list R := chain_g Rops cb3_pa_old cb3_pb_old 0 (bias2 Rops x) x.

(* CB3 II: the maximum of the three SUMS over the chain; the gradient of the sum selected by the same tests *)
Definition cb3_s1 (x : list R) : R := chain_v Rops (fun _ a b => cb3_v1 a b) (bias2 Rops x) x.
Definition cb3_s2 (x : list R) : R := chain_v Rops (fun _ a b => cb3_v2 a b) (bias2 Rops x) x.
Definition cb3_s3 (x : list R) : R := chain_v Rops (fun _ a b => cb3_v3 a b) (bias2 Rops x) x.
Definition cb3II_v (x : list R) : R := Rmax (cb3_s1 x) (Rmax (cb3_s2 x) (cb3_s3 x)).
Definition cb3II_g (x : list R) : list R :=
  if Rgeb (cb3_s1 x) (Rmax (cb3_s2 x) (cb3_s3 x)) then chain_g Rops cb3_p1a cb3_p1b 0 (bias2 Rops x) x
  else if Rgeb (cb3_s2 x) (Rmax (cb3_s1 x) (cb3_s3 x)) then chain_g Rops cb3_p2a cb3_p2b 0 (bias2 Rops x) x
  else chain_g Rops cb3_p3a cb3_p3b 0 (bias2 Rops x) x.
