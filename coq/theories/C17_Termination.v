(* C17 -- every execution of the protocol model without spurious wake-ups is finite: a measure that strictly
   decreases with every other event.  Together with deadlock freedom: every maximal such execution ends in a
   final state (all calls returned, and, if the pool was destroyed, all workers exited). *)
From Coq Require Import List Arith Bool Lia.
From LN Require Import C17_Defs C17_Proofs.
Import ListNotations.

Definition call_w (c : call) : nat :=
  match c with
  | CEnqueue _ => 4
  | CMap ts _ => 4 + 4 * length ts
  | CDestroy => 3
  end.

Definition stage_w (st : stage) : nat :=
  match st with
  | SReady => 0
  | SNotifyOne => 1
  | SNotifyAll ts _ => 3 + 2 * length ts
  | SGet rem all _ => length rem + 1 + (length all + 1)
  | SWait rem _ _ _ => length rem + 1
  | SNotifyStop => 2
  | SJoin => 1
  end.

Definition subw (x : sub) : nat := stage_w (stg x) + fold_right (fun c a => call_w c + a) 0 (todo x).

Definition wrank (k : nat) (x : wstate) : nat :=
  match x with
  | WSleeping => k
  | WIdle => 1 + k
  | WRunning _ => 2 + k
  | WExited => 0
  end.

Fixpoint sumf (f : nat -> nat) (n : nat) : nat :=
  match n with O => 0 | S m => sumf f m + f m end.

Definition measure (p : pool) : nat :=
  let k := nw p + 1 in
  k * sumf (fun s => subw (subs p s)) (ns p) + 2 * length (queue p) + sumf (fun w => wrank k (workers p w)) (nw p).

Lemma sumf_ext f g n : (forall i, i < n -> f i = g i) -> sumf f n = sumf g n.
Proof. induction n as [|n IH]; intros H; cbn; [reflexivity|]. rewrite IH, H by (intros; auto with arith). reflexivity. Qed.

Lemma sumf_upd {A} (h : A -> nat) (f : nat -> A) i v n :
  i < n -> sumf (fun j => h (upd f i v j)) n + h (f i) = sumf (fun j => h (f j)) n + h v.
Proof.
  induction n as [|n IH]; intros Hi; [lia|]. cbn [sumf]. destruct (Nat.eq_dec i n) as [->|Hne].
  - rewrite upd_same. rewrite (sumf_ext (fun j => h (upd f n v j)) (fun j => h (f j)) n); [lia|].
    intros j Hj. rewrite upd_other by lia. reflexivity.
  - rewrite (upd_other f i n v) by lia. specialize (IH ltac:(lia)). lia.
Qed.

Lemma sumf_le f g n c : (forall i, i < n -> g i <= f i + c) -> sumf g n <= sumf f n + c * n.
Proof.
  induction n as [|n IH]; intros H; cbn [sumf]; [lia|].
  specialize (IH ltac:(intros; apply H; lia)). specialize (H n ltac:(lia)). lia.
Qed.

Lemma wrank_wake k f w : wrank k (wake_all f w) <= wrank k (f w) + 1.
Proof. unfold wake_all. destruct (f w); cbn; lia. Qed.

Lemma sumf_wake k f n : sumf (fun w => wrank k (wake_all f w)) n <= sumf (fun w => wrank k (f w)) n + n.
Proof.
  pose proof (sumf_le (fun w => wrank k (f w)) (fun w => wrank k (wake_all f w)) n 1) as H.
  rewrite Nat.mul_1_l in H. apply H. intros i _. apply wrank_wake.
Qed.

Definition spurious (e : event) : bool := match e with ESpurious _ => true | _ => false end.

Lemma wake_all_idle f w : f w = WIdle -> wake_all f w = WIdle.
Proof. intros H. unfold wake_all. rewrite H. reflexivity. Qed.

Ltac prep p k :=
  try (match goal with E : (_ <? _) && is_sleeping _ = true |- _ =>
         apply andb_true_iff in E; destruct E as [?E ?E];
         match goal with E1 : (_ <? _) = true |- _ => apply Nat.ltb_lt in E1 end;
         match goal with E2 : is_sleeping _ = true |- _ => apply is_sleeping_true in E2 end end);
  try (match goal with E : queue p = _ |- _ => rewrite E end);
  try (match goal with
       | Hlt : ?s < ns p |- context [sumf (fun s0 => subw (upd (subs p) ?s ?x s0)) (ns p)] =>
           let Hsub := fresh "Hsub" in
           pose proof (sumf_upd subw (subs p) s x (ns p) Hlt) as Hsub;
           let A := fresh "A" in let B := fresh "B" in
           set (A := sumf (fun j => subw (upd (subs p) s x j)) (ns p)) in *;
           set (B := sumf (fun j => subw (subs p j)) (ns p)) in *;
           unfold subw in Hsub; simp_fields;
           try (match goal with E : stg (subs p s) = _ |- _ => rewrite E in Hsub end);
           try (match goal with E : todo (subs p s) = _ |- _ => rewrite E in Hsub end)
       end);
  cbn [stage_w call_w fold_right length] in *; rewrite ?app_length in *; cbn [length] in *;
  try (pose proof (sumf_wake k (workers p) (nw p)));
  try (match goal with
       | Hlt : ?w < nw p |- context [sumf (fun w0 => wrank k (upd ?f ?w ?v w0)) (nw p)] =>
           let Hw := fresh "Hw" in
           pose proof (sumf_upd (wrank k) f w v (nw p) Hlt) as Hw;
           let C := fresh "C" in
           set (C := sumf (fun j => wrank k (upd f w v j)) (nw p)) in *;
           cbn [wrank] in Hw;
           try (match goal with E : workers p w = WIdle |- _ => rewrite (wake_all_idle _ _ E) in Hw; cbn [wrank] in Hw end);
           try (match goal with E : workers p w = _ |- _ => rewrite E in Hw; cbn [wrank] in Hw end)
       end).

Lemma step_measure p e q : step p e = Some q -> spurious e = false -> measure q < measure p.
Proof.
  intros H Hsp. destruct e; try discriminate Hsp; clear Hsp;
    inv_step H; unfold measure; simp_fields;
    try match goal with E : negb (?s <? _) = false |- _ => apply ltb_guard in E end;
    set (k := nw p + 1) in *.
  all: prep p k.
  all: try nia.
Qed.

Fixpoint no_spurious (es : list event) : bool :=
  match es with [] => true | e :: r => negb (spurious e) && no_spurious r end.

(* every execution without spurious wake-ups has at most `measure` steps *)
Theorem bounded_executions : forall es p q,
  run p es = Some q -> no_spurious es = true -> length es + measure q <= measure p.
Proof.
  induction es as [|e es IH]; intros p q Hr Hn; cbn [run] in Hr.
  - injection Hr as <-. cbn. lia.
  - destruct (step p e) as [m|] eqn:Es; [|discriminate]. cbn [no_spurious] in Hn.
    apply andb_true_iff in Hn. destruct Hn as [Hse Hn]. apply negb_true_iff in Hse.
    pose proof (step_measure p e m Es Hse). specialize (IH m q Hr Hn). cbn [length]. lia.
Qed.

