(* C09 -- ML objectives equal their definitions for any thread count / batch size / schedule.
   Only statements + `exact` + Print Assumptions (+ non-vacuity examples) live here.
   Model: C09_Defs (exact rationals; chunk bounds = kernels of parallel.h shared with C17, sum_reduce loop
   bounds, parameter layout, unassigned-sample tests, cache tests = kernels translated on every run).
   A schedule is the list of (chunk, worker) events in completion order; `valid_schedule workers n batch sched` says:
   the chunks are a permutation of pool_t::map's chunks of [0,n) and every worker index is below the number of
   per-thread accumulators.  EVERY theorem quantifies over every number of workers, every batch size and every valid
   schedule (assignment chunk -> worker and completion order). *)
From Coq Require Import List ZArith QArith Bool Permutation Morphisms.
From LNGen Require Import Src_parallel Src_c09.
From LN Require Import C17_Defs C17_Statements C09_Defs C09_Proofs.
Import ListNotations.
Local Open Scope Q_scope.

(* 1. the reduction, generically: per-thread accumulation + sum_reduce over ANY commutative monoid (scalars, gradient
      vectors, ...) is the plain sum over [0,n) *)
Theorem C09_reduce_any_monoid : forall (A : Type) (aeq : A -> A -> Prop) (add : A -> A -> A) (zero : A),
  Equivalence aeq -> Proper (aeq ==> aeq ==> aeq) add ->
  (forall a b, aeq (add a b) (add b a)) -> (forall a b c, aeq (add (add a b) c) (add a (add b c))) ->
  (forall a, aeq (add zero a) a) ->
  forall (term : Z -> A) workers n batch sched,
  (1 <= workers)%nat -> (1 <= batch)%Z -> (0 <= n)%Z -> valid_schedule workers n batch sched ->
  aeq (map_reduce add zero term workers sched) (range_sum add zero term 0 (Z.to_nat n)).
Proof. exact @map_reduce_schedule_independent. Qed.
Print Assumptions C09_reduce_any_monoid.

(* 2. ... over Q followed by the division by #samples it is the mean *)
Theorem C09_schedule_independent : forall (f : Z -> Q) workers n batch sched,
  (1 <= workers)%nat -> (1 <= batch)%Z -> (0 <= n)%Z -> valid_schedule workers n batch sched ->
  reduced_mean f workers sched n == naive_mean f n.
Proof. exact reduced_mean_naive. Qed.
Print Assumptions C09_schedule_independent.

(* 3. linear::function_t: value = mean_i loss(t_i, W x_i + b) + l1 mean|W| + l2/2 mean W^2 (r2 = sqrt(l2) as the code
      stores it), for any loss *)
Theorem C09_linear_value_def : forall (lval : list Q -> list Q -> Q) (lgrad : list Q -> list Q -> list Q)
  isize tsize l1 l2 r2 x T X workers batch sched,
  length T = length X -> 0 <= l1 -> 0 <= l2 -> r2 * r2 == l2 ->
  (1 <= workers)%nat -> (1 <= batch)%Z -> valid_schedule workers (Z.of_nat (length X)) batch sched ->
  lin_value lval lgrad isize tsize l1 l2 r2 x T X workers sched == lin_naive_value lval isize tsize l1 l2 x T X.
Proof. exact lin_value_def. Qed.
Print Assumptions C09_linear_value_def.

(* ... and the matching gradient, coordinate by coordinate of the parameter layout translated from the source:
   d/dW(c,j) = mean_i dloss_c(i) x_i(j) + l1 sign(W(c,j))/#W + l2 W(c,j)/#W,   d/db(c) = mean_i dloss_c(i) *)
Theorem C09_linear_grad_W_def : forall (lval : list Q -> list Q -> Q) (lgrad : list Q -> list Q -> list Q),
  (forall t o, length t = length o -> length (lgrad t o) = length o) ->
  forall isize tsize x T X,
  Forall (fun t => length t = Z.to_nat tsize) T -> (0 <= isize)%Z -> (0 <= tsize)%Z ->
  Z.of_nat (length x) = src_c09_lin_size isize tsize ->
  Forall (fun xi => length xi = Z.to_nat isize) X -> length T = length X ->
  forall l1 l2 workers batch sched c j,
  0 <= l1 -> 0 <= l2 -> (1 <= workers)%nat -> (1 <= batch)%Z ->
  valid_schedule workers (Z.of_nat (length X)) batch sched ->
  (c < Z.to_nat tsize)%nat -> (j < Z.to_nat isize)%nat ->
  nth (c * Z.to_nat isize + j) (lin_grad lval lgrad isize tsize l1 l2 x T X workers sched) 0 ==
  lin_naive_gW lgrad isize tsize l1 l2 x T X c j.
Proof. exact lin_grad_W_def. Qed.
Print Assumptions C09_linear_grad_W_def.

Theorem C09_linear_grad_b_def : forall (lval : list Q -> list Q -> Q) (lgrad : list Q -> list Q -> list Q),
  (forall t o, length t = length o -> length (lgrad t o) = length o) ->
  forall isize tsize x T X,
  Forall (fun t => length t = Z.to_nat tsize) T -> (0 <= isize)%Z -> (0 <= tsize)%Z ->
  Z.of_nat (length x) = src_c09_lin_size isize tsize ->
  Forall (fun xi => length xi = Z.to_nat isize) X -> length T = length X ->
  forall (l1 l2 : Q) workers batch sched c,
  (1 <= workers)%nat -> (1 <= batch)%Z -> valid_schedule workers (Z.of_nat (length X)) batch sched ->
  (c < Z.to_nat tsize)%nat ->
  nth (Z.to_nat (src_c09_lin_bias_offset isize tsize) + c) (lin_grad lval lgrad isize tsize l1 l2 x T X workers sched) 0 ==
  lin_naive_gb lgrad isize tsize x T X c.
Proof. exact lin_grad_b_def. Qed.
Print Assumptions C09_linear_grad_b_def.

(* 4. gboost::bias_function_t: mean_i loss(t_i, b) and its gradient *)
Theorem C09_gboost_bias_def : forall (lval : list Q -> list Q -> Q) (lgrad : list Q -> list Q -> list Q)
  x T workers batch sched,
  (1 <= workers)%nat -> (1 <= batch)%Z -> valid_schedule workers (Z.of_nat (length T)) batch sched ->
  bias_value lval lgrad x T workers sched == bias_naive_value lval x T /\
  (forall c, (c < length x)%nat -> nth c (bias_grad lval lgrad x T workers sched) 0 == bias_naive_grad lgrad x T c).
Proof.
  intros lval lgrad x T workers batch sched Hw Hb Hs. split.
  - exact (bias_value_def lval lgrad x T workers batch sched Hw Hb Hs).
  - intros c Hc. exact (bias_grad_def lval lgrad x T workers batch sched c Hw Hb Hs Hc).
Qed.
Print Assumptions C09_gboost_bias_def.

(* 5. gboost::scale_function_t: mean_i loss(t_i, s_i + x[cluster_i] w_i), unassigned (group < 0: test translated from
      the source) samples unscaled; gradient wrt x[g] = mean_i [cluster_i = g] <dloss_i, w_i> *)
Theorem C09_gboost_scale_value_def : forall (lval : list Q -> list Q -> Q) (lgrad : list Q -> list Q -> list Q),
  (forall t o o', Forall2 Qeq o o' -> lval t o == lval t o') ->
  forall x groups S0 Wk T smp,
  length T = length smp ->
  (forall s, In s smp -> length (nthZ S0 s nil) = length (nthZ Wk s nil)) ->
  forall workers batch sched,
  (1 <= workers)%nat -> (1 <= batch)%Z -> valid_schedule workers (Z.of_nat (length smp)) batch sched ->
  scale_value lval lgrad x groups S0 Wk T smp workers sched == scale_naive_value lval x groups S0 Wk T smp.
Proof. exact scale_value_def. Qed.
Print Assumptions C09_gboost_scale_value_def.

Theorem C09_gboost_scale_grad_def : forall (lval : list Q -> list Q -> Q) (lgrad : list Q -> list Q -> list Q)
  x groups S0 Wk T smp,
  length T = length smp ->
  forall workers batch sched g,
  (1 <= workers)%nat -> (1 <= batch)%Z -> valid_schedule workers (Z.of_nat (length smp)) batch sched ->
  (g < length x)%nat ->
  nth g (scale_grad lval lgrad x groups S0 Wk T smp workers sched) 0 ==
  scale_naive_grad lgrad x groups S0 Wk T smp (Z.of_nat g).
Proof. exact scale_grad_def. Qed.
Print Assumptions C09_gboost_scale_grad_def.

(* 6. gboost::grads_function_t: the per-sample value / gradient buffers are written range by range over whatever they
      held before; afterwards they hold exactly the per-sample losses / loss gradients (Leibniz equality), the value is
      their mean and the reported gradient the per-sample gradient divided by #samples *)
Theorem C09_gboost_grads_def : forall (lval : list Q -> list Q -> Q) (lgrad : list Q -> list Q -> list Q)
  T O workers batch sched (oldv : list Q) (oldg : list (list Q)),
  (1 <= batch)%Z -> valid_schedule workers (Z.of_nat (length O)) batch sched ->
  length oldv = length O -> length oldg = length O ->
  grads_value lval T O sched oldv == grads_naive_value lval T O /\
  grads_gbuf lgrad T O sched oldg = map (fun i => lgrad (nthZ T i nil) (nthZ O i nil)) (zrange 0 (length O)) /\
  grads_grad lgrad T O sched oldg =
    map (fun i => map (fun a => a / inject_Z (Z.of_nat (length O))) (lgrad (nthZ T i nil) (nthZ O i nil)))
        (zrange 0 (length O)).
Proof.
  intros lval lgrad T O workers batch sched oldv oldg Hb Hs Hv Hg. split.
  - exact (grads_value_def lval T O workers batch sched oldv Hb Hs Hv).
  - exact (grads_gradients_def lgrad T O workers batch sched oldg Hb Hs Hg).
Qed.
Print Assumptions C09_gboost_grads_def.

(* 7. caching is transparent: the flatten / targets caches, filled range by range under any schedule over stale
      content, deliver for every range exactly the rows the direct computation delivers; without a cache (refused or
      disabled: the cache tests are translated from iterator.cpp) the rows are computed directly *)
Theorem C09_cache_transparent : forall (B : Type) (row : Z -> B) workers n batch sched (old : list B) (c : Z * Z),
  (1 <= batch)%Z -> (0 <= n)%Z -> valid_schedule workers n batch sched -> Z.of_nat (length old) = n ->
  (0 <= fst c)%Z -> (fst c <= snd c)%Z -> (snd c <= n)%Z ->
  deliver row (fill_cache row sched old) n c = map row (zrange (fst c) (Z.to_nat (snd c - fst c))) /\
  deliver_targets row (fill_cache row sched old) n c = map row (zrange (fst c) (Z.to_nat (snd c - fst c))).
Proof. exact @cache_transparent. Qed.
Print Assumptions C09_cache_transparent.

Theorem C09_no_cache_direct : forall (B : Type) (row : Z -> B) n (c : Z * Z), (0 < n)%Z ->
  deliver row nil n c = map row (zrange (fst c) (Z.to_nat (snd c - fst c))) /\
  deliver_targets row nil n c = map row (zrange (fst c) (Z.to_nat (snd c - fst c))).
Proof. exact @no_cache_direct. Qed.
Print Assumptions C09_no_cache_direct.

(* 8. the premise is what the implementation does: the schedules observed in a run are recognised by the executable test
      used by the driver (sound), and the single-thread fast path of map() is a valid schedule for any pool size *)
Theorem C09_observed_schedules_valid : forall workers n batch sched,
  (schedule_okb workers n batch sched = true -> valid_schedule workers n batch sched) /\
  ((1 <= workers)%nat -> valid_schedule workers n batch (inline_schedule n batch)).
Proof. intros workers n batch sched. split; [apply schedule_okb_sound | apply inline_schedule_valid]. Qed.
Print Assumptions C09_observed_schedules_valid.

(* 9. the four rational loss instances (mse, mae, hinge, squared hinge) used by the correspondence are convex with the
      gradient the code returns being a sub-gradient -- also at the kinks, where the code returns sign(0) = 0 *)
Theorem C09_loss_subgradient : forall l t o o', length t = length o -> length o = length o' ->
  loss_value l t o + dot (loss_vgrad l t o) (vsub o' o) <= loss_value l t o'.
Proof. exact loss_subgradient. Qed.
Print Assumptions C09_loss_subgradient.

(* ---- non-vacuity ----------------------------------------------------------------------------------------------- *)
(* 7 samples, batch 3 -> chunks [0,3) [3,6) [6,7); 2 workers; completion order 2,0,1 with workers 1,0,1: valid, and the
   reduced mean of f(i) = i is 3 *)
Definition ex_sched : list ((Z * Z) * nat) := [((6, 7)%Z, 1%nat); ((0, 3)%Z, 0%nat); ((3, 6)%Z, 1%nat)].
Example C09_nonvacuous_schedule :
  schedule_okb 2 7 3 ex_sched = true /\ schedule_okb 1 7 3 ex_sched = false /\
  schedule_okb 2 7 3 (tl ex_sched) = false /\
  Qeq_bool (reduced_mean (fun i => inject_Z i) 2 ex_sched 7) 3 = true /\
  Qeq_bool (naive_mean (fun i => inject_Z i) 7) 3 = true.
Proof. vm_compute. repeat split; reflexivity. Qed.

(* a stale cache of 7 rows is fully overwritten and delivers the direct rows *)
Example C09_nonvacuous_cache :
  deliver (fun i => i) (fill_cache (fun i => i) ex_sched [9; 9; 9; 9; 9; 9; 9]%Z) 7 (2, 5)%Z = [2; 3; 4]%Z.
Proof. vm_compute. reflexivity. Qed.

(* ================================================================================================================== *)
(* EXTENSION: every registered loss inside the model, over the reals (C09_Real_Defs.v / C09_Real.v).                     *)
(* The loss of a sample is the real specification of its kernel owned by C06 (C06_Defs.v); `rloss` has one constructor  *)
(* per kernel, `registered_losses` maps the 17 ids of loss_t::all() to them.                                            *)
(* ================================================================================================================== *)
From Coq Require Import Reals Lra Lia.
From Coquelicot Require Import Coquelicot.
From LN Require Import C06_Defs C06_Proofs C09_Real_Defs C09_Real.
Local Open Scope R_scope.

(* 10. schedule independence at the monoid (R, +): per-thread accumulation + sum_reduce + `accumulator0 /= samples`
       (divisor translated from reduce.h) is the plain mean, for EVERY valid schedule *)
Theorem C09R_schedule_independent : forall (f : Z -> R) workers n batch sched,
  (1 <= workers)%nat -> (1 <= batch)%Z -> (0 <= n)%Z -> valid_schedule workers n batch sched ->
  rreduced_mean f workers sched n = rnaive_mean f n.
Proof. exact rreduced_mean_naive. Qed.
Print Assumptions C09R_schedule_independent.

(* 11. linear::function_t over R, for ANY loss (in particular every registered one): value and every gradient coordinate as
       the code accumulates them = the definition; the l2 term is written with the real sqrt(l2) exactly as the code does *)
Theorem C09R_linear_def : forall (lval : list R -> list R -> R) (lgrad : list R -> list R -> list R)
  isize tsize l1 l2 x T X workers batch sched,
  0 <= l1 -> 0 <= l2 -> (1 <= workers)%nat -> (1 <= batch)%Z -> valid_schedule workers (Z.of_nat (length X)) batch sched ->
  rlin_value lval isize tsize l1 l2 x T X workers sched = rlin_naive_value lval isize tsize l1 l2 x T X /\
  (forall c j, rlin_gW lgrad isize tsize l1 l2 x T X workers sched c j = rlin_naive_gW lgrad isize tsize l1 l2 x T X c j) /\
  (forall c, rlin_gb lgrad isize tsize x T X workers sched c = rlin_naive_gb lgrad isize tsize x T X c).
Proof.
  intros lval lgrad isize tsize l1 l2 x T X workers batch sched H1 H2 Hw Hb Hs. split.
  - exact (rlin_value_def lval isize tsize l1 l2 x T X workers batch sched H1 H2 Hw Hb Hs).
  - exact (rlin_grad_def lgrad isize tsize l1 l2 x T X workers batch sched H1 H2 Hw Hb Hs).
Qed.
Print Assumptions C09R_linear_def.

(* 12. the three boosting objectives over R *)
Theorem C09R_gboost_def : forall (lval : list R -> list R -> R) (lgrad : list R -> list R -> list R) workers batch sched,
  (1 <= workers)%nat -> (1 <= batch)%Z ->
  (forall x T, valid_schedule workers (Z.of_nat (length T)) batch sched ->
     rbias_value lval x T workers sched = rbias_naive_value lval x T /\
     (forall c, rbias_grad lgrad x T workers sched c = rbias_naive_grad lgrad x T c)) /\
  (forall x groups S0 Wk T smp, valid_schedule workers (Z.of_nat (length smp)) batch sched ->
     rscale_value lval x groups S0 Wk T smp workers sched = rscale_naive_value lval x groups S0 Wk T smp /\
     (forall g, rscale_grad lgrad x groups S0 Wk T smp workers sched g = rscale_naive_grad lgrad x groups S0 Wk T smp g)) /\
  (forall T O (old : list R), valid_schedule workers (Z.of_nat (length O)) batch sched -> length old = length O ->
     rgrads_value lval T O sched old = rgrads_naive_value lval T O).
Proof.
  intros lval lgrad workers batch sched Hw Hb. repeat split.
  - apply (rbias_def lval lgrad x T workers batch sched Hw Hb H).
  - intro c. apply (rbias_def lval lgrad x T workers batch sched Hw Hb H).
  - apply (rscale_def lval lgrad x groups S0 Wk T smp workers batch sched Hw Hb H).
  - intro g. apply (rscale_def lval lgrad x groups S0 Wk T smp workers batch sched Hw Hb H).
  - intros T O old Hs Hl. exact (rgrads_value_def lval T O workers batch sched old Hb Hs Hl).
Qed.
Print Assumptions C09R_gboost_def.

(* 13. the losses. Smooth kernels (mse, cauchy, class-NLL, savage, tangent, logistic, exponential): along every direction
       of the output space the value has the derivative <vgrad, direction> (C06's is_derive theorems, class-NLL proved here);
       convex kernels (mse, mae, pinball, hinge, squared hinge, logistic, exponential): vgrad is a sub-gradient, kinks
       included; every registered id is in one of the two classes; the epsilon the code puts inside the logarithm of
       class-NLL moves the value by at most epsilon *)
Theorem C09R_loss_derivative : forall l, rl_smooth l = true -> loss_deriv (rl_ideal l) (rl_grad l).
Proof. exact rl_smooth_deriv. Qed.
Print Assumptions C09R_loss_derivative.
Theorem C09R_loss_subgradient : forall l, rl_convex l = true -> (forall a, l = RPinball a -> 0 <= a <= 1) ->
  loss_subgradient (rl_value l) (rl_grad l).
Proof. exact rl_convex_subgradient. Qed.
Print Assumptions C09R_loss_subgradient.
Theorem C09R_registered_covered : forall alpha name l, In (name, l) (registered_losses alpha) ->
  rl_smooth l = true \/ rl_convex l = true.
Proof. exact registered_covered. Qed.
Print Assumptions C09R_registered_covered.
Theorem C09R_classnll_code_close : forall t o, o <> nil ->
  0 <= rl_value RClassnll t o - rl_ideal RClassnll t o <= eps52.
Proof. exact classnll_code_close52. Qed.
Print Assumptions C09R_classnll_code_close.

(* 14. the gradient formulas of the source are the derivatives of the value. Linear objective, data term: along EVERY
       direction (dW, db) of parameter space (chain rule through W x + b) ... *)
Theorem C09R_linear_derivative : forall lval lgrad, loss_deriv lval lgrad ->
  forall W b dW db T X,
  same_shape W dW -> length b = length db -> length W = length b ->
  (forall i, (0 <= i < Z.of_nat (length X))%Z -> length (nthZ T i nil) = length b) ->
  is_derive (fun s => rlin_data lval (rmadd W (rmscale s dW)) (Rvadd b (Rvscale s db)) T X) 0
            (rnaive_mean (fun i => Rdot (lgrad (nthZ T i nil) (rlin_out W b (nthZ X i nil))) (rlin_out dW db (nthZ X i nil)))
                         (Z.of_nat (length X))).
Proof. exact rlin_data_is_derive. Qed.
Print Assumptions C09R_linear_derivative.
(* ... in particular along the coordinates, where it is the formula of the source: mean_i dloss_c(i) x_i(j) for W(c,j),
   mean_i dloss_c(i) for b(c) *)
Theorem C09R_linear_derivative_W : forall lval lgrad, loss_deriv lval lgrad ->
  forall W b T X tsize isize c j,
  length W = tsize -> List.Forall (fun w => length w = isize) W -> length b = tsize ->
  (forall i, (0 <= i < Z.of_nat (length X))%Z -> length (nthZ T i nil) = tsize /\ length (nthZ X i nil) = isize) ->
  (forall t o, length t = length o -> length (lgrad t o) = length o) ->
  is_derive (fun s => rlin_data lval (rmadd W (rmscale s (runitmat tsize isize c j))) (Rvadd b (Rvscale s (rzeros tsize))) T X) 0
            (rlin_gW_data lgrad W b T X c j).
Proof. exact rlin_data_deriv_W. Qed.
Print Assumptions C09R_linear_derivative_W.
Theorem C09R_linear_derivative_b : forall lval lgrad, loss_deriv lval lgrad ->
  forall W b T X tsize isize c,
  length W = tsize -> List.Forall (fun w => length w = isize) W -> length b = tsize ->
  (forall i, (0 <= i < Z.of_nat (length X))%Z -> length (nthZ T i nil) = tsize) ->
  (forall t o, length t = length o -> length (lgrad t o) = length o) ->
  is_derive (fun s => rlin_data lval (rmadd W (rmscale s (repeat (rzeros isize) tsize))) (Rvadd b (Rvscale s (runit tsize c))) T X) 0
            (rlin_gb_data lgrad W b T X c).
Proof. exact rlin_data_deriv_b. Qed.
Print Assumptions C09R_linear_derivative_b.
(* regularisation: the l2 term is differentiable with gradient l2 W / #W; the l1 term has the sub-gradient l1 sign(W) / #W
   (also where an entry of W is 0: the code returns sign(0) = 0) *)
Theorem C09R_reg_l2_derivative : forall l2 (w d : list R), length d = length w ->
  is_derive (fun s => rreg_value 0 l2 (Rvadd w (Rvscale s d))) 0 (Rdot (map (fun a => l2 * a / rlen w) w) d).
Proof. exact rreg_l2_is_derive. Qed.
Print Assumptions C09R_reg_l2_derivative.
Theorem C09R_reg_l1_subgradient : forall l1 (w w' : list R), 0 <= l1 -> length w' = length w -> w <> nil ->
  rreg_value l1 0 w' >= rreg_value l1 0 w + Rdot (map (fun a => l1 * rsign a / rlen w) w) (Rvsub w' w).
Proof. exact rreg_l1_subgradient. Qed.
Print Assumptions C09R_reg_l1_subgradient.

(* 15. boosting objectives: bias (every direction and the coordinates), scale (chain rule through s_i + x[cluster_i] w_i:
       every direction, and the coordinate x[g] where it is the formula of the source with the translated skip test),
       grads (the parameters are the outputs) *)
Theorem C09R_bias_derivative : forall lval lgrad, loss_deriv lval lgrad ->
  forall x T,
  (forall i, (0 <= i < Z.of_nat (length T))%Z -> length (nthZ T i nil) = length x) ->
  (forall d, length d = length x ->
     is_derive (fun s => rbias_naive_value lval (Rvadd x (Rvscale s d)) T) 0
               (rnaive_mean (fun i => Rdot (lgrad (nthZ T i nil) x) d) (Z.of_nat (length T)))) /\
  ((forall t o, length t = length o -> length (lgrad t o) = length o) ->
   forall c, is_derive (fun s => rbias_naive_value lval (Rvadd x (Rvscale s (runit (length x) c))) T) 0 (rbias_naive_grad lgrad x T c)).
Proof.
  intros lval lgrad Hd x T HT. split.
  - intros d Hl. exact (rbias_is_derive lval lgrad Hd x d T Hl HT).
  - intros Hlen c. exact (rbias_deriv_coord lval lgrad Hd x T c HT Hlen).
Qed.
Print Assumptions C09R_bias_derivative.
Theorem C09R_scale_derivative : forall lval lgrad, loss_deriv lval lgrad ->
  forall x groups S0 Wk T smp,
  (forall i, (0 <= i < Z.of_nat (length smp))%Z ->
     length (nthZ S0 (nthZ smp i 0%Z) nil) = length (nthZ Wk (nthZ smp i 0%Z) nil) /\
     length (nthZ T i nil) = length (nthZ S0 (nthZ smp i 0%Z) nil)) ->
  (forall d, length x = length d ->
     is_derive (fun s => rscale_naive_value lval (Rvadd x (Rvscale s d)) groups S0 Wk T smp) 0
               (rnaive_mean (fun i => rscale_of d (nthZ groups (nthZ smp i 0%Z) (-1)%Z) *
                                      Rdot (lgrad (nthZ T i nil) (rscale_out x groups S0 Wk (nthZ smp i 0%Z))) (nthZ Wk (nthZ smp i 0%Z) nil))
                            (Z.of_nat (length smp)))) /\
  (forall g, (0 <= g < Z.of_nat (length x))%Z ->
     is_derive (fun s => rscale_naive_value lval (Rvadd x (Rvscale s (runit (length x) (Z.to_nat g)))) groups S0 Wk T smp) 0
               (rscale_naive_grad lgrad x groups S0 Wk T smp g)).
Proof.
  intros lval lgrad Hd x groups S0 Wk T smp Hs. split.
  - intros d Hl. exact (rscale_is_derive lval lgrad Hd x d groups S0 Wk T smp Hl Hs).
  - intros g Hg. exact (rscale_deriv_coord lval lgrad Hd x groups S0 Wk T smp g Hg Hs).
Qed.
Print Assumptions C09R_scale_derivative.
Theorem C09R_grads_derivative : forall lval lgrad, loss_deriv lval lgrad ->
  forall T O D, length O = length D ->
  (forall i, (0 <= i < Z.of_nat (length O))%Z ->
     length (nthZ T i nil) = length (nthZ O i nil) /\ length (nthZ D i nil) = length (nthZ O i nil)) ->
  is_derive (fun s => rgrads_naive_value lval T (rmadd O (rmscale s D))) 0
            (rnaive_mean (fun i => Rdot (lgrad (nthZ T i nil) (nthZ O i nil)) (nthZ D i nil)) (Z.of_nat (length O))).
Proof. exact rgrads_is_derive. Qed.
Print Assumptions C09R_grads_derivative.

(* 16. at kinks: for the convex losses the mean of the per-sample gradients is a sub-gradient of the mean loss, for any way
       the outputs move; in particular the gradient of the bias objective is a sub-gradient of the objective *)
Theorem C09R_mean_subgradient : forall lval lgrad (t o o' : Z -> list R) n,
  loss_subgradient lval lgrad -> (0 < n)%Z -> (forall i, (0 <= i < n)%Z -> length (o' i) = length (o i)) ->
  rnaive_mean (fun i => lval (t i) (o' i)) n >=
  rnaive_mean (fun i => lval (t i) (o i)) n + rnaive_mean (fun i => Rdot (lgrad (t i) (o i)) (Rvsub (o' i) (o i))) n.
Proof. exact mean_loss_subgradient. Qed.
Print Assumptions C09R_mean_subgradient.
Theorem C09R_bias_subgradient : forall lval lgrad x x' T,
  loss_subgradient lval lgrad -> T <> nil -> length x' = length x ->
  rbias_naive_value lval x' T >= rbias_naive_value lval x T +
    rnaive_mean (fun i => Rdot (lgrad (nthZ T i nil) x) (Rvsub x' x)) (Z.of_nat (length T)).
Proof. exact rbias_subgradient. Qed.
Print Assumptions C09R_bias_subgradient.

(* 17. the floating-point re-association clause with an explicit constant. `sumtree` = ANY reduction tree (Eigen's unspecified
       summation order inside a chunk, the per-thread accumulators, sum_reduce); every inner node is one rounded addition.
       First for an abstract rounding operator satisfying the standard model on representable numbers ... *)
Theorem C09_fp_reassociation_any_rounding : forall (rnd : R -> R) (fmt : R -> Prop) (u : R),
  0 <= u -> (forall x, fmt (rnd x)) ->
  (forall a b, fmt a -> fmt b -> exists d, Rabs d <= u /\ rnd (a + b) = (a + b) * (1 + d)) ->
  forall t1 t2, all_fmt fmt t1 -> all_fmt fmt t2 -> Permutation (leaves t1) (leaves t2) ->
  INR (length (leaves t1) - 1) * u < 1 ->
  Rabs (tsum rnd t1 - tsum rnd t2) <= 2 * gamma u (length (leaves t1) - 1) * rabs_sum (leaves t1).
Proof. exact fp_reassociation. Qed.
Print Assumptions C09_fp_reassociation_any_rounding.
(* ... then for binary64, round to nearest even, gradual underflow (Flocq: FLT_exp (-1074) 53; u = 2^-53): two summation
   orders / groupings of the same n terms differ by at most 2 gamma_{n-1} sum|terms|; one order is within gamma_{n-1}
   sum|terms| of the exact sum; the mean the code returns (sum over any tree whose leaves are the terms and the zeros of the
   cleared accumulators, one rounded division) is within gamma_k mean|terms| + 2^-1075 of the exact mean, k = #leaves *)
Theorem C09_fp_reassociation : forall t1 t2, all_fmt fmt64 t1 -> all_fmt fmt64 t2 -> Permutation (leaves t1) (leaves t2) ->
  INR (length (leaves t1) - 1) * u64 < 1 ->
  Rabs (tsum rnd64 t1 - tsum rnd64 t2) <= 2 * gamma u64 (length (leaves t1) - 1) * rabs_sum (leaves t1).
Proof. exact fp_reassociation64. Qed.
Print Assumptions C09_fp_reassociation.
Theorem C09_fp_tree_sum : forall t, all_fmt fmt64 t -> INR (length (leaves t) - 1) * u64 < 1 ->
  Rabs (tsum rnd64 t - rsum (leaves t)) <= gamma u64 (length (leaves t) - 1) * rabs_sum (leaves t).
Proof. exact fp_tree_sum64. Qed.
Print Assumptions C09_fp_tree_sum.
Theorem C09_fp_mean : forall t vs z N, all_fmt fmt64 t -> Permutation (leaves t) (vs ++ repeat 0 z) -> 0 < N ->
  INR (length vs + z) * u64 < 1 ->
  Rabs (rnd64 (tsum rnd64 t / N) - rsum vs / N) <= gamma u64 (length vs + z) * (rabs_sum vs / N) + eta64.
Proof. exact fp_mean64. Qed.
Print Assumptions C09_fp_mean.

(* the check the driver evaluates on the measured per-sample terms of every run (extracted `fp_mean_okb`, exact rational
   arithmetic) is exactly the bound of C09_fp_mean: k = #terms + #cleared accumulators *)
Theorem C09_fp_mean_check_sound : forall k vs fx, (0 <= k)%Z -> vs <> nil -> IZR k * u64 < 1 -> fp_mean_okb k vs fx = true ->
  Rabs (Q2R fx - rsum (map Q2R vs) / IZR (Z.of_nat (length vs))) <=
  gamma u64 (Z.to_nat k) * (rabs_sum (map Q2R vs) / IZR (Z.of_nat (length vs))) + eta64.
Proof. exact fp_mean_okb_sound. Qed.
Print Assumptions C09_fp_mean_check_sound.

(* ---- non-vacuity of the extension ---------------------------------------------------------------------------------- *)
(* the schedule of C09_nonvacuous_schedule is valid (theorems 10-12) *)
Example C09R_nonvacuous_schedule : valid_schedule 2 7 3 ex_sched /\ (1 <= 2)%nat /\ (1 <= 3)%Z.
Proof. split; [apply schedule_okb_sound; vm_compute; reflexivity | split; lia]. Qed.
(* the hypothesis `loss_deriv` / `loss_subgradient` of 14-16 is inhabited by registered losses; pinball's alpha range too *)
Example C09R_nonvacuous_losses :
  loss_deriv (rl_ideal RLogistic) (rl_grad RLogistic) /\ loss_deriv (rl_ideal RClassnll) (rl_grad RClassnll) /\
  loss_subgradient (rl_value RHinge) (rl_grad RHinge) /\ loss_subgradient (rl_value (RPinball (/ 2))) (rl_grad (RPinball (/ 2))) /\
  (forall t o, length t = length o -> length (rl_grad RLogistic t o) = length o).
Proof.
  split; [|split; [|split; [|split]]].
  - apply rl_smooth_deriv; reflexivity.
  - apply rl_smooth_deriv; reflexivity.
  - apply rl_convex_subgradient; [reflexivity | discriminate].
  - apply rl_convex_subgradient; [reflexivity | intros a E; injection E as <-; lra].
  - intros t o H. cbn [rl_grad]. unfold loss_g. revert o H. induction t as [|a t IH]; intros [|b o] H; cbn in *; try discriminate; auto.
Qed.
(* shapes of 14 / 15: a 2 x 2 weight matrix and its unit perturbation *)
Example C09R_nonvacuous_shapes : same_shape [[1; 2]; [3; 4]] (runitmat 2 2 1 0) /\ runitmat 2 2 1 0 = [[0; 0]; [1; 0]] /\
  rlin_out [[1; 2]; [3; 4]] [5; 6] [1; 1] = [1 * 1 + (2 * 1 + 0) + 5; 3 * 1 + (4 * 1 + 0) + 6].
Proof. split; [|split]; try reflexivity. repeat constructor. Qed.
(* 17: a tree of representable numbers exists, and n u < 1 for every n the property considers (n <= 2^52) *)
Example C09_nonvacuous_fp_check : fp_mean_okb 3 [1; 1 # 2]%Q (3 # 4)%Q = true /\ fp_mean_okb 3 [1; 1 # 2]%Q ((3 # 4) + (1 # 1000000000000000))%Q = false /\
  IZR 3 * u64 < 1.
Proof. split; [vm_compute; reflexivity | split; [vm_compute; reflexivity | unfold u64; lra]]. Qed.
Example C09_nonvacuous_fp : all_fmt fmt64 (Node (Node (Leaf 1) (Leaf 0)) (Leaf 1)) /\ INR (3 - 1) * u64 < 1 /\
  Permutation (leaves (Node (Node (Leaf 1) (Leaf 0)) (Leaf 1))) ([1; 1] ++ repeat 0 1).
Proof.
  assert (F1 : fmt64 1).
  { change 1 with (Flocq.Core.Raux.bpow Flocq.Core.Zaux.radix2 0). apply Flocq.Core.Generic_fmt.generic_format_bpow.
    unfold fexp64, Flocq.Core.FLT.FLT_exp. cbn. lia. }
  assert (F0 : fmt64 0) by apply Flocq.Core.Generic_fmt.generic_format_0.
  split; [cbn; auto|]. split; [unfold u64; cbn; lra|]. cbn. apply perm_skip. apply perm_swap.
Qed.
