(* C09 -- ML objectives equal their definitions for any thread count / batch size / schedule.
   Only statements + `exact` + Print Assumptions (+ non-vacuity examples) live here.
   Model: C09_Defs (exact rationals; chunk bounds = kernels of parallel.h shared with C17, sum_reduce loop
   bounds, parameter layout, unassigned-sample tests, cache tests = kernels translated on every run).
   A schedule is the list of (chunk, worker) events in completion order; `valid_schedule workers n batch sched` says:
   the chunks are a permutation of pool_t::map's chunks of [0,n) and every worker index is below the number of
   per-thread accumulators.  EVERY theorem quantifies over every number of workers, every batch size and every valid
   schedule (assignment chunk -> worker and completion order). *)
From Coq Require Import List ZArith QArith Bool Permutation Morphisms.
From LNGen Require Import Src_parallel Src_c09.
From LN Require Import C17_Defs C17_Statements C09_Defs C09_Proofs.
Import ListNotations.
Local Open Scope Q_scope.

(* 1. the reduction, generically: per-thread accumulation + sum_reduce over ANY commutative monoid (scalars, gradient
      vectors, ...) is the plain sum over [0,n) *)
Theorem C09_reduce_any_monoid : forall (A : Type) (aeq : A -> A -> Prop) (add : A -> A -> A) (zero : A),
  Equivalence aeq -> Proper (aeq ==> aeq ==> aeq) add ->
  (forall a b, aeq (add a b) (add b a)) -> (forall a b c, aeq (add (add a b) c) (add a (add b c))) ->
  (forall a, aeq (add zero a) a) ->
  forall (term : Z -> A) workers n batch sched,
  (1 <= workers)%nat -> (1 <= batch)%Z -> (0 <= n)%Z -> valid_schedule workers n batch sched ->
  aeq (map_reduce add zero term workers sched) (range_sum add zero term 0 (Z.to_nat n)).
Proof. exact @map_reduce_schedule_independent. Qed.
Print Assumptions C09_reduce_any_monoid.

(* 2. ... over Q followed by the division by #samples it is the mean *)
Theorem C09_schedule_independent : forall (f : Z -> Q) workers n batch sched,
  (1 <= workers)%nat -> (1 <= batch)%Z -> (0 <= n)%Z -> valid_schedule workers n batch sched ->
  reduced_mean f workers sched n == naive_mean f n.
Proof. exact reduced_mean_naive. Qed.
Print Assumptions C09_schedule_independent.

(* 3. linear::function_t: value = mean_i loss(t_i, W x_i + b) + l1 mean|W| + l2/2 mean W^2 (r2 = sqrt(l2) as the code
      stores it), for any loss *)
Theorem C09_linear_value_def : forall (lval : list Q -> list Q -> Q) (lgrad : list Q -> list Q -> list Q)
  isize tsize l1 l2 r2 x T X workers batch sched,
  length T = length X -> 0 <= l1 -> 0 <= l2 -> r2 * r2 == l2 ->
  (1 <= workers)%nat -> (1 <= batch)%Z -> valid_schedule workers (Z.of_nat (length X)) batch sched ->
  lin_value lval lgrad isize tsize l1 l2 r2 x T X workers sched == lin_naive_value lval isize tsize l1 l2 x T X.
Proof. exact lin_value_def. Qed.
Print Assumptions C09_linear_value_def.

(* ... and the matching gradient, coordinate by coordinate of the parameter layout translated from the source:
   d/dW(c,j) = mean_i dloss_c(i) x_i(j) + l1 sign(W(c,j))/#W + l2 W(c,j)/#W,   d/db(c) = mean_i dloss_c(i) *)
Theorem C09_linear_grad_W_def : forall (lval : list Q -> list Q -> Q) (lgrad : list Q -> list Q -> list Q),
  (forall t o, length t = length o -> length (lgrad t o) = length o) ->
  forall isize tsize x T X,
  Forall (fun t => length t = Z.to_nat tsize) T -> (0 <= isize)%Z -> (0 <= tsize)%Z ->
  Z.of_nat (length x) = src_c09_lin_size isize tsize ->
  Forall (fun xi => length xi = Z.to_nat isize) X -> length T = length X ->
  forall l1 l2 workers batch sched c j,
  0 <= l1 -> 0 <= l2 -> (1 <= workers)%nat -> (1 <= batch)%Z ->
  valid_schedule workers (Z.of_nat (length X)) batch sched ->
  (c < Z.to_nat tsize)%nat -> (j < Z.to_nat isize)%nat ->
  nth (c * Z.to_nat isize + j) (lin_grad lval lgrad isize tsize l1 l2 x T X workers sched) 0 ==
  lin_naive_gW lgrad isize tsize l1 l2 x T X c j.
Proof. exact lin_grad_W_def. Qed.
Print Assumptions C09_linear_grad_W_def.

Theorem C09_linear_grad_b_def : forall (lval : list Q -> list Q -> Q) (lgrad : list Q -> list Q -> list Q),
  (forall t o, length t = length o -> length (lgrad t o) = length o) ->
  forall isize tsize x T X,
  Forall (fun t => length t = Z.to_nat tsize) T -> (0 <= isize)%Z -> (0 <= tsize)%Z ->
  Z.of_nat (length x) = src_c09_lin_size isize tsize ->
  Forall (fun xi => length xi = Z.to_nat isize) X -> length T = length X ->
  forall (l1 l2 : Q) workers batch sched c,
  (1 <= workers)%nat -> (1 <= batch)%Z -> valid_schedule workers (Z.of_nat (length X)) batch sched ->
  (c < Z.to_nat tsize)%nat ->
  nth (Z.to_nat (src_c09_lin_bias_offset isize tsize) + c) (lin_grad lval lgrad isize tsize l1 l2 x T X workers sched) 0 ==
  lin_naive_gb lgrad isize tsize x T X c.
Proof. exact lin_grad_b_def. Qed.
Print Assumptions C09_linear_grad_b_def.

(* 4. gboost::bias_function_t: mean_i loss(t_i, b) and its gradient *)
Theorem C09_gboost_bias_def : forall (lval : list Q -> list Q -> Q) (lgrad : list Q -> list Q -> list Q)
  x T workers batch sched,
  (1 <= workers)%nat -> (1 <= batch)%Z -> valid_schedule workers (Z.of_nat (length T)) batch sched ->
  bias_value lval lgrad x T workers sched == bias_naive_value lval x T /\
  (forall c, (c < length x)%nat -> nth c (bias_grad lval lgrad x T workers sched) 0 == bias_naive_grad lgrad x T c).
Proof.
  intros lval lgrad x T workers batch sched Hw Hb Hs. split.
  - exact (bias_value_def lval lgrad x T workers batch sched Hw Hb Hs).
  - intros c Hc. exact (bias_grad_def lval lgrad x T workers batch sched c Hw Hb Hs Hc).
Qed.
Print Assumptions C09_gboost_bias_def.

(* 5. gboost::scale_function_t: mean_i loss(t_i, s_i + x[cluster_i] w_i), unassigned (group < 0: test translated from
      the source) samples unscaled; gradient wrt x[g] = mean_i [cluster_i = g] <dloss_i, w_i> *)
Theorem C09_gboost_scale_value_def : forall (lval : list Q -> list Q -> Q) (lgrad : list Q -> list Q -> list Q),
  (forall t o o', Forall2 Qeq o o' -> lval t o == lval t o') ->
  forall x groups S0 Wk T smp,
  length T = length smp ->
  (forall s, In s smp -> length (nthZ S0 s nil) = length (nthZ Wk s nil)) ->
  forall workers batch sched,
  (1 <= workers)%nat -> (1 <= batch)%Z -> valid_schedule workers (Z.of_nat (length smp)) batch sched ->
  scale_value lval lgrad x groups S0 Wk T smp workers sched == scale_naive_value lval x groups S0 Wk T smp.
Proof. exact scale_value_def. Qed.
Print Assumptions C09_gboost_scale_value_def.

Theorem C09_gboost_scale_grad_def : forall (lval : list Q -> list Q -> Q) (lgrad : list Q -> list Q -> list Q)
  x groups S0 Wk T smp,
  length T = length smp ->
  forall workers batch sched g,
  (1 <= workers)%nat -> (1 <= batch)%Z -> valid_schedule workers (Z.of_nat (length smp)) batch sched ->
  (g < length x)%nat ->
  nth g (scale_grad lval lgrad x groups S0 Wk T smp workers sched) 0 ==
  scale_naive_grad lgrad x groups S0 Wk T smp (Z.of_nat g).
Proof. exact scale_grad_def. Qed.
Print Assumptions C09_gboost_scale_grad_def.

(* 6. gboost::grads_function_t: the per-sample value / gradient buffers are written range by range over whatever they
      held before; afterwards they hold exactly the per-sample losses / loss gradients (Leibniz equality), the value is
      their mean and the reported gradient the per-sample gradient divided by #samples *)
Theorem C09_gboost_grads_def : forall (lval : list Q -> list Q -> Q) (lgrad : list Q -> list Q -> list Q)
  T O workers batch sched (oldv : list Q) (oldg : list (list Q)),
  (1 <= batch)%Z -> valid_schedule workers (Z.of_nat (length O)) batch sched ->
  length oldv = length O -> length oldg = length O ->
  grads_value lval T O sched oldv == grads_naive_value lval T O /\
  grads_gbuf lgrad T O sched oldg = map (fun i => lgrad (nthZ T i nil) (nthZ O i nil)) (zrange 0 (length O)) /\
  grads_grad lgrad T O sched oldg =
    map (fun i => map (fun a => a / inject_Z (Z.of_nat (length O))) (lgrad (nthZ T i nil) (nthZ O i nil)))
        (zrange 0 (length O)).
Proof.
  intros lval lgrad T O workers batch sched oldv oldg Hb Hs Hv Hg. split.
  - exact (grads_value_def lval T O workers batch sched oldv Hb Hs Hv).
  - exact (grads_gradients_def lgrad T O workers batch sched oldg Hb Hs Hg).
Qed.
Print Assumptions C09_gboost_grads_def.

(* 7. caching is transparent: the flatten / targets caches, filled range by range under any schedule over stale
      content, deliver for every range exactly the rows the direct computation delivers; without a cache (refused or
      disabled: the cache tests are translated from iterator.cpp) the rows are computed directly *)
Theorem C09_cache_transparent : forall (B : Type) (row : Z -> B) workers n batch sched (old : list B) (c : Z * Z),
  (1 <= batch)%Z -> (0 <= n)%Z -> valid_schedule workers n batch sched -> Z.of_nat (length old) = n ->
  (0 <= fst c)%Z -> (fst c <= snd c)%Z -> (snd c <= n)%Z ->
  deliver row (fill_cache row sched old) n c = map row (zrange (fst c) (Z.to_nat (snd c - fst c))) /\
  deliver_targets row (fill_cache row sched old) n c = map row (zrange (fst c) (Z.to_nat (snd c - fst c))).
Proof. exact @cache_transparent. Qed.
Print Assumptions C09_cache_transparent.

Theorem C09_no_cache_direct : forall (B : Type) (row : Z -> B) n (c : Z * Z), (0 < n)%Z ->
  deliver row nil n c = map row (zrange (fst c) (Z.to_nat (snd c - fst c))) /\
  deliver_targets row nil n c = map row (zrange (fst c) (Z.to_nat (snd c - fst c))).
Proof. exact @no_cache_direct. Qed.
Print Assumptions C09_no_cache_direct.

(* 8. the premise is what the implementation does: the schedules observed in a run are recognised by the executable test
      used by the driver (sound), and the single-thread fast path of map() is a valid schedule for any pool size *)
Theorem C09_observed_schedules_valid : forall workers n batch sched,
  (schedule_okb workers n batch sched = true -> valid_schedule workers n batch sched) /\
  ((1 <= workers)%nat -> valid_schedule workers n batch (inline_schedule n batch)).
Proof. intros workers n batch sched. split; [apply schedule_okb_sound | apply inline_schedule_valid]. Qed.
Print Assumptions C09_observed_schedules_valid.

(* 9. the four rational loss instances (mse, mae, hinge, squared hinge) used by the correspondence are convex with the
      gradient the code returns being a sub-gradient -- also at the kinks, where the code returns sign(0) = 0 *)
Theorem C09_loss_subgradient : forall l t o o', length t = length o -> length o = length o' ->
  loss_value l t o + dot (loss_vgrad l t o) (vsub o' o) <= loss_value l t o'.
Proof. exact loss_subgradient. Qed.
Print Assumptions C09_loss_subgradient.

(* ---- non-vacuity ----------------------------------------------------------------------------------------------- *)
(* 7 samples, batch 3 -> chunks [0,3) [3,6) [6,7); 2 workers; completion order 2,0,1 with workers 1,0,1: valid, and the
   reduced mean of f(i) = i is 3 *)
Definition ex_sched : list ((Z * Z) * nat) := [((6, 7)%Z, 1%nat); ((0, 3)%Z, 0%nat); ((3, 6)%Z, 1%nat)].
Example C09_nonvacuous_schedule :
  schedule_okb 2 7 3 ex_sched = true /\ schedule_okb 1 7 3 ex_sched = false /\
  schedule_okb 2 7 3 (tl ex_sched) = false /\
  Qeq_bool (reduced_mean (fun i => inject_Z i) 2 ex_sched 7) 3 = true /\
  Qeq_bool (naive_mean (fun i => inject_Z i) 7) 3 = true.
Proof. vm_compute. repeat split; reflexivity. Qed.

(* a stale cache of 7 rows is fully overwritten and delivers the direct rows *)
Example C09_nonvacuous_cache :
  deliver (fun i => i) (fill_cache (fun i => i) ex_sched [9; 9; 9; 9; 9; 9; 9]%Z) 7 (2, 5)%Z = [2; 3; 4]%Z.
Proof. vm_compute. reflexivity. Qed.
