(* C09 -- ML objectives equal their definitions for any thread count / batch size / schedule.
   Only statements + `exact` + Print Assumptions (+ non-vacuity examples) live here.
   Model: C09_Defs (exact rationals; chunk bounds = kernels of parallel.h shared with C17, sum_reduce loop
   bounds, parameter layout, unassigned-sample tests, cache tests = kernels translated on every run). *)
From Coq Require Import List ZArith QArith Bool Permutation Morphisms.
From LNGen Require Import Src_parallel Src_c09.
From LN Require Import C17_Defs C17_Statements C09_Defs C09_Proofs.
Import ListNotations.
Local Open Scope Q_scope.

(* 2. schedule independence of the reduction: for every number of workers, batch size, assignment
      chunk -> worker and completion order, accumulate-per-thread + sum_reduce + division by #samples is the mean *)
Theorem C09_schedule_independent : forall (f : Z -> Q) workers n batch sched,
  (1 <= workers)%nat -> (1 <= batch)%Z -> (0 <= n)%Z -> valid_schedule workers n batch sched ->
  reduced_mean f workers sched n == naive_mean f n.
Proof. exact reduced_mean_naive. Qed.
Print Assumptions C09_schedule_independent.
