(* C11 -- proofs about the model of C11_Defs *)
From Coq Require Import List ZArith Bool Lia QArith Arith.
From LNGen Require Import Src_earlystop Src_mlresult.
From LN Require Import C11_Defs.
Import ListNotations.
Local Open Scope Z_scope.

(* ------------------------------------------------------------------------------------------------------------ *)
(* 1. the monitor refines the declarative specification, for every history and any comparison operators          *)
(* ------------------------------------------------------------------------------------------------------------ *)
Section EarlyStopProofs.
  Variables T V : Type.
  Variable ltb : T -> T -> bool.
  Variable sub : T -> T -> T.
  Variables (eps tmax : T) (patience : Z) (v0 : V).

  Notation done_ := (@es_done T V ltb sub eps patience).
  Notation run_ := (@es_run T V ltb sub eps patience).
  Notation until_ := (@es_until T V ltb sub eps patience).
  Notation upd_ := (@upd_by T V ltb sub eps).
  Notation value_ := (@sp_value T V ltb sub eps tmax).
  Notation last_ := (@sp_last T V ltb sub eps tmax).
  Notation round_ := (@sp_round T V ltb sub eps tmax).
  Notation state_ := (@sp_state T V ltb sub eps tmax v0).
  Notation stop_ := (@sp_stop T V ltb sub eps tmax patience).

  Lemma value_of_last : forall older : list (obs T V),
    value_ older = match last_ older with None => tmax | Some o => o_valid o end.
  Proof.
    induction older as [|o r IH]; simpl; [reflexivity|].
    destruct (upd_ (value_ r) o); [reflexivity|exact IH].
  Qed.

  Lemma state_value : forall older : list (obs T V), es_value (state_ older) = value_ older.
  Proof.
    intros older. rewrite value_of_last. unfold sp_state. destruct (last_ older); reflexivity.
  Qed.

  Lemma state_round : forall older : list (obs T V), es_round (state_ older) = round_ older.
  Proof.
    intros older. unfold sp_state, sp_round. destruct (last_ older); reflexivity.
  Qed.

  (* one call: result and new state are the specified ones *)
  Lemma step_spec : forall (older : list (obs T V)) o,
    done_ (state_ older) o = (stop_ older o, state_ (o :: older)).
  Proof.
    intros older o. unfold es_done, sp_stop.
    rewrite state_value, state_round.
    unfold src_es_train_exit, src_es_accept, src_es_wait, src_es_wait_result, src_es_giveup_result.
    unfold sp_state at 1 2 3. simpl sp_last. unfold upd_by.
    destruct (ltb (o_train o) eps) eqn:Htr; simpl.
    - unfold snap, src_es_round_update. reflexivity.
    - destruct (ltb (o_valid o) (sub (value_ older) eps) || (o_nvalid o =? 0)) eqn:Hacc; simpl.
      + unfold snap, src_es_round_update. reflexivity.
      + fold (sp_state ltb sub eps tmax v0 older).
        destruct (o_size o <? round_ older + patience) eqn:Hw.
        * apply Z.ltb_lt in Hw. f_equal. symmetry. apply Z.leb_gt. exact Hw.
        * apply Z.ltb_ge in Hw. f_equal. symmetry. apply Z.leb_le. exact Hw.
  Qed.

  Lemma run_app : forall s h o, run_ s (h ++ [o]) = snd (done_ (run_ s h) o).
  Proof. intros s h o. unfold es_run. rewrite fold_left_app. reflexivity. Qed.

  Lemma run_spec : forall h, run_ (es_init tmax v0) h = state_ (rev h).
  Proof.
    induction h as [|o h IH] using rev_ind.
    - reflexivity.
    - rewrite run_app, IH, step_spec, rev_app_distr. reflexivity.
  Qed.

  Theorem refines_spec : forall h o,
    done_ (run_ (es_init tmax v0) h) o = (stop_ (rev h) o, state_ (rev (h ++ [o]))).
  Proof.
    intros h o. rewrite run_spec, step_spec, rev_app_distr. reflexivity.
  Qed.

  (* the way the boosting loop uses it: first call that answers true *)
  Definition first_stop_spec (h : list (obs T V)) (res : option nat * es T V) : Prop :=
    match res with
    | (Some k, s) =>
        (forall i o, (i < k)%nat -> nth_error h i = Some o -> stop_ (rev (firstn i h)) o = false) /\
        (exists o, nth_error h k = Some o /\ stop_ (rev (firstn k h)) o = true) /\
        s = state_ (rev (firstn (S k) h))
    | (None, s) =>
        (forall i o, nth_error h i = Some o -> stop_ (rev (firstn i h)) o = false) /\
        s = state_ (rev h)
    end.

  Lemma firstn_app_len {A} (l r : list A) : firstn (length l) (l ++ r) = l.
  Proof. rewrite firstn_app, Nat.sub_diag, firstn_all. simpl. apply app_nil_r. Qed.

  Lemma until_gen : forall h pre,
    match until_ (state_ (rev pre)) (length pre) h with
    | (Some k, s) =>
        (length pre <= k)%nat /\
        (forall i o, (length pre <= i < k)%nat -> nth_error (pre ++ h) i = Some o ->
                     stop_ (rev (firstn i (pre ++ h))) o = false) /\
        (exists o, nth_error (pre ++ h) k = Some o /\ stop_ (rev (firstn k (pre ++ h))) o = true) /\
        s = state_ (rev (firstn (S k) (pre ++ h)))
    | (None, s) =>
        (forall i o, (length pre <= i)%nat -> nth_error (pre ++ h) i = Some o ->
                     stop_ (rev (firstn i (pre ++ h))) o = false) /\
        s = state_ (rev (pre ++ h))
    end.
  Proof.
    induction h as [|o r IH]; intros pre.
    - simpl. split.
      + intros i o Hi Hn. rewrite app_nil_r in Hn.
        assert (Hx : nth_error pre i <> None) by (rewrite Hn; discriminate).
        apply nth_error_Some in Hx. lia.
      + rewrite app_nil_r. reflexivity.
    - simpl es_until. rewrite step_spec. simpl fst. simpl snd.
      assert (Hnth : nth_error (pre ++ o :: r) (length pre) = Some o).
      { rewrite nth_error_app2 by lia. rewrite Nat.sub_diag. reflexivity. }
      destruct (stop_ (rev pre) o) eqn:Hstop.
      + split; [lia|]. split; [intros i o' Hi; lia|]. split.
        * exists o. split; [exact Hnth|]. rewrite firstn_app_len. exact Hstop.
        * replace (pre ++ o :: r) with ((pre ++ [o]) ++ r) by (rewrite <- app_assoc; reflexivity).
          replace (S (length pre)) with (length (pre ++ [o])) by (rewrite app_length; simpl; lia).
          rewrite firstn_app_len, rev_app_distr. reflexivity.
      + specialize (IH (pre ++ [o])).
        rewrite rev_app_distr in IH. simpl rev in IH. simpl app in IH.
        replace (length (pre ++ [o])) with (S (length pre)) in IH by (rewrite app_length; simpl; lia).
        replace ((pre ++ [o]) ++ r) with (pre ++ o :: r) in IH by (rewrite <- app_assoc; reflexivity).
        destruct (until_ (state_ (o :: rev pre)) (S (length pre)) r) as [[k|] s].
        * destruct IH as (Hk & Hbefore & Hat & Hs). split; [lia|]. split; [|split; assumption].
          intros i o' Hi Hn. destruct (Nat.eq_dec i (length pre)) as [->|Hne].
          -- rewrite Hnth in Hn. injection Hn as <-. rewrite firstn_app_len. exact Hstop.
          -- apply Hbefore; [lia|exact Hn].
        * destruct IH as (Hbefore & Hs). split; [|exact Hs].
          intros i o' Hi Hn. destruct (Nat.eq_dec i (length pre)) as [->|Hne].
          -- rewrite Hnth in Hn. injection Hn as <-. rewrite firstn_app_len. exact Hstop.
          -- apply Hbefore; [lia|exact Hn].
  Qed.

  Theorem until_spec : forall h, first_stop_spec h (until_ (es_init tmax v0) 0%nat h).
  Proof.
    intros h. pose proof (until_gen h []) as H. simpl in H. unfold first_stop_spec.
    change (sp_state ltb sub eps tmax v0 []) with (es_init tmax v0) in H.
    destruct (until_ (es_init tmax v0) 0%nat h) as [[k|] s].
    - destruct H as (_ & Hb & Hat & Hs). split; [|split; assumption].
      intros i o Hi. apply Hb. lia.
    - destruct H as (Hb & Hs). split; [|exact Hs]. intros i o. apply Hb. lia.
  Qed.

  (* ---- index reading of the specification: the state is the snapshot of the latest updating call ---- *)
  Definition updating (h : list (obs T V)) (i : nat) : Prop :=
    exists o, nth_error h i = Some o /\ upd_ (value_ (rev (firstn i h))) o = true.

  Lemma last_snoc : forall pre o,
    last_ (rev (pre ++ [o])) = if upd_ (value_ (rev pre)) o then Some o else last_ (rev pre).
  Proof. intros pre o. rewrite rev_app_distr. reflexivity. Qed.

  Lemma firstn_snoc {A} : forall (h : list A) i o, nth_error h i = Some o -> firstn (S i) h = firstn i h ++ [o].
  Proof.
    induction h as [|a h IH]; intros i o Hn.
    - destruct i; discriminate.
    - destruct i as [|i]; simpl in *.
      + injection Hn as ->. reflexivity.
      + f_equal. apply IH. exact Hn.
  Qed.

  Theorem last_snapshot : forall h n, (n <= length h)%nat ->
    match last_ (rev (firstn n h)) with
    | Some o => exists j, (j < n)%nat /\ nth_error h j = Some o /\ updating h j /\
                          (forall m, (j < m < n)%nat -> ~ updating h m)
    | None => forall m, (m < n)%nat -> ~ updating h m
    end.
  Proof.
    intros h n. induction n as [|n IH]; intros Hn.
    - simpl. intros m Hm. lia.
    - assert (Hx : nth_error h n <> None) by (apply nth_error_Some; lia).
      destruct (nth_error h n) as [o|] eqn:Hnth; [clear Hx|contradiction].
      rewrite (firstn_snoc h n o Hnth), last_snoc.
      specialize (IH ltac:(lia)).
      destruct (upd_ (value_ (rev (firstn n h))) o) eqn:Hu.
      + exists n. split; [lia|]. split; [exact Hnth|]. split.
        * exists o. split; assumption.
        * intros m Hm. lia.
      + assert (Hnot : ~ updating h n).
        { intros (o' & Ho' & Hu'). rewrite Hnth in Ho'. injection Ho' as <-. rewrite Hu in Hu'. discriminate. }
        destruct (last_ (rev (firstn n h))) as [o'|].
        * destruct IH as (j & Hj & Hjn & Hju & Hjm). exists j. split; [lia|]. split; [exact Hjn|].
          split; [exact Hju|]. intros m Hm. destruct (Nat.eq_dec m n) as [->|Hne]; [exact Hnot|].
          apply Hjm. lia.
        * intros m Hm. destruct (Nat.eq_dec m n) as [->|Hne]; [exact Hnot|]. apply IH. lia.
  Qed.

  (* ---- histories shaped as in the boosting loop (call k sees k learners), patience >= 1 ---- *)
  (* ---- the four branches ---- *)
  Definition accept_ (s : es T V) (o : obs T V) : bool :=
    ltb (o_valid o) (sub (es_value s) eps) || (o_nvalid o =? 0).

  Lemma done_cases : forall s o,
    (ltb (o_train o) eps = true /\ done_ s o = (true, snap o)) \/
    (ltb (o_train o) eps = false /\ accept_ s o = true /\ done_ s o = (false, snap o)) \/
    (ltb (o_train o) eps = false /\ accept_ s o = false /\ o_size o < es_round s + patience /\ done_ s o = (false, s)) \/
    (ltb (o_train o) eps = false /\ accept_ s o = false /\ es_round s + patience <= o_size o /\ done_ s o = (true, s)).
  Proof.
    intros s o. unfold es_done, accept_, src_es_train_exit, src_es_accept, src_es_wait, src_es_wait_result,
      src_es_giveup_result.
    destruct (ltb (o_train o) eps); [left; split; reflexivity|right].
    destruct (ltb (o_valid o) (sub (es_value s) eps) || (o_nvalid o =? 0)).
    - left. repeat split.
    - right. destruct (o_size o <? es_round s + patience) eqn:Hw.
      + left. apply Z.ltb_lt in Hw. repeat split. exact Hw.
      + right. apply Z.ltb_ge in Hw. repeat split. exact Hw.
  Qed.

  Lemma snap_round : forall o : obs T V, es_round (snap o) = o_size o.
  Proof. reflexivity. Qed.

  (* ---- histories shaped as in the boosting loop (call k sees k learners), patience >= 1 ---- *)
  (* c = the number of learners seen by the stopping call *)
  Definition window_spec (k : Z) (n : nat) (h : list (obs T V)) (res : option nat * es T V) : Prop :=
    match res with
    | (Some m, s') =>
        (n <= m)%nat /\
        exists o, nth_error h (m - n) = Some o /\
          let c := k + Z.of_nat (m - n) in
          0 <= es_round s' <= c /\
          ((ltb (o_train o) eps = true /\ s' = snap o /\ es_round s' = c) \/
           (ltb (o_train o) eps = false /\ c = es_round s' + patience))
    | (None, s') => 0 <= es_round s' <= k + Z.of_nat (length h) /\ k + Z.of_nat (length h) <= es_round s' + patience
    end.

  Lemma until_window : forall h k n s,
    fit_shaped k h -> 1 <= patience ->
    0 <= es_round s <= k -> k <= es_round s + patience ->
    window_spec k n h (until_ s n h).
  Proof.
    induction h as [|o r IH]; intros k n s Hfs Hp Hr Hk.
    - simpl. lia.
    - destruct Hfs as (Hsz & Hfs). simpl es_until.
      destruct (done_cases s o) as [(Htr & Hd)|[(Htr & Hacc & Hd)|[(Htr & Hacc & Hw & Hd)|(Htr & Hacc & Hw & Hd)]]];
        rewrite Hd; simpl fst; simpl snd; cbv iota.
      + unfold window_spec. split; [lia|]. exists o. rewrite Nat.sub_diag. split; [reflexivity|].
        cbv zeta. rewrite snap_round, Hsz. change (Z.of_nat 0) with 0. split; [lia|]. left.
        split; [exact Htr|]. split; [reflexivity|]. lia.
      + specialize (IH (k + 1) (S n) (snap o) Hfs Hp).
        rewrite snap_round, Hsz in IH. specialize (IH ltac:(lia) ltac:(lia)).
        unfold window_spec in *. destruct (until_ (snap o) (S n) r) as [[m|] s'].
        * destruct IH as (Hm & o' & Hn' & Hc). split; [lia|]. exists o'.
          replace (m - n)%nat with (S (m - S n)) by lia. simpl nth_error. split; [exact Hn'|].
          replace (k + Z.of_nat (S (m - S n))) with (k + 1 + Z.of_nat (m - S n)) by lia. exact Hc.
        * simpl length. lia.
      + specialize (IH (k + 1) (S n) s Hfs Hp ltac:(lia) ltac:(lia)).
        unfold window_spec in *. destruct (until_ s (S n) r) as [[m|] s'].
        * destruct IH as (Hm & o' & Hn' & Hc). split; [lia|]. exists o'.
          replace (m - n)%nat with (S (m - S n)) by lia. simpl nth_error. split; [exact Hn'|].
          replace (k + Z.of_nat (S (m - S n))) with (k + 1 + Z.of_nat (m - S n)) by lia. exact Hc.
        * simpl length. lia.
      + unfold window_spec. split; [lia|]. exists o. rewrite Nat.sub_diag. split; [reflexivity|].
        cbv zeta. change (Z.of_nat 0) with 0. split; [lia|]. right. split; [exact Htr|]. lia.
  Qed.

  Theorem patience_window : forall h, fit_shaped 0 h -> 1 <= patience ->
    window_spec 0 0%nat h (until_ (es_init tmax v0) 0%nat h).
  Proof. intros h Hfs Hp. apply until_window; simpl; try assumption; lia. Qed.
End EarlyStopProofs.

(* ------------------------------------------------------------------------------------------------------------ *)
(* 2. the boosting loop keeps exactly the learners of the rounds up to the monitor's round                        *)
(* ------------------------------------------------------------------------------------------------------------ *)
Section LoopProofs.
  Variables T V W : Type.
  Variable ltb : T -> T -> bool.
  Variable sub : T -> T -> T.
  Variables (eps tmax : T) (patience : Z).

  Notation rounds_ := (@rounds T V W ltb sub eps patience).
  Notation lstate_ := (lstate T V W).

  (* what holds of the loop state st, given the learners ws and observations os of all rounds so far *)
  Definition loop_ok (v0 : V) (ws : list W) (os : list (obs T V)) (st : lstate_) : Prop :=
    0 <= es_round (ls_es st) <= Z.of_nat (length (ls_learners st)) /\
    ls_rows st = Z.of_nat (length (ls_learners st)) + 1 /\
    firstn (Z.to_nat (es_round (ls_es st))) (ls_learners st) = firstn (Z.to_nat (es_round (ls_es st))) ws /\
    snapshot_of v0 os (ls_es st).

  Lemma firstn_app_le {A} (n : nat) (l r r' : list A) : (n <= length l)%nat -> firstn n (l ++ r) = firstn n (l ++ r').
  Proof.
    intros Hn. rewrite !firstn_app. replace (n - length l)%nat with 0%nat by lia. reflexivity.
  Qed.

  Lemma firstn_app_le0 {A} (n : nat) (l r : list A) : (n <= length l)%nat -> firstn n l = firstn n (l ++ r).
  Proof.
    intros Hn. rewrite firstn_app. replace (n - length l)%nat with 0%nat by lia. simpl. rewrite app_nil_r. reflexivity.
  Qed.

  Lemma snapshot_of_app : forall v0 os os' (s : es T V),
    es_round s <= Z.of_nat (length os) -> snapshot_of v0 os s -> snapshot_of v0 (os ++ os') s.
  Proof.
    intros v0 os os' s Hr [H|(H1 & o & Hn & Hv)]; [left; exact H|right].
    split; [exact H1|]. exists o. split; [|exact Hv].
    rewrite nth_error_app1; [exact Hn|]. lia.
  Qed.

  Lemma rounds_inv : forall evs st os v0,
    length os = length (ls_learners st) ->
    loop_ok v0 (ls_learners st) os st ->
    loop_ok v0 (ls_learners st ++ round_ws evs) (os ++ round_obs evs) (rounds_ st evs).
  Proof.
    induction evs as [|e r IH]; intros st os v0 Hlen (Hr & Hrows & Hfn & Hsn).
    - simpl. rewrite !app_nil_r. repeat split; try assumption; lia.
    - destruct e as [|w|w o].
      + simpl. rewrite !app_nil_r. repeat split; try assumption; lia.
      + simpl. rewrite !app_nil_r. unfold loop_ok. simpl. rewrite app_length. simpl.
        split; [lia|]. split; [lia|]. split; [|exact Hsn].
        symmetry. apply firstn_app_le0. lia.
      + simpl rounds. simpl round_ws. simpl round_obs.
        set (ws' := ls_learners st ++ [w]).
        set (o' := at_size o (Z.of_nat (length ws'))).
        assert (Hlen' : length ws' = S (length (ls_learners st))) by (unfold ws'; rewrite app_length; simpl; lia).
        assert (Hsz : o_size o' = Z.of_nat (length ws')) by reflexivity.
        assert (Hval : o_values o' = o_values o /\ o_valid o' = o_valid o) by (split; reflexivity).
        (* state after a snapshot / without one *)
        assert (Hsnap : loop_ok v0 (ls_learners st ++ w :: round_ws r) (os ++ o :: round_obs r)
                          (mk_ls ws' (ls_rows st + 1) (snap o'))).
        { unfold loop_ok. simpl ls_es. simpl ls_learners. simpl ls_rows. rewrite snap_round, Hsz.
          split; [lia|]. split; [lia|]. split.
          - rewrite Nat2Z.id. unfold ws'.
            replace (ls_learners st ++ w :: round_ws r) with ((ls_learners st ++ [w]) ++ round_ws r)
              by (rewrite <- app_assoc; reflexivity).
            apply firstn_app_le0. fold ws'. lia.
          - right. rewrite snap_round, Hsz. split; [lia|]. exists o.
            split; [|split; reflexivity].
            rewrite Nat2Z.id, Hlen', <- Hlen. simpl. rewrite Nat.sub_0_r.
            rewrite nth_error_app2 by lia. rewrite Nat.sub_diag. reflexivity. }
        assert (Hkeep : loop_ok v0 (ls_learners st ++ w :: round_ws r) (os ++ o :: round_obs r)
                          (mk_ls ws' (ls_rows st + 1) (ls_es st))).
        { unfold loop_ok. simpl ls_es. simpl ls_learners. simpl ls_rows.
          split; [lia|]. split; [lia|]. split.
          - unfold ws'. apply firstn_app_le. lia.
          - apply snapshot_of_app; [lia|exact Hsn]. }
        assert (Hnext : forall s', loop_ok v0 (ls_learners st ++ w :: round_ws r) (os ++ o :: round_obs r)
                                     (mk_ls ws' (ls_rows st + 1) s') ->
                        loop_ok v0 (ls_learners st ++ w :: round_ws r) (os ++ o :: round_obs r)
                                (rounds_ (mk_ls ws' (ls_rows st + 1) s') r)).
        { intros s' (Hr' & Hrows' & Hfn' & Hsn').
          specialize (IH (mk_ls ws' (ls_rows st + 1) s') (os ++ [o]) v0).
          simpl ls_learners in IH. unfold ws' in IH.
          rewrite <- !app_assoc in IH. simpl app in IH. apply IH.
          - rewrite !app_length. simpl. lia.
          - unfold loop_ok. simpl ls_es. simpl ls_learners. simpl ls_rows.
            simpl ls_es in Hr', Hfn', Hsn'. simpl ls_learners in Hr', Hrows', Hfn'. simpl ls_rows in Hrows'.
            fold ws'. split; [exact Hr'|]. split; [exact Hrows'|]. split; [reflexivity|].
            destruct Hsn' as [H|(H1 & o2 & Hn2 & Hv2)]; [left; exact H|right].
            split; [exact H1|]. exists o2. split; [|exact Hv2].
            assert (Hlt : (Z.to_nat (es_round s') - 1 < length (os ++ [o]))%nat).
            { rewrite app_length. simpl. lia. }
            replace (os ++ o :: round_obs r) with ((os ++ [o]) ++ round_obs r) in Hn2
              by (rewrite <- app_assoc; reflexivity).
            rewrite nth_error_app1 in Hn2 by exact Hlt. exact Hn2. }
        destruct (done_cases T V ltb sub eps patience (ls_es st) o')
          as [(Htr & Hd)|[(Htr & Hacc & Hd)|[(Htr & Hacc & Hw & Hd)|(Htr & Hacc & Hw & Hd)]]];
          fold ws'; fold o'; rewrite Hd; simpl fst; simpl snd; cbv iota.
        * exact Hsnap.
        * apply Hnext. exact Hsnap.
        * apply Hnext. exact Hkeep.
        * exact Hkeep.
  Qed.

  Theorem boost_ok : forall max_rounds (o0 : obs T V) (evs : list (ev T V W)),
    loop_ok (o_values o0) (round_ws (firstn max_rounds evs)) (round_obs (firstn max_rounds evs))
            (boost ltb sub eps tmax patience max_rounds o0 evs).
  Proof.
    intros max_rounds o0 evs. unfold boost.
    set (o' := at_size o0 0).
    assert (Hinit : loop_ok (o_values o0) [] [] (mk_ls (W := W) [] 1 (es_init tmax (o_values o0)))).
    { unfold loop_ok. simpl. split; [lia|]. split; [lia|]. split; [reflexivity|]. left. split; reflexivity. }
    assert (Hsnap : loop_ok (o_values o0) [] [] (mk_ls (W := W) [] 1 (snap o'))).
    { unfold loop_ok, snap, src_es_round_update. simpl. split; [lia|]. split; [lia|]. split; [reflexivity|].
      left. split; reflexivity. }
    assert (Hweak : forall ws os (st : lstate_), ls_learners st = [] -> loop_ok (o_values o0) [] [] st ->
                                     loop_ok (o_values o0) ws os st).
    { intros ws os st Hnil (Hr & Hrows & Hfn & Hsn). unfold loop_ok. rewrite Hnil in *. simpl in Hr.
      split; [simpl; lia|]. split; [exact Hrows|]. split.
      - replace (es_round (ls_es st)) with 0 by lia. reflexivity.
      - destruct Hsn as [H|(H1 & _)]; [left; exact H|lia]. }
    destruct (done_cases T V ltb sub eps patience (es_init tmax (o_values o0)) o')
      as [(Htr & Hd)|[(Htr & Hacc & Hd)|[(Htr & Hacc & Hw & Hd)|(Htr & Hacc & Hw & Hd)]]];
      rewrite Hd; simpl fst; simpl snd; cbv iota.
    - apply Hweak; [reflexivity|exact Hsnap].
    - apply (rounds_inv (firstn max_rounds evs) (mk_ls [] 1 (snap o')) [] (o_values o0)); [reflexivity|exact Hsnap].
    - apply (rounds_inv (firstn max_rounds evs) (mk_ls [] 1 (es_init tmax (o_values o0))) [] (o_values o0));
        [reflexivity|exact Hinit].
    - apply Hweak; [reflexivity|exact Hinit].
  Qed.

  Theorem round_is_kept : forall max_rounds (o0 : obs T V) (evs : list (ev T V W)),
    let st := boost ltb sub eps tmax patience max_rounds o0 evs in
    let used := firstn max_rounds evs in
    0 <= es_round (ls_es st) <= Z.of_nat (length (ls_learners st)) /\
    kept_learners st = firstn (Z.to_nat (es_round (ls_es st))) (round_ws used) /\
    Z.of_nat (length (kept_learners st)) = es_round (ls_es st) /\
    kept_rows st = es_round (ls_es st) + 1 /\ kept_rows st <= ls_rows st /\
    snapshot_of (o_values o0) (round_obs used) (ls_es st).
  Proof.
    intros max_rounds o0 evs st used.
    destruct (boost_ok max_rounds o0 evs) as (Hr & Hrows & Hfn & Hsn). fold st in Hr, Hrows, Hfn, Hsn.
    fold used in Hfn, Hsn. unfold kept_learners, kept_rows, src_gb_erase_from, src_gb_kept_rows.
    split; [exact Hr|]. split; [exact Hfn|]. split.
    - rewrite firstn_length. lia.
    - split; [reflexivity|]. split; [lia|exact Hsn].
  Qed.
End LoopProofs.

(* ------------------------------------------------------------------------------------------------------------ *)
(* 3. (trial, fold) slots                                                                                         *)
(* ------------------------------------------------------------------------------------------------------------ *)
Lemma slot_agree : forall folds trial fold,
  slot_read folds trial fold = slot folds trial fold /\ slot_log folds trial fold = slot folds trial fold.
Proof. intros. split; reflexivity. Qed.

Lemma slot_injective : forall folds t f t' f',
  0 <= f < folds -> 0 <= f' < folds -> slot folds t f = slot folds t' f' -> t = t' /\ f = f'.
Proof.
  intros folds t f t' f' Hf Hf'. unfold slot, src_slot_store. intros H.
  assert (t = t') by nia. subst t'. split; [reflexivity|lia].
Qed.

Lemma slot_range : forall folds trials t f,
  0 <= t < trials -> 0 <= f < folds -> 0 <= slot folds t f < folds * trials.
Proof. intros folds trials t f Ht Hf. unfold slot, src_slot_store. nia. Qed.

Lemma task_slot_spec : forall folds old_trials new_trials index,
  0 < folds -> 0 <= old_trials -> 0 <= index < src_tune_tasks folds new_trials ->
  let f := src_tune_fold index folds in
  let t := src_tune_store_trial old_trials (src_tune_trial index folds) in
  0 <= f < folds /\ old_trials <= t < old_trials + new_trials /\
  task_slot folds old_trials index = old_trials * folds + index.
Proof.
  intros folds old_trials new_trials index Hf Ho Hi.
  unfold task_slot, slot, src_slot_store, src_tune_fold, src_tune_trial, src_tune_store_trial, src_tune_tasks in *.
  rewrite Z.rem_mod_nonneg by lia. rewrite Z.quot_div_nonneg by lia.
  pose proof (Z.div_mod index folds ltac:(lia)) as Hdm.
  pose proof (Z.mod_pos_bound index folds Hf) as Hm.
  assert (0 <= index / folds) by (apply Z.div_pos; lia).
  assert (index / folds < new_trials) by (apply Z.div_lt_upper_bound; lia).
  cbv zeta. split; [lia|]. split; [lia|]. nia.
Qed.

(* ------------------------------------------------------------------------------------------------------------ *)
(* 4. ordered scalars (errors as integers in a common unit): what the reported round and value mean               *)
(* ------------------------------------------------------------------------------------------------------------ *)
Section ZOrder.
  Variable V : Type.
  Variables (eps tmax : Z).
  Hypothesis Heps : 0 <= eps.

  Notation value_ := (@sp_value Z V Z.ltb Z.sub eps tmax).
  Notation last_ := (@sp_last Z V Z.ltb Z.sub eps tmax).

  (* a call that is not the train-error exit and has validation samples *)
  Definition regular (o : obs Z V) : Prop := eps <= o_train o /\ o_nvalid o <> 0.

  Lemma upd_regular : forall best o, regular o ->
    upd_by Z.ltb Z.sub eps best o = (o_valid o <? best - eps).
  Proof.
    intros best o (Ht & Hn). unfold upd_by.
    replace (o_train o <? eps) with false by (symmetry; apply Z.ltb_ge; exact Ht).
    replace (o_nvalid o =? 0) with false by (symmetry; apply Z.eqb_neq; exact Hn).
    simpl. apply orb_false_r.
  Qed.

  Lemma value_lower : forall older, Forall regular older ->
    forall o, In o older -> value_ older - eps <= o_valid o.
  Proof.
    induction older as [|x r IH]; intros Hreg o Hin; [contradiction|].
    inversion Hreg as [|? ? Hx Hr]; subst. simpl sp_value.
    rewrite (upd_regular _ _ Hx).
    destruct (o_valid x <? value_ r - eps) eqn:Hlt.
    - apply Z.ltb_lt in Hlt. destruct Hin as [<-|Hin]; [lia|]. specialize (IH Hr o Hin). lia.
    - apply Z.ltb_ge in Hlt. destruct Hin as [<-|Hin]; [lia|]. exact (IH Hr o Hin).
  Qed.

  Lemma last_strict : forall older o, Forall regular older -> last_ older = Some o ->
    exists newer before, older = newer ++ o :: before /\
      (forall o', In o' before -> o_valid o < o_valid o').
  Proof.
    induction older as [|x r IH]; intros o Hreg Hl; [discriminate|].
    inversion Hreg as [|? ? Hx Hr]; subst. simpl sp_last in Hl.
    rewrite (upd_regular _ _ Hx) in Hl.
    destruct (o_valid x <? value_ r - eps) eqn:Hlt.
    - injection Hl as <-. exists [], r. split; [reflexivity|].
      intros o' Hin. apply Z.ltb_lt in Hlt. pose proof (value_lower r Hr o' Hin). lia.
    - destruct (IH o Hr Hl) as (newer & before & -> & Hb). exists (x :: newer), before. split; [reflexivity|exact Hb].
  Qed.

  Lemma fit_shaped_nth : forall (h : list (obs Z V)) k i o,
    fit_shaped k h -> nth_error h i = Some o -> o_size o = k + Z.of_nat i.
  Proof.
    induction h as [|x r IH]; intros k i o Hfs Hn; [destruct i; discriminate|].
    destruct Hfs as (Hx & Hr). destruct i as [|i]; simpl in Hn.
    - injection Hn as <-. simpl. lia.
    - rewrite (IH (k + 1) i o Hr Hn). lia.
  Qed.

  Theorem eps_optimal : forall patience (v0 : V) (h : list (obs Z V)),
    Forall regular h ->
    let s := es_run Z.ltb Z.sub eps patience (es_init tmax v0) h in
    (forall o, In o h -> es_value s - eps <= o_valid o) /\
    (fit_shaped 0 h -> forall i o, nth_error h i = Some o -> Z.of_nat i < es_round s -> es_value s < o_valid o).
  Proof.
    intros patience v0 h Hreg s.
    assert (Hs : s = sp_state Z.ltb Z.sub eps tmax v0 (rev h)) by (apply run_spec).
    assert (Hreg' : Forall regular (rev h)).
    { apply Forall_forall. intros o Hin. apply in_rev in Hin. revert o Hin. apply Forall_forall. exact Hreg. }
    split.
    - intros o Hin. rewrite Hs, state_value. apply value_lower; [exact Hreg'|]. apply in_rev. rewrite rev_involutive. exact Hin.
    - intros Hfs i o Hn Hi. rewrite Hs in *. unfold sp_state in *.
      destruct (last_ (rev h)) as [ol|] eqn:Hl.
      + simpl es_round in Hi. simpl es_value.
        destruct (last_strict (rev h) ol Hreg' Hl) as (newer & before & Hrev & Hb).
        assert (Hh : h = rev before ++ ol :: rev newer).
        { rewrite <- (rev_involutive h), Hrev, rev_app_distr. simpl. rewrite <- app_assoc. reflexivity. }
        assert (Hol : o_size ol = Z.of_nat (length (rev before))).
        { rewrite (fit_shaped_nth h 0 (length (rev before)) ol Hfs); [lia|].
          rewrite Hh at 1. rewrite nth_error_app2 by lia. rewrite Nat.sub_diag. reflexivity. }
        apply Hb. apply in_rev. rewrite Hh in Hn. rewrite nth_error_app1 in Hn by lia.
        eapply nth_error_In. exact Hn.
      + simpl in Hi. lia.
  Qed.
End ZOrder.

(* ------------------------------------------------------------------------------------------------------------ *)
(* 5. fold averaging over Q                                                                                       *)
(* ------------------------------------------------------------------------------------------------------------ *)
Section FoldAverageProofs.
  Variables X W : Type.
  Variable pred : W -> X -> Q.
  Variable scale : Q -> W -> W.
  Variable merge : list W -> list W.
  Hypothesis Hscale : forall c w x, (pred (scale c w) x == c * pred w x)%Q.
  Hypothesis Hmerge : forall ws x, (qsum (map (fun w => pred w x) (merge ws)) == qsum (map (fun w => pred w x) ws))%Q.

  Local Open Scope Q_scope.

  Lemma qsum_app : forall l1 l2, qsum (l1 ++ l2) == qsum l1 + qsum l2.
  Proof. induction l1 as [|a l1 IH]; intros l2; simpl; [ring|]. rewrite IH. ring. Qed.

  Lemma qsum_scale : forall d x l,
    qsum (map (fun w => pred (scale d w) x) l) == d * qsum (map (fun w => pred w x) l).
  Proof. intros d x. induction l as [|a l IH]; simpl; [ring|]. rewrite IH, Hscale. ring. Qed.

  Lemma qsum_concat : forall (f : W -> Q) ls,
    qsum (map f (concat ls)) == qsum (map (fun l => qsum (map f l)) ls).
  Proof.
    intros f. induction ls as [|l ls IH]; simpl; [reflexivity|].
    rewrite map_app, qsum_app, IH. reflexivity.
  Qed.

  Lemma qsum_plus : forall (A : Type) (a b : A -> Q) l,
    qsum (map (fun m => a m + b m) l) == qsum (map a l) + qsum (map b l).
  Proof. intros A a b. induction l as [|m l IH]; simpl; [ring|]. rewrite IH. ring. Qed.

  Theorem fold_average_predicts_mean : forall (fm : list (Q * list W)) x, fm <> [] ->
    gb_predict pred (fst (fold_average scale merge fm)) (snd (fold_average scale merge fm)) x
    == qsum (map (fun m => gb_predict pred (fst m) (snd m) x) fm) / inject_Z (Z.of_nat (length fm)).
  Proof.
    intros fm x Hne. unfold fold_average, gb_predict. cbv zeta. simpl fst. simpl snd.
    rewrite map_map, qsum_scale, Hmerge, qsum_concat, map_map.
    rewrite (qsum_plus _ fst (fun m => qsum (map (fun w => pred w x) (snd m))) fm).
    assert (HN : ~ inject_Z (Z.of_nat (length fm)) == 0).
    { destruct fm as [|m fm]; [contradiction|]. simpl length. unfold Qeq. simpl. lia. }
    field. exact HN.
  Qed.
End FoldAverageProofs.
