(* extraction of the executable C11 model: binary64 instance of the early-stopping monitor, the statistics rows, the
   boosting-loop bookkeeping and the slot arithmetic (floats/int63 map to OCaml's native ones; Z stays the inductive) *)
From Coq Require Import List ZArith Floats Extraction ExtrOcamlBasic ExtrOCamlFloats ExtrOCamlInt63.
From LN Require Import C11_Defs.
Extraction Language OCaml.
Extraction "extracted/c11_model.ml" fes_init fes_done fobs mean_error mean_loss stat_row fboost fkept_learners
  fkept_rows slot slot_read slot_log task_slot es_round es_value es_values ls_learners ls_rows ls_es.

(* extension "assemble" (C11_Assemble_Defs): the model-assembly code of gboost_model_t over exact rationals, together with
   the C10 learner model it is built on. A separate file with Z / positive mapped to Zarith big integers (the mapping is
   loaded after the extraction above, which keeps the inductive Z its driver expects): the per-learner predictions of a
   fit are doubles, their exact sums have numerators of thousands of bits. *)
Require Import QArith ExtrOcamlZBigInt.
From LN Require Import C10_Defs C11_Assemble_Defs.
Extraction "extracted/c11_asm_model.ml" assemble asm_collect asm_finish asm_reset asm_folds_visited asm_denom fold_models
  gbm_predict sum_incrs avg_rows result_done bloop
  C10_Defs.merge C10_Defs.scale C10_Defs.try_merge C10_Defs.zeros
  Qplus Qminus Qmult Qdiv Qopp Qle_bool Qeq_bool inject_Z.

(* extension "stats" (C11_Stats_Defs): store_stats / load_stats over exact rationals (mean, variance, stdev radicand) and in
   binary64 (percentiles, value(), optimum_trial(): scalar code, compared bit for bit), the layout of m_values / m_optims, the
   queries of ml::result_t. Third file; Z / positive are Zarith integers (mapping loaded above), floats are OCaml floats. *)
From LN Require Import C16_Defs C20_Defs C11_Stats_Defs.
Extraction "extracted/c11_stats_model.ml" q_stats q_mean q_variance q_stdev2 q_count f_stats st_positions st_pcts
  f_new f_add f_store f_store_final f_stats_of f_stats_final f_value f_optimum q_closest Qred.
