(* extraction of the executable C11 model: binary64 instance of the early-stopping monitor, the statistics rows, the
   boosting-loop bookkeeping and the slot arithmetic (floats/int63 map to OCaml's native ones; Z stays the inductive) *)
From Coq Require Import List ZArith Floats Extraction ExtrOcamlBasic ExtrOCamlFloats ExtrOCamlInt63.
From LN Require Import C11_Defs.
Extraction Language OCaml.
Extraction "extracted/c11_model.ml" fes_init fes_done fobs mean_error mean_loss stat_row fboost fkept_learners
  fkept_rows slot slot_read slot_log task_slot es_round es_value es_values ls_learners ls_rows ls_es.
