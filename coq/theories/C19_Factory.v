(* C19 extension -- proofs about the parameter table regenerated from the source (LNGen.Src_c19_params).
   The table is finite and IS the domain of the statements: the boolean checks are evaluated by the kernel
   (vm_compute) on the table of this very run and lifted with forallb_forall; everything that is said about the
   states reachable afterwards (any history of assignments) is proved for all inputs from the lemmas of C19_Proofs. *)
From Coq Require Import ZArith List Bool String Floats Lia.
From LNGen Require Import Src_c19_params.
From LN Require Import C19_Defs C19_Proofs C19_FactoryDefs.
Import ListNotations.
Local Open Scope Z_scope.

(* ---------------------------------------------------------------------------------------------- *)
(* general facts (all inputs)                                                                       *)
Lemma made_spec : forall s, made s = true -> make s = Ok s /\ Inv s.
Proof.
  intros s H. unfold made in H. destruct (make_spec s) as [[I E]|[_ E]]; rewrite E in H; [split; assumption|discriminate].
Qed.

Lemma made_false : forall s, made s = false -> make s = Throw \/ make s = UB.
Proof. intros s H. unfold made in H. destruct (make s); [discriminate|left; reflexivity|right; reflexivity]. Qed.

(* a constructor that completes is a history of the configurable in which no statement threw *)
Lemma cbuild_crun : forall h c c', cbuild c h = Some c' -> crun c h = Some c'.
Proof.
  induction h as [|o h IH]; simpl; intros c c' H; [exact H|].
  destruct (cstep c o) as [c1| |] eqn:E; try discriminate. simpl. apply IH. exact H.
Qed.

Lemma cbuild_no_throw : forall h1 o h2 c c',
  cbuild c (h1 ++ o :: h2) = Some c' -> exists c1 c2, cbuild c h1 = Some c1 /\ cstep c1 o = COk c2 /\ cbuild c2 h2 = Some c'.
Proof.
  induction h1 as [|a h1 IH]; simpl; intros o h2 c c' H.
  - destruct (cstep c o) as [c2| |] eqn:E; try discriminate. exists c, c2. repeat split; assumption.
  - destruct (cstep c a) as [c1| |] eqn:E; try discriminate. apply IH in H. exact H.
Qed.

Lemma cbuild_inv : forall h c, cbuild [] h = Some c -> NoDup (names c) /\ Forall (fun p => Inv (pstore p)) c.
Proof. intros h c H. exact (crun_inv h [] c CInv_nil (cbuild_crun h [] c H)). Qed.

Lemma all_some_map_in : forall {A B} (f : A -> option B) l r x,
  all_some (map f l) = Some r -> In x l -> exists y, f x = Some y /\ In y r.
Proof.
  induction l as [|a l IH]; simpl; intros r x H I; [contradiction|].
  destruct (f a) as [b|] eqn:E; [|discriminate].
  destruct (all_some (map f l)) as [r'|] eqn:E2; [|discriminate]. simpl in H. inversion H; subst.
  destruct I as [->|I].
  - exists b. split; [exact E|left; reflexivity].
  - destruct (IH r' x eq_refl I) as (y & Hy & Iy). exists y. split; [exact Hy|right; exact Iy].
Qed.

(* lookup by name *)
Lemma find_store_spec : forall c name s,
  find_store c name = Some s ->
  In name (names c) /\ (exists p, In p c /\ pname p = name /\ pstore p = s) /\ forall rd, cread c name rd = rd s.
Proof.
  intros c name s H. unfold find_store in H. destruct (cfound name c) eqn:F; [|discriminate].
  apply cfound_spec in F. split; [exact F|].
  destruct (cread_known c name (fun x => RThrow) F) as (p & Hp & Np & _). rewrite Hp in H. simpl in H. injection H as Hs.
  split.
  - exists p. split; [exact (nth_error_In _ _ Hp)|split; [exact Np|exact Hs]].
  - intro rd. destruct (cread_known c name rd F) as (p' & Hp' & _ & E). rewrite Hp in Hp'. injection Hp' as <-.
    rewrite <- Hs. exact E.
Qed.

(* a typed read whose kind matches the declaration does not throw -- in ANY state with the declared domain *)
Lemma kind_ok_no_throw : forall rd f s s',
  reader rd = Some f -> kind_ok rd s = true -> domain_of s' = domain_of s -> f s' <> RThrow.
Proof.
  intros rd f s s' R K D.
  destruct rd; simpl in R; inversion R; subst; clear R;
    destruct s; simpl in K; try discriminate;
    destruct s'; simpl in D; try discriminate; simpl; unfold rd_f2i;
    try discriminate;
    repeat match goal with |- context [f2i ?x] => destruct (f2i x) end; discriminate.
Qed.

(* a mismatching kind does throw: kind_ok is exactly the model's type-mismatch rule *)
Lemma kind_bad_throws : forall rd f s,
  reader rd = Some f -> (forall ty names, rd <> RdEnum ty names) -> kind_ok rd s = false -> f s = RThrow.
Proof.
  intros rd f s R NE K.
  destruct rd; simpl in R; inversion R; subst; clear R; destruct s; simpl in K; try discriminate; try reflexivity.
  all: exfalso; eapply NE; reflexivity.
Qed.

(* ---------------------------------------------------------------------------------------------- *)
(* the table of this run                                                                            *)
Lemma params_ok : forallb param_ok src_c19_params = true.
Proof. vm_compute. reflexivity. Qed.

Lemma objects_ok : forallb object_ok src_c19_objects = true.
Proof. vm_compute. reflexivity. Qed.

Lemma objects_from_source : forallb object_from_source src_c19_objects = true.
Proof. vm_compute. reflexivity. Qed.

Lemma uses_ok : forallb use_checked src_c19_uses = true.
Proof. vm_compute. reflexivity. Qed.

(* every declared default lies in its declared domain (with the ordering constraint of pairs), no argument of a
   make_* call is cast outside the defined range of static_cast, and the constructed parameter stores exactly the
   declared values *)
Lemma defaults_in_domain : forall p, In p src_c19_params ->
  exists s, param_storage p = Some s /\ make s = Ok s /\ Inv s.
Proof.
  intros p H. pose proof (proj1 (forallb_forall _ _) params_ok p H) as K. unfold param_ok in K.
  destruct (param_storage p) as [s|]; [|discriminate]. exists s. split; [reflexivity|]. exact (made_spec s K).
Qed.

(* per class: the whole constructor chain (base classes first, helper ::config calls, assignments in constructor
   bodies) runs without an exception on the model's configurable; the result has pairwise distinct names, every
   parameter inside its domain and one parameter per register_parameter call *)
Lemma objects_constructible : forall o, In o src_c19_objects ->
  exists h c, object_ops o = Some h /\ cbuild [] h = Some c /\ crun [] h = Some c /\
              NoDup (names c) /\ Forall (fun p => Inv (pstore p)) c /\ List.length c = regs o.
Proof.
  intros o H. pose proof (proj1 (forallb_forall _ _) objects_ok o H) as K. unfold object_ok, object_config in K.
  destruct (object_ops o) as [h|] eqn:E; [|discriminate].
  destruct (cbuild [] h) as [c|] eqn:B; [|discriminate].
  exists h, c. split; [reflexivity|]. split; [exact B|]. split; [exact (cbuild_crun h [] c B)|].
  destruct (cbuild_inv h c B) as [ND FA]. split; [exact ND|]. split; [exact FA|]. apply Nat.eqb_eq. exact K.
Qed.

(* the objects are built from the source records: every registration of an object is a record of src_c19_params whose
   name expression, instantiated with the object's type id / some prefix, is the registered name *)
Lemma objects_instances : forall o i name, In o src_c19_objects -> In (EReg i name) (so_entries o) ->
  exists p, nth_error src_c19_params i = Some p /\ In p src_c19_params /\
            name_matches (sp_name p) (so_type_id o) name = true.
Proof.
  intros o i name H I. pose proof (proj1 (forallb_forall _ _) objects_from_source o H) as K. unfold object_from_source in K.
  pose proof (proj1 (forallb_forall _ _) K _ I) as K2. simpl in K2.
  destruct (nth_error src_c19_params i) as [p|] eqn:E; [|discriminate].
  exists p. split; [reflexivity|]. split; [exact (nth_error_In _ _ E)|exact K2].
Qed.

(* every parameter("name") of the library's own code names a parameter of the object it is evaluated on, and the typed
   read / constant assignment next to it is compatible with the declared kind and range *)
Lemma uses_resolve : forall u, In u src_c19_uses ->
  exists o c s, nth_error src_c19_objects (su_obj u) = Some o /\ object_config o = Some c /\
                find_store c (bytes_of (su_name u)) = Some s /\ use_ok (su_name u) (su_read u) s = true.
Proof.
  intros u H. pose proof (proj1 (forallb_forall _ _) uses_ok u H) as K. unfold use_checked in K.
  destruct (nth_error src_c19_objects (su_obj u)) as [o|]; [|discriminate].
  destruct (object_config o) as [c|] eqn:Hc; [|discriminate].
  destruct (find_store c (bytes_of (su_name u))) as [s|] eqn:F; [|discriminate].
  exists o, c, s. split; [reflexivity|]. split; [exact Hc|]. split; [exact F|exact K].
Qed.

(* ... hence, on the object as constructed AND after any history of assignments to that parameter (accepted or not),
   the lookup by that name succeeds and the typed read does not throw *)
Lemma reads_never_throw : forall u f, In u src_c19_uses -> reader (su_read u) = Some f ->
  exists o c s, nth_error src_c19_objects (su_obj u) = Some o /\ object_config o = Some c /\
                In (bytes_of (su_name u)) (names c) /\
                (forall rd, cread c (bytes_of (su_name u)) rd = rd s) /\
                forall h, exists s', run s h = Some s' /\ Inv s' /\ f s' <> RThrow.
Proof.
  intros u f H R. destruct (uses_resolve u H) as (o & c & s & Ho & Hc & Hs & K).
  exists o, c, s. split; [exact Ho|]. split; [exact Hc|].
  destruct (find_store_spec c _ s Hs) as (I & (p & Ip & _ & Sp) & Rd). split; [exact I|]. split; [exact Rd|].
  unfold object_config in Hc. destruct (object_ops o) as [hh|]; [|discriminate].
  destruct (cbuild_inv hh c Hc) as [_ FA]. rewrite Forall_forall in FA. pose proof (FA p Ip) as Is. rewrite Sp in Is.
  intro h. destruct (run_inv h s Is) as (s' & Rs & Is' & D). exists s'. split; [exact Rs|]. split; [exact Is'|].
  unfold use_ok in K. apply andb_true_iff in K. destruct K as [K _]. apply andb_true_iff in K. destruct K as [K _].
  exact (kind_ok_no_throw _ f s s' R K D).
Qed.

(* ---------------------------------------------------------------------------------------------- *)
(* refutations used as non-vacuity: the checks do reject                                             *)
Definition bad_default_at_lt_bound : sparam :=
  mkSParam "x.cpp" 1 "x_t::x_t" [PLit "x::a"] KScalar [false; false] [NI 0; NI 1; NI 1] [].
Definition bad_swapped_bounds : sparam :=
  mkSParam "x.cpp" 2 "x_t::x_t" [PLit "x::b"] KInteger [true; true] [NI 100; NI 10; NI 1] [].
Definition bad_cast : sparam :=
  mkSParam "x.cpp" 3 "x_t::x_t" [PLit "x::c"] KInteger [true; true] [NI 0; NI 1; NF 0x1p+63%float] [].
Definition bad_pair_order : sparam :=
  mkSParam "x.cpp" 4 "x_t::x_t" [PLit "x::d"] KScalarPair [false; false; false] [NI 0; NF 0.5%float; NF 0.5%float; NI 1] [].

Lemma checks_reject :
  param_ok bad_default_at_lt_bound = false /\ param_ok bad_swapped_bounds = false /\ param_ok bad_cast = false /\
  param_ok bad_pair_order = false /\
  (* a duplicated name, an unknown name in a constructor-body assignment *)
  cbuild [] [CRegister [97] (SIRange 1 0 2 LE LE); CRegister [97] (SIRange 1 0 2 LE LE)] = None /\
  cbuild [] [CRegister [97] (SIRange 1 0 2 LE LE); CAssign [98] (AInt 1)] = None /\
  cbuild [] [CRegister [97] (SIRange 1 0 2 LE LE); CAssign [97] (AInt 3)] = None /\
  (* reads: unknown name, wrong kind, range, truncation *)
  find_store [mkParam [97] (SIRange 1 0 2 LE LE)] [98] = None /\
  use_ok "a" RdPairF (SIRange 1 0 2 LE LE) = false /\
  use_ok "a" RdStr (SFRange 0.5 0 1 LE LE) = false /\
  use_ok "a" (RdEnum "e" ["x"; "y"]%string) (SEnum [120] [[120]]) = false /\
  use_ok "a" RdI32 (SIRange 1 0 4294967296 LE LE) = false /\
  use_ok "a" RdU64 (SIRange 1 (-1) 5 LE LE) = false /\
  use_ok "a" RdI64 (SFRange 0.5 0 1 LE LE) = false /\
  use_ok "datasource::linear::missing" RdI32 (SFRange 0 0 100 LE LE) = true /\
  use_ok "a" (WrVal (VNum (NI 5))) (SIRange 1 0 2 LE LE) = false /\
  name_matches [PLit "solver::"; PTypeId; PLit "::miu0"] "gs" "solver::gs::miu0" = true /\
  name_matches [PLit "solver::"; PTypeId; PLit "::miu0"] "gs" "solver::ags::miu0" = false /\
  name_matches [PArg "prefix"; PLit "::csearch::m3"] "" "solver::rqb::csearch::m3" = true /\
  name_matches [PArg "prefix"; PLit "::csearch::m3"] "" "solver::rqb::csearch::m4" = false.
Proof. vm_compute. repeat split; reflexivity. Qed.

Lemma table_sizes : (100 <= List.length src_c19_params)%nat /\ (80 <= List.length src_c19_objects)%nat /\
                    (200 <= List.length src_c19_uses)%nat.
Proof. vm_compute. repeat split; repeat constructor. Qed.
