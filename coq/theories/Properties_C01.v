(* C01 -- L-BFGS/BFGS solve well-conditioned smooth convex problems, truthfully.
   Only statements + `exact` + Print Assumptions live here.  The solver skeleton (state object, solver_t::done, the
   return shapes of the 17 line-search solvers) is the model of C02_Defs (kernels translated from the source on every
   run); proofs: C02_Proofs (acceptor) and C01_Proofs (real analysis).

   Proved: (1) truthfulness of `converged` for EVERY accepted done()-trace of a line-search solver, whatever the
   direction computation, the step initialisation and the line-search rule did (they are oracles of the acceptor);
   (2) the error bound of the second sentence of the property, over R, for every strongly convex quadratic.
   NOT proved (searched on the implementation on every run): "L-BFGS / BFGS reach `converged` within 1500
   evaluations on the quadratic class" -- a floating-point convergence-rate claim about lbfgs.cpp/quasi.cpp with
   CG_DESCENT; Eigen's linear algebra is not modelled. *)
(* Floats / Flocq are deliberately not imported (Print Assumptions then prints module-qualified primitive names) *)
From Coq Require Import List ZArith Bool Reals Lra.
From LNGen Require Import Src_c02.
From LN Require Import C02_Defs C02_Proofs C01_Proofs.
Import ListNotations.

(* the clause without a theorem, kept visible: for every quadratic of the class and every start, the run of
   solver in {lbfgs, bfgs} at epsilon = 1e-8 is a trace ending in `converged` after at most 1500 evaluations.
   [run_of] stands for the real solver; nothing about it is proved, it is searched (evidence:
   unproved_clauses_searched) *)
Definition C01_convergence_full_statement
  (problem : Type) (in_class : problem -> Prop) (run_of : problem -> list event * sstate * Z) : Prop :=
  forall p, in_class p ->
    let '(evs, r, evaluations) := run_of p in
    sstatus r = ST_CONVERGED /\ (evaluations <= 1500)%Z.

(* (1) a `converged` status returned through an accepted trace of ANY line-search solver (gd, cgd-*, lbfgs, bfgs,
   dfp, sr1, hoshino, fletcher) means: the returned state is the exit snapshot of a done() call whose flag was true,
   the state was valid there (finite fx, x, gx -- repo commit 3c2475d), the flag is
   gradient_test(snapshot) < epsilon recomputed from the snapshot's (gx, fx) in binary64, and the iteration that led to
   that call had succeeded (iter_ok = true: repo commit 85997bc -- a failed line search never yields `converged`) *)
Theorem C01_truthful : forall k eps evs r,
  accept k eps evs r = true -> is_ls k = true -> sstatus r = ST_CONVERGED ->
  exists e, In e evs /\ same_state r (ev_after e) = true /\ ev_conv e = true /\ valid (ev_s e) = true /\
            PrimFloat.ltb (gradient_test (ev_s e)) eps = true /\ ev_iter_ok e = true.
Proof. exact accept_truthful. Qed.
Print Assumptions C01_truthful.

(* the partial theorem next to the full statement: whenever the run is an accepted trace, `converged` is truthful
   and was decided by done() from a true flag (nothing is claimed about reaching it within 1500 evaluations) *)
Theorem C01_convergence_partial : forall k eps evs r,
  accept k eps evs r = true ->
  (sstatus r = ST_MAX_ITERS \/ sstatus r = ST_CONVERGED \/ sstatus r = ST_FAILED) /\
  (sstatus r = ST_CONVERGED ->
     exists e, In e evs /\ same_state r (ev_after e) = true /\ ev_conv e = true /\ ev_ret e = true /\
               valid (ev_s e) = true /\ ev_iter_ok e = true).
Proof.
  intros k eps evs r H. destruct (accept_status k eps evs r H) as (A & B & _). split; [exact A|exact B].
Qed.
Print Assumptions C01_convergence_partial.

Local Open Scope R_scope.

(* (2) for f(x) = 1/2 x'Ax + a'x with v'Av >= lmin |v|^2: with d = x - x* the gradient is g = A d, hence
   lmin |d|^2 <= d.g; if max_i |g_i| <= c (c = epsilon * max(1, |f(x)|), the stopping criterion) then
   |x - x*|_2 <= sqrt(n) * c / lmin *)
Theorem C01_error_bound : forall (d g : list R) (lmin c : R),
  0 < lmin -> 0 <= c -> length g = length d ->
  lmin * dot d d <= dot d g ->
  Forall (fun gi => Rabs gi <= c) g ->
  norm2 d <= sqrt (INR (length d)) * c / lmin.
Proof. exact error_bound. Qed.
Print Assumptions C01_error_bound.

(* Cauchy-Schwarz, the only analytic ingredient *)
Theorem C01_cauchy_schwarz : forall a b : list R, dot a b * dot a b <= dot a a * dot b b.
Proof. exact cauchy_schwarz. Qed.
Print Assumptions C01_cauchy_schwarz.

(* ---- non-vacuity -------------------------------------------------------------------------------------------- *)
Example C01_nonvacuous_truthful :
  accept KLs ex_eps [ex_e1; ex_e2] ex_r = true /\ is_ls KLs = true /\ sstatus ex_r = ST_CONVERGED /\
  vnan (sgx (ev_s ex_e2)) = false /\ PrimFloat.ltb (gradient_test (ev_s ex_e2)) ex_eps = true /\
  (* and a flag that is not the recomputed criterion is rejected *)
  accept KLs ex_eps [ex_e2] ex_r = true /\
  accept KLs ex_five [ex_e1; ex_e2] ex_r = false.
Proof. vm_compute. repeat split; reflexivity. Qed.

(* A = 2 I, d = (1, 2), g = A d = (2, 4), lmin = 2, c = 4: the hypotheses hold (with equality in the curvature one) *)
Example C01_nonvacuous_error_bound :
  0 < 2 /\ 0 <= 4 /\ length [2; 4] = length [1; 2] /\ 2 * dot [1; 2] [1; 2] <= dot [1; 2] [2; 4] /\
  Forall (fun gi => Rabs gi <= 4) [2; 4].
Proof.
  simpl. repeat split; try lra.
  repeat constructor; rewrite Rabs_right; lra.
Qed.
