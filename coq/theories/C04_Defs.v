(* C04 -- executable exact-rational model of what the primal-dual interior-point solver of libnano
   (src/program/solver.cpp) computes *about* a returned state: the normalised program (private program_t ctor), the
   objective / surrogate gap / residuals of program_t::update, program_t::feasible, and the status decision of
   solver_t::done.  The Newton iteration itself is not modelled (the returned (x,u,v) are inputs).
   Vectors are lists of rationals, matrices lists of rows.  The decisions are the expressions translated from the
   source (LNGen.Src_c04) instantiated at an order embedding of the rational quantities into Z.
   No proofs in this file. *)
From Coq Require Import List ZArith QArith Qminmax Qabs Bool.
From LNGen Require Import Src_c04.
Import ListNotations.
Local Open Scope Q_scope.

Definition vec := list Q.
Definition mat := list (list Q).

Fixpoint dot (a b : vec) : Q :=
  match a, b with
  | x :: a', y :: b' => x * y + dot a' b'
  | _, _ => 0
  end.

Fixpoint vadd (a b : vec) : vec :=
  match a, b with
  | x :: a', y :: b' => (x + y) :: vadd a' b'
  | _, _ => []
  end.

Fixpoint vsub (a b : vec) : vec :=
  match a, b with
  | x :: a', y :: b' => (x - y) :: vsub a' b'
  | _, _ => []
  end.

Definition vscale (k : Q) (a : vec) : vec := map (fun x => k * x) a.
Definition zeros (n : nat) : vec := repeat 0 n.
Definition mv (M : mat) (x : vec) : vec := map (fun r => dot r x) M.

(* M' v, with n = number of columns (so that an empty M gives the zero vector of the right size) *)
Fixpoint mtv (n : nat) (M : mat) (v : vec) : vec :=
  match M, v with
  | r :: M', k :: v' => vadd (vscale k r) (mtv n M' v')
  | _, _ => zeros n
  end.

Definition sumsq (a : vec) : Q := dot a a.                                   (* lpNorm<2>() squared *)
Definition msumsq (M : mat) : Q := fold_right (fun r s => sumsq r + s) 0 M.   (* Frobenius norm squared *)
Definition vmaxc (a : vec) : Q := match a with [] => 0 | x :: r => fold_left Qmax r x end.   (* maxCoeff() *)
Definition norm1 (a : vec) : Q := fold_right (fun x s => Qabs x + s) 0 a.

Definition Qltb (a b : Q) : bool := negb (Qle_bool b a).

(* ---- programs ------------------------------------------------------------------------------------------- *)
(* min 1/2 x'Qx + c'x  s.t.  Ax = b, Gx <= h ;  pQ = [] is a linear program (`!m_Q.size()` in the source) *)
Record program := mkP { pQ : mat; pc : vec; pA : mat; pb : vec; pG : mat; ph : vec }.

Definition dim (P : program) : nat := length (pc P).

Definition objective (P : program) (x : vec) : Q := (1 # 2) * dot x (mv (pQ P) x) + dot x (pc P).

(* Q x + c, as program_t::update starts m_rdual *)
Definition grad (P : program) (x : vec) : vec :=
  match pQ P with
  | [] => pc P
  | _ => vadd (mv (pQ P) x) (pc P)
  end.

(* ---- program_t ctor: three normalisations ---------------------------------------------------------------------- *)
(* ::normalize divides (M, v) by max(min_norm, |M|_F, |v|_2); the square root is not rational, so the divisor d is an
   input (computed by the harness exactly like the source does) and [denom_ok] checks it against the exact squares *)
Definition denom_target (minn2 : Q) (M : mat) (v : vec) : Q := Qmax minn2 (Qmax (msumsq M) (sumsq v)).

Definition denom_ok (minn2 tol d : Q) (M : mat) (v : vec) : bool :=
  Qltb 0 d && Qle_bool (Qabs (d * d - denom_target minn2 M v)) (tol * denom_target minn2 M v).

Definition vdiv (d : Q) (v : vec) : vec := map (fun a => a / d) v.
Definition mdiv (d : Q) (M : mat) : mat := map (vdiv d) M.

Definition normalizeP (dQ dA dG : Q) (P : program) : program :=
  mkP (mdiv dQ (pQ P)) (vdiv dQ (pc P)) (mdiv dA (pA P)) (vdiv dA (pb P)) (mdiv dG (pG P)) (vdiv dG (ph P)).

(* ---- program_t::update: objective, surrogate duality gap, residuals (of the normalised program P) --------------- *)
Definition m_fx (mufx : Q) (P : program) (x : vec) : Q := objective P x * mufx.   (* `state.m_fx *= m_mufx` *)
Definition gxh (P : program) (x : vec) : vec := vsub (mv (pG P) x) (ph P).
Definition m_eta (P : program) (x u : vec) : Q := - dot u (gxh P x).
Definition m_rprim (P : program) (x : vec) : vec := vsub (mv (pA P) x) (pb P).
Definition m_rdual (P : program) (x u v : vec) : vec :=
  let r0 := grad P x in
  let r1 := match pA P with [] => r0 | _ => vadd r0 (mtv (dim P) (pA P) v) end in
  match pG P with [] => r1 | _ => vadd r1 (mtv (dim P) (pG P) u) end.

(* ---- order embedding used to instantiate the translated decisions ----------------------------------------------- *)
(* phi is strictly increasing on Q and phi t = t^2 for t >= 0: comparing |r|_2 with eps is comparing sumsq r with
   phi eps, comparing a signed scalar t with eps is comparing phi t with phi eps *)
Definition phi (t : Q) : Q := if Qle_bool 0 t then t * t else - (t * t).

(* four rationals brought to the common denominator: the numerators are ordered like the rationals *)
Definition zs4 (a b c d : Q) : Z * Z * Z * Z :=
  ((Qnum a * Zpos (Qden b * Qden c * Qden d))%Z,
   (Qnum b * Zpos (Qden a * Qden c * Qden d))%Z,
   (Qnum c * Zpos (Qden a * Qden b * Qden d))%Z,
   (Qnum d * Zpos (Qden a * Qden b * Qden c))%Z).

(* program_t::feasible on the normalised program *)
Definition feasible_dec (P : program) (x : vec) (eps2 : Q) : bool :=
  match zs4 (sumsq (m_rprim P x)) (phi (vmaxc (gxh P x))) (phi eps2) 0 with
  | (z1, z2, z3, _) => src_c04_feasible (Z.of_nat (length (pA P))) z1 (Z.of_nat (length (pG P))) z2 z3
  end.

(* solver_t::done: the decision is taken on the numbers stored in the state (eta, rdual, rprim) *)
Definition converged_dec (feasible : bool) (eta rd2 rp2 eps : Q) : bool :=
  match zs4 (phi eta) rd2 rp2 (phi eps) with
  | (z1, z2, z3, z4) => src_c04_converged feasible z1 z2 z3 z4
  end.

Definition st_converged : Z := 1.   (* nano::solver_status::converged *)

Definition status_dec (feasible : bool) (eta rd2 rp2 eps : Q) : Z :=
  if converged_dec feasible eta rd2 rp2 eps then st_converged else src_c04_else_status feasible.

(* what done() assigns for a state (x, eta, rdual, rprim) of the normalised program P *)
Definition model_done (P : program) (x : vec) (eta : Q) (rdual rprim : vec) (eps eps2 : Q) : Z :=
  status_dec (feasible_dec P x eps2) eta (sumsq rdual) (sumsq rprim) eps.

(* done() applied to the residuals that update() computes at (x,u,v) *)
Definition model_status (P : program) (x u v : vec) (eps eps2 : Q) : Z :=
  model_done P x (m_eta P x u) (m_rdual P x u v) (m_rprim P x) eps eps2.

(* solve_with_inequality: `mGxh >= 0.0` => unfeasible before the first iteration *)
Definition start_unfeasible_dec (P : program) (x0 : vec) : bool :=
  src_c04_start_unfeasible (Qnum (vmaxc (gxh P x0))).

(* the linear system coupling (dx, dv) -- and the returned (x, v) -- has n + p entries (p = reduced equality rows) *)
Definition sysdim (P : program) : Z := src_c04_sysdim (Z.of_nat (dim P)) (Z.of_nat (length (pA P))).

(* ---- executable mirror of the feasibility clause on the caller's program ----------------------------------------- *)
Definition user_feasible_b (P : program) (x : vec) (tA tG : Q) : bool :=
  forallb (fun t => Qltb (Qabs t) tA) (m_rprim P x) && forallb (fun t => Qltb t tG) (gxh P x).

(* ---- what the driver evaluates per returned state ---------------------------------------------------------------- *)
Record recomputed := mkR { r_fx : Q; r_eta : Q; r_rdual : vec; r_rprim : vec; r_feasible : bool; r_status : Z }.

Definition recompute (P : program) (mufx : Q) (x u v : vec) (eta : Q) (rdual rprim : vec) (eps eps2 : Q) : recomputed :=
  mkR (m_fx mufx P x) (m_eta P x u) (m_rdual P x u v) (m_rprim P x) (feasible_dec P x eps2)
      (model_done P x eta rdual rprim eps eps2).
