(* C15 -- the tensor wire format (tensor/stream.h + core/hash.h): what the reader accepts, what it rejects *)
From Coq Require Import List ZArith NArith Bool Lia Arith.
From LNGen Require Import Src_stream.
From LN Require Import C15_Defs C15_Proofs.
Import ListNotations.
Local Open Scope N_scope.

(* ---- arithmetic of hash_combine -------------------------------------------------------------------------------- *)
Lemma lxor_bound (a b n : N) : a < 2 ^ n -> b < 2 ^ n -> N.lxor a b < 2 ^ n.
Proof.
  intros Ha Hb. destruct (N.eq_dec (N.lxor a b) 0) as [E|E].
  - rewrite E. apply N.neq_0_lt_0. apply N.pow_nonzero. lia.
  - assert (Hn : 0 < n).
    { destruct (N.eq_dec n 0) as [->|]; [|lia]. cbn in Ha, Hb. assert (a = 0) by lia. assert (b = 0) by lia. subst. cbn in E. congruence. }
    apply N.log2_lt_pow2; [lia|]. eapply N.le_lt_trans; [apply N.log2_lxor|].
    apply N.max_lub_lt.
    + destruct (N.eq_dec a 0) as [->|]; [cbn; lia|]. apply N.log2_lt_pow2; lia.
    + destruct (N.eq_dec b 0) as [->|]; [cbn; lia|]. apply N.log2_lt_pow2; lia.
Qed.

Lemma M64_pos : (0 < Z.of_N M64)%Z.
Proof. vm_compute. reflexivity. Qed.

Lemma hash_combine_lt (seed h : N) : seed < M64 -> hash_combine seed h < M64.
Proof.
  intros Hs. unfold hash_combine. apply lxor_bound; [exact Hs|].
  pose proof (Z.mod_pos_bound (src_hash_mix (Z.of_N seed) (Z.of_N h)) (Z.of_N M64) M64_pos) as Hb.
  change (2 ^ 64) with M64. lia.
Qed.

Lemma hash_fold_lt (w : nat) (sgn : bool) (l : list N) (h0 : N) :
  h0 < M64 -> fold_left (fun h x => hash_combine h (ext64 w sgn x)) l h0 < M64.
Proof. revert h0. induction l as [|x l IH]; intros h0 H; cbn; [assumption|]. apply IH. apply hash_combine_lt. assumption. Qed.

Lemma hash_elems_lt (w : nat) (sgn : bool) (l : list N) : hash_elems w sgn l < M64.
Proof. apply hash_fold_lt. vm_compute. reflexivity. Qed.

Lemma lxor_cancel_l (s a b : N) : N.lxor s a = N.lxor s b -> a = b.
Proof.
  intros H. apply (f_equal (N.lxor s)) in H. rewrite <- !N.lxor_assoc, !N.lxor_nilpotent, !N.lxor_0_l in H. exact H.
Qed.

(* for a fixed seed, hash_combine is injective in the hashed value: the last element always matters *)
Lemma hash_combine_inj (s a b : N) : a < M64 -> b < M64 -> hash_combine s a = hash_combine s b -> a = b.
Proof.
  intros Ha Hb H. unfold hash_combine in H. apply lxor_cancel_l in H.
  pose proof M64_pos as Hm.
  apply Z2N.inj in H; try (apply Z.mod_pos_bound; exact Hm).
  unfold src_hash_mix in H.
  set (c := (2654435769 + Z.of_N s * 64 + Z.quot (Z.of_N s) 4)%Z) in *.
  assert (H' : ((Z.of_N a + c) mod Z.of_N M64 = (Z.of_N b + c) mod Z.of_N M64)%Z).
  { replace (Z.of_N a + c)%Z with (Z.of_N a + 2654435769 + Z.of_N s * 64 + Z.quot (Z.of_N s) 4)%Z by (unfold c; ring).
    replace (Z.of_N b + c)%Z with (Z.of_N b + 2654435769 + Z.of_N s * 64 + Z.quot (Z.of_N s) 4)%Z by (unfold c; ring).
    exact H. }
  clear H. set (m := Z.of_N M64) in *.
  assert (Hd : ((Z.of_N a - Z.of_N b) mod m = 0)%Z).
  { replace (Z.of_N a - Z.of_N b)%Z with ((Z.of_N a + c) - (Z.of_N b + c))%Z by ring.
    rewrite Zminus_mod, H', Z.sub_diag. apply Z.mod_0_l. lia. }
  apply Z.mod_divide in Hd; [|lia]. destruct Hd as [q Hq].
  assert (Hab : (- m < Z.of_N a - Z.of_N b < m)%Z) by (unfold m; lia).
  assert (q = 0)%Z by nia. subst q. lia.
Qed.

Lemma pow256 (w : nat) : 256 ^ N.of_nat w = 2 ^ (8 * N.of_nat w).
Proof. rewrite N.pow_mul_r. reflexivity. Qed.

Lemma ext64_lt (w : nat) (sgn : bool) (x : N) : (w <= 8)%nat -> x < 256 ^ N.of_nat w -> ext64 w sgn x < M64.
Proof.
  intros Hw Hx. rewrite pow256 in Hx.
  assert (Hp : 2 ^ (8 * N.of_nat w) <= M64) by (unfold M64; apply N.pow_le_mono_r; lia).
  unfold ext64. destruct (sgn && _); lia.
Qed.

Lemma ext64_inj (w : nat) (sgn : bool) (x y : N) :
  x < 256 ^ N.of_nat w -> y < 256 ^ N.of_nat w -> ext64 w sgn x = ext64 w sgn y -> x = y.
Proof.
  intros Hx Hy. unfold ext64. destruct sgn; cbn [andb]; [|auto].
  destruct (N.leb_spec (2 ^ (8 * N.of_nat w - 1)) x); destruct (N.leb_spec (2 ^ (8 * N.of_nat w - 1)) y); lia.
Qed.

Lemma hash_elems_snoc (w : nat) (sgn : bool) (l : list N) (x : N) :
  hash_elems w sgn (l ++ [x]) = hash_combine (hash_elems w sgn l) (ext64 w sgn x).
Proof. unfold hash_elems. rewrite fold_left_app. reflexivity. Qed.

Lemma hash_last_element (w : nat) (sgn : bool) (l : list N) (x y : N) :
  (w <= 8)%nat -> x < 256 ^ N.of_nat w -> y < 256 ^ N.of_nat w -> x <> y ->
  hash_elems w sgn (l ++ [x]) <> hash_elems w sgn (l ++ [y]).
Proof.
  intros Hw Hx Hy Hxy H. rewrite !hash_elems_snoc in H. apply hash_combine_inj in H; try (apply ext64_lt; assumption).
  apply ext64_inj in H; auto.
Qed.

(* altering element i changes the running hash right after element i (later elements may or may not cancel it) *)
Lemma hash_state_differs (w : nat) (sgn : bool) (pre : list N) (x y : N) :
  (w <= 8)%nat -> x < 256 ^ N.of_nat w -> y < 256 ^ N.of_nat w -> x <> y ->
  hash_elems w sgn (pre ++ [x]) <> hash_elems w sgn (pre ++ [y]).
Proof. apply hash_last_element. Qed.

(* ---- the header ------------------------------------------------------------------------------------------------ *)
Definition hdr_inrange (s : tspec) (ver rk : N) (dims : list N) (sz h : N) : Prop :=
  ver < 2 ^ 32 /\ rk < 2 ^ 32 /\ length dims = t_rank s /\ Forall (fun d => d < 2 ^ 32) dims /\ sz < 2 ^ 32 /\ h < 2 ^ 64.

Lemma p4 : 256 ^ N.of_nat 4 = 2 ^ 32. Proof. reflexivity. Qed.
Lemma p8 : 256 ^ N.of_nat 8 = 2 ^ 64. Proof. reflexivity. Qed.

Lemma wt_uint_list (k : nat) (l : list N) :
  (0 < k)%nat -> Forall (fun d => d < 256 ^ N.of_nat k) l ->
  Forall (fun x => wt (F_uint k) x /\ enc (F_uint k) x <> []) (map VN l).
Proof.
  intros Hk. induction 1 as [|d l Hd _ IH]; cbn [map]; constructor; [|exact IH].
  split; [exists d; auto|]. cbn [enc]. apply le_enc_nonempty. exact Hk.
Qed.

Lemma wt_hdr (s : tspec) ver rk dims sz h :
  hdr_inrange s ver rk dims sz h -> wt (hdr_fmt s) (mk_hdr ver rk dims sz h).
Proof.
  intros (Hv & Hr & Hl & Hd & Hs & Hh). unfold hdr_fmt, mk_hdr, u32, u64. cbn [wt].
  eexists _, _; split; [reflexivity|]. split; [eexists; split; [reflexivity|rewrite p4; assumption]|].
  eexists _, _; split; [reflexivity|]. split; [eexists; split; [reflexivity|rewrite p4; assumption]|].
  eexists _, _; split; [reflexivity|]. split.
  - eexists; split; [reflexivity|]. split; [rewrite map_length; lia|].
    apply (wt_uint_list 4); [lia|]. rewrite p4. exact Hd.
  - eexists _, _; split; [reflexivity|].
    split; eexists; (split; [reflexivity|]); [rewrite p4|rewrite p8]; assumption.
Qed.

Lemma hdr_fields (ver rk : N) (dims : list N) (sz h : N) :
  let hd := mk_hdr ver rk dims sz h in
  hdr_version hd = ver /\ hdr_rank hd = rk /\ hdr_rawdims hd = dims /\ hdr_sizeof hd = sz /\ hdr_hash hd = h.
Proof.
  cbn. unfold hdr_rawdims. cbn. rewrite map_map. cbn. rewrite map_id. auto.
Qed.

Lemma tensor_elems_raw (hd : val) (elems : list N) : tensor_elems (raw_tensor hd elems) = elems.
Proof. unfold tensor_elems, raw_tensor. cbn. rewrite map_map. cbn. apply map_id. Qed.

Lemma enc_uint_list (w : nat) (elems : list N) :
  concat (map (enc (F_uint w)) (map VN elems)) = concat (map (le_enc w) elems).
Proof. rewrite map_map. reflexivity. Qed.

Lemma enc_rep (n : N) (e : fmt) (l : list val) : enc (F_rep n e) (VL l) = concat (map (enc e) l).
Proof. reflexivity. Qed.

(* ---- what the reader does on "header ++ exactly the announced number of elements" ------------------------------ *)
Lemma tensor_dec_exact (s : tspec) ver rk dims sz h elems rest :
  (0 < t_width s)%nat ->
  hdr_inrange s ver rk dims sz h ->
  Forall (fun x => x < 256 ^ N.of_nat (t_width s)) elems ->
  dsize (map (sint 4) dims) = Z.of_nat (length elems) ->
  let hd := mk_hdr ver rk dims sz h in
  dec (tensor_fmt s) (tensor_bytes s hd elems ++ rest) =
  if hdr_ok s hd && (h =? hash_elems (t_width s) (t_signed s) elems)
  then Some (raw_tensor hd elems, rest) else None.
Proof.
  intros Hw Hr He Hsz hd. pose proof (wt_hdr s _ _ _ _ _ Hr) as Hwt. fold hd in Hwt.
  destruct (hdr_fields ver rk dims sz h) as (_ & _ & Hdims & _ & Hhash). fold hd in Hdims, Hhash.
  unfold tensor_fmt, tensor_bytes. cbn [dec]. rewrite <- app_assoc, (codec_roundtrip _ _ _ Hwt).
  destruct (hdr_ok s hd); cbn [andb]; [|reflexivity].
  unfold payload_fmt, hdr_dims. rewrite Hdims, Hsz.
  destruct (Z.ltb_spec (Z.of_nat (length elems)) 0) as [Hneg|_]; [lia|].
  rewrite <- enc_uint_list.
  assert (Hwl : wt (F_rep (Z.to_N (Z.of_nat (length elems))) (F_uint (t_width s))) (VL (map VN elems))).
  { cbn [wt]. eexists; split; [reflexivity|]. split; [rewrite map_length; lia|]. apply wt_uint_list; assumption. }
  pose proof (codec_roundtrip _ _ rest Hwl) as Hrt. rewrite enc_rep in Hrt. rewrite Hrt.
  unfold hash_ok. cbn [vfst]. rewrite Hhash. fold (raw_tensor hd elems). rewrite tensor_elems_raw. reflexivity.
Qed.

Lemma dec_rep_eq (n : N) (e : fmt) (bs : bytes) :
  dec (F_rep n e) bs = if short bs n then None
                       else match rep_dec (dec e) (N.to_nat n) bs with None => None | Some (l, r) => Some (VL l, r) end.
Proof. reflexivity. Qed.

(* fewer bytes than the header announces: short read *)
Lemma rep_uint_short (w k : nat) (bs : bytes) :
  (length bs < k * w)%nat -> rep_dec (dec (F_uint w)) k bs = None.
Proof.
  revert bs. induction k as [|k IH]; intros bs H; [lia|]. cbn [rep_dec dec].
  destruct (take w bs) as [[hh r]|] eqn:E; [|reflexivity].
  destruct (take_some _ _ _ _ E) as [-> Hl]. rewrite IH; [reflexivity|]. rewrite app_length in H. lia.
Qed.

Lemma concat_le_enc_length (w : nat) (elems : list N) : length (concat (map (le_enc w) elems)) = (length elems * w)%nat.
Proof. induction elems as [|x l IH]; cbn; [reflexivity|]. rewrite app_length, le_enc_length, IH. reflexivity. Qed.

Lemma tensor_dec_short (s : tspec) ver rk dims sz h elems :
  (0 < t_width s)%nat ->
  hdr_inrange s ver rk dims sz h ->
  (Z.of_nat (length elems) < dsize (map (sint 4) dims))%Z ->
  dec (tensor_fmt s) (tensor_bytes s (mk_hdr ver rk dims sz h) elems) = None.
Proof.
  intros Hw Hr Hsz. set (hd := mk_hdr ver rk dims sz h). pose proof (wt_hdr s _ _ _ _ _ Hr) as Hwt. fold hd in Hwt.
  destruct (hdr_fields ver rk dims sz h) as (_ & _ & Hdims & _ & _). fold hd in Hdims.
  unfold tensor_fmt, tensor_bytes. cbn [dec]. rewrite (codec_roundtrip _ _ _ Hwt).
  destruct (hdr_ok s hd); [|reflexivity].
  unfold payload_fmt, hdr_dims. rewrite Hdims.
  destruct (Z.ltb_spec (dsize (map (sint 4) dims)) 0) as [Hneg|Hpos]; [reflexivity|]. rewrite dec_rep_eq.
  destruct (short _ _); [reflexivity|].
  rewrite rep_uint_short; [reflexivity|]. rewrite concat_le_enc_length.
  assert (length elems < N.to_nat (Z.to_N (dsize (map (sint 4) dims))))%nat by lia. nia.
Qed.

Lemma tensor_dec_negative (s : tspec) ver rk dims sz h elems rest :
  hdr_inrange s ver rk dims sz h ->
  (dsize (map (sint 4) dims) < 0)%Z ->
  dec (tensor_fmt s) (tensor_bytes s (mk_hdr ver rk dims sz h) elems ++ rest) = None.
Proof.
  intros Hr Hsz. set (hd := mk_hdr ver rk dims sz h). pose proof (wt_hdr s _ _ _ _ _ Hr) as Hwt. fold hd in Hwt.
  destruct (hdr_fields ver rk dims sz h) as (_ & _ & Hdims & _ & _). fold hd in Hdims.
  unfold tensor_fmt, tensor_bytes. cbn [dec]. rewrite <- app_assoc, (codec_roundtrip _ _ _ Hwt).
  destruct (hdr_ok s hd); [|reflexivity].
  unfold payload_fmt, hdr_dims. rewrite Hdims.
  destruct (Z.ltb_spec (dsize (map (sint 4) dims)) 0) as [Hneg|Hpos]; [reflexivity|lia].
Qed.

(* ---- valid tensors --------------------------------------------------------------------------------------------- *)
Definition tensor_ok (s : tspec) (dims elems : list N) : Prop :=
  (0 < t_width s <= 8)%nat /\ N.of_nat (t_rank s) < 2 ^ 32 /\
  length dims = t_rank s /\ Forall (fun d => d < 2 ^ 31) dims /\
  N.of_nat (length elems) = fold_right N.mul 1 dims /\
  Forall (fun x => x < 256 ^ N.of_nat (t_width s)) elems.

Lemma sint4_small (d : N) : d < 2 ^ 31 -> sint 4 d = Z.of_N d.
Proof. intros H. unfold sint. change (2 ^ (8 * N.of_nat 4 - 1)) with (2 ^ 31). destruct (N.ltb_spec d (2 ^ 31)); [reflexivity|lia]. Qed.

Lemma dsize_valid (dims : list N) :
  Forall (fun d => d < 2 ^ 31) dims -> dsize (map (sint 4) dims) = Z.of_N (fold_right N.mul 1 dims).
Proof.
  induction 1 as [|d l Hd _ IH]; cbn [map dsize fold_right]; [reflexivity|].
  rewrite IH, sint4_small by assumption. unfold src_sz_step. lia.
Qed.

Lemma version_inrange : Z.to_N src_hash_version < 2 ^ 32.
Proof. vm_compute. reflexivity. Qed.

Lemma valid_inrange (s : tspec) dims elems :
  tensor_ok s dims elems ->
  hdr_inrange s (Z.to_N src_hash_version) (N.of_nat (t_rank s)) dims (N.of_nat (t_width s))
              (hash_elems (t_width s) (t_signed s) elems).
Proof.
  intros (Hw & Hrk & Hl & Hd & _ & _). unfold hdr_inrange. refine (conj _ (conj _ (conj _ (conj _ (conj _ _))))).
  - apply version_inrange.
  - exact Hrk.
  - exact Hl.
  - eapply Forall_impl; [|exact Hd]. cbn. intros d H. change (2 ^ 32) with 4294967296. change (2 ^ 31) with 2147483648 in H. lia.
  - change (2 ^ 32) with 4294967296. lia.
  - apply hash_elems_lt.
Qed.

Lemma valid_hdr_ok (s : tspec) dims h :
  hdr_ok s (mk_header s dims h) = true.
Proof.
  unfold hdr_ok, mk_header. destruct (hdr_fields (Z.to_N src_hash_version) (N.of_nat (t_rank s)) dims (N.of_nat (t_width s)) h)
    as (-> & -> & _ & -> & _).
  unfold src_tensor_hdr_bad. rewrite !nat_N_Z. rewrite Z2N.id by (vm_compute; discriminate).
  rewrite !Z.eqb_refl. reflexivity.
Qed.

Lemma valid_size (s : tspec) dims elems :
  tensor_ok s dims elems -> dsize (map (sint 4) dims) = Z.of_nat (length elems).
Proof. intros (_ & _ & _ & Hd & Hn & _). rewrite dsize_valid by assumption. rewrite <- Hn. apply nat_N_Z. Qed.

(* the stream nano::write produces *)
Definition tensor_stream (s : tspec) (dims elems : list N) : bytes :=
  tensor_bytes s (mk_header s dims (hash_elems (t_width s) (t_signed s) elems)) elems.

Lemma tensor_stream_enc (s : tspec) dims elems :
  tensor_ok s dims elems -> enc (tensor_fmt s) (mk_tensor s dims elems) = tensor_stream s dims elems.
Proof.
  intros Hok. unfold tensor_stream, tensor_bytes, mk_tensor, raw_tensor, tensor_fmt. cbn [enc]. f_equal.
  unfold payload_fmt, hdr_dims, mk_header.
  destruct (hdr_fields (Z.to_N src_hash_version) (N.of_nat (t_rank s)) dims (N.of_nat (t_width s))
                       (hash_elems (t_width s) (t_signed s) elems)) as (_ & _ & -> & _ & _).
  rewrite (valid_size s dims elems Hok).
  destruct (Z.ltb_spec (Z.of_nat (length elems)) 0); [lia|]. cbn [enc]. apply enc_uint_list.
Qed.

Lemma s_tensor_roundtrip (s : tspec) dims elems rest :
  tensor_ok s dims elems ->
  dec (tensor_fmt s) (tensor_stream s dims elems ++ rest) = Some (mk_tensor s dims elems, rest).
Proof.
  intros Hok. unfold tensor_stream, mk_header.
  rewrite tensor_dec_exact.
  - fold (mk_header s dims (hash_elems (t_width s) (t_signed s) elems)). rewrite valid_hdr_ok, N.eqb_refl. reflexivity.
  - destruct Hok as ((H & _) & _). exact H.
  - apply valid_inrange. exact Hok.
  - destruct Hok as (_ & _ & _ & _ & _ & H). exact H.
  - apply (valid_size s). exact Hok.
Qed.

Lemma wt_tensor (s : tspec) dims elems : tensor_ok s dims elems -> wt (tensor_fmt s) (mk_tensor s dims elems).
Proof.
  intros Hok. pose proof (valid_inrange s dims elems Hok) as Hr. pose proof (wt_hdr s _ _ _ _ _ Hr) as Hwt.
  destruct Hok as ((Hw & Hw8) & Hrk & Hl & Hd & Hn & He).
  unfold tensor_fmt, mk_tensor, raw_tensor. cbn [wt]. split.
  - eexists _, _; split; [reflexivity|]. split; [split; [exact Hwt|apply valid_hdr_ok]|].
    unfold payload_fmt, hdr_dims, mk_header.
    destruct (hdr_fields (Z.to_N src_hash_version) (N.of_nat (t_rank s)) dims (N.of_nat (t_width s))
                         (hash_elems (t_width s) (t_signed s) elems)) as (_ & _ & -> & _ & _).
    rewrite dsize_valid by assumption. rewrite <- Hn, nat_N_Z.
    destruct (Z.ltb_spec (Z.of_nat (length elems)) 0); [lia|]. cbn [wt].
    eexists; split; [reflexivity|]. split; [rewrite map_length; lia|]. apply wt_uint_list; assumption.
  - unfold hash_ok. cbn [vfst]. fold (raw_tensor (mk_header s dims (hash_elems (t_width s) (t_signed s) elems)) elems).
    rewrite tensor_elems_raw. unfold mk_header.
    destruct (hdr_fields (Z.to_N src_hash_version) (N.of_nat (t_rank s)) dims (N.of_nat (t_width s))
                         (hash_elems (t_width s) (t_signed s) elems)) as (_ & _ & _ & _ & ->).
    apply N.eqb_refl.
Qed.

Lemma s_tensor_prefix_rejected (s : tspec) dims elems p :
  tensor_ok s dims elems -> strict_prefix p (tensor_stream s dims elems) -> dec (tensor_fmt s) p = None.
Proof.
  intros Hok Hp. rewrite <- (tensor_stream_enc s dims elems Hok) in Hp.
  exact (codec_prefix_rejected _ _ _ (wt_tensor s dims elems Hok) Hp).
Qed.

(* ---- corrupted headers ----------------------------------------------------------------------------------------- *)
(* one of version / rank / sizeof / stored hash replaced by any other value: rejected, whatever follows *)
Lemma s_header_corruption (s : tspec) dims elems ver rk sz h rest :
  tensor_ok s dims elems ->
  ver < 2 ^ 32 -> rk < 2 ^ 32 -> sz < 2 ^ 32 -> h < 2 ^ 64 ->
  (ver, rk, sz, h) <> (Z.to_N src_hash_version, N.of_nat (t_rank s), N.of_nat (t_width s),
                       hash_elems (t_width s) (t_signed s) elems) ->
  dec (tensor_fmt s) (tensor_bytes s (mk_hdr ver rk dims sz h) elems ++ rest) = None.
Proof.
  intros Hok Hv Hr Hs Hh Hne. pose proof (valid_inrange s dims elems Hok) as (_ & _ & Hl & Hd & _ & _).
  rewrite tensor_dec_exact.
  - destruct (hdr_ok s (mk_hdr ver rk dims sz h) && (h =? hash_elems (t_width s) (t_signed s) elems)) eqn:E; [|reflexivity].
    exfalso. apply Hne. apply andb_prop in E. destruct E as [E1 E2]. apply N.eqb_eq in E2. subst h.
    unfold hdr_ok in E1. destruct (hdr_fields ver rk dims sz (hash_elems (t_width s) (t_signed s) elems)) as (Ev & Er & _ & Es & _).
    rewrite Ev, Er, Es in E1. unfold src_tensor_hdr_bad in E1. apply negb_true_iff in E1.
    apply orb_false_elim in E1. destruct E1 as [E1 E3]. apply orb_false_elim in E1. destruct E1 as [E1 E2].
    apply negb_false_iff, Z.eqb_eq in E1, E2, E3.
    assert (ver = Z.to_N src_hash_version) by (rewrite <- E1; rewrite N2Z.id; reflexivity).
    assert (rk = N.of_nat (t_rank s)) by lia. assert (sz = N.of_nat (t_width s)) by lia. congruence.
  - destruct Hok as ((H & _) & _). exact H.
  - unfold hdr_inrange. auto 10.
  - destruct Hok as (_ & _ & _ & _ & _ & H). exact H.
  - apply (valid_size s). exact Hok.
Qed.

(* the dimensions replaced by others that announce more elements than the stream holds: rejected (short read);
   a negative element count: rejected *)
Lemma s_dims_corruption_larger (s : tspec) dims elems dims' :
  tensor_ok s dims elems ->
  length dims' = t_rank s -> Forall (fun d => d < 2 ^ 32) dims' ->
  (Z.of_nat (length elems) < dsize (map (sint 4) dims') \/ dsize (map (sint 4) dims') < 0)%Z ->
  dec (tensor_fmt s) (tensor_bytes s (mk_header s dims' (hash_elems (t_width s) (t_signed s) elems)) elems) = None.
Proof.
  intros Hok Hl Hd Hsz. pose proof (valid_inrange s dims elems Hok) as (Hv & Hr & _ & _ & Hs & Hh).
  assert (Hin : hdr_inrange s (Z.to_N src_hash_version) (N.of_nat (t_rank s)) dims' (N.of_nat (t_width s))
                            (hash_elems (t_width s) (t_signed s) elems)) by (unfold hdr_inrange; auto 10).
  unfold mk_header. destruct Hsz as [Hsz|Hsz].
  - apply tensor_dec_short; try assumption. destruct Hok as ((H & _) & _). exact H.
  - rewrite <- (app_nil_r (tensor_bytes _ _ _)). apply tensor_dec_negative; assumption.
Qed.

(* ---- corrupted payload ----------------------------------------------------------------------------------------- *)
(* same number of elements, other contents: accepted iff the 64-bit hashes collide *)
Lemma s_payload_corruption_iff (s : tspec) dims elems elems' rest :
  tensor_ok s dims elems -> length elems' = length elems ->
  Forall (fun x => x < 256 ^ N.of_nat (t_width s)) elems' ->
  dec (tensor_fmt s) (tensor_bytes s (mk_header s dims (hash_elems (t_width s) (t_signed s) elems)) elems' ++ rest) =
  if hash_elems (t_width s) (t_signed s) elems =? hash_elems (t_width s) (t_signed s) elems'
  then Some (raw_tensor (mk_header s dims (hash_elems (t_width s) (t_signed s) elems)) elems', rest) else None.
Proof.
  intros Hok Hlen He'. unfold mk_header. rewrite tensor_dec_exact.
  - fold (mk_header s dims (hash_elems (t_width s) (t_signed s) elems)). rewrite valid_hdr_ok. reflexivity.
  - destruct Hok as ((H & _) & _). exact H.
  - apply valid_inrange. exact Hok.
  - exact He'.
  - rewrite Hlen. apply (valid_size s). exact Hok.
Qed.

(* the last element (in particular the only element of a one-element tensor) altered: always rejected *)
Lemma s_payload_last_element (s : tspec) dims pre x y rest :
  tensor_ok s dims (pre ++ [x]) -> y < 256 ^ N.of_nat (t_width s) -> x <> y ->
  dec (tensor_fmt s)
      (tensor_bytes s (mk_header s dims (hash_elems (t_width s) (t_signed s) (pre ++ [x]))) (pre ++ [y]) ++ rest) = None.
Proof.
  intros Hok Hy Hxy. pose proof Hok as ((Hw & Hw8) & _ & _ & _ & _ & He).
  apply Forall_app in He. destruct He as [Hpre Hx]. inversion Hx as [|? ? Hx' _]; subst.
  rewrite s_payload_corruption_iff.
  - destruct (N.eqb_spec (hash_elems (t_width s) (t_signed s) (pre ++ [x])) (hash_elems (t_width s) (t_signed s) (pre ++ [y]))) as [E|_];
      [|reflexivity].
    exfalso. exact (hash_last_element _ _ _ _ _ Hw8 Hx' Hy Hxy E).
  - exact Hok.
  - rewrite !app_length. reflexivity.
  - apply Forall_app. split; [exact Hpre|]. constructor; [exact Hy|constructor].
Qed.

(* ---- every concrete wire format is a combinator format ------------------------------------------------------- *)
Lemma s_formats_sound : forall (e : env) (wl : list (bytes * N)) (ids : list bytes) (s : tspec) (f : fmt),
  In f [tensor_fmt s; string_fmt; param_fmt; config_fmt (e_version e); feature_fmt (e_ftypes e); learner_fmt e;
        linear_fmt e; affine_fmt e; stump_fmt e; hinge_fmt e; table_fmt e; dtree_fmt e;
        object_fmt (wlearner_table e wl); gboost_fmt e wl; plain_object_fmt (e_version e) ids] ->
  forall v, wt f v ->
    (forall rest, dec f (enc f v ++ rest) = Some (v, rest)) /\
    (forall p q, q <> [] -> enc f v = p ++ q -> dec f p = None).
Proof.
  intros e wl ids s f _ v Hv. split.
  - intros rest. apply codec_roundtrip. exact Hv.
  - intros p q Hq E. apply (codec_prefix_rejected f v p Hv). exists q. auto.
Qed.

(* ---- refutations ------------------------------------------------------------------------------------------------ *)
Definition C15_payload_full_statement : Prop :=
  forall s dims elems elems' rest,
    tensor_ok s dims elems -> length elems' = length elems ->
    Forall (fun x => x < 256 ^ N.of_nat (t_width s)) elems' -> elems' <> elems ->
    dec (tensor_fmt s) (tensor_bytes s (mk_header s dims (hash_elems (t_width s) (t_signed s) elems)) elems' ++ rest) = None.

Definition collision_spec : tspec := {| t_rank := 1; t_width := 8; t_signed := false |}.
Definition collision_a : list N := [0xfde60bd381e8fe5c; 0x005f8802b261efc4].
Definition collision_b : list N := [0xfde60bd381e8fe36; 0x005f8802b261efc4].

Lemma s_payload_refuted : ~ C15_payload_full_statement.
Proof.
  intros H. specialize (H collision_spec [2] collision_a collision_b []).
  assert (Hok : tensor_ok collision_spec [2] collision_a).
  { unfold tensor_ok, collision_spec, collision_a. cbn.
    repeat match goal with |- _ /\ _ => split end; try lia; try reflexivity;
      repeat constructor. }
  specialize (H Hok eq_refl).
  assert (Hb : Forall (fun x => x < 256 ^ N.of_nat (t_width collision_spec)) collision_b) by (repeat constructor).
  specialize (H Hb). assert (Hne : collision_b <> collision_a) by discriminate. specialize (H Hne).
  vm_compute in H. discriminate.
Qed.

Lemma s_dims_refuted :
  exists s dims dims', tensor_ok s dims [] /\ dims' <> dims /\
    accepts (tensor_fmt s) (tensor_bytes s (mk_header s dims' (hash_elems (t_width s) (t_signed s) [])) []) = true.
Proof.
  exists {| t_rank := 2; t_width := 8; t_signed := false |}, [0; 3], [0; 4]. split.
  - unfold tensor_ok. cbn. repeat match goal with |- _ /\ _ => split end; try lia; try reflexivity; repeat constructor.
  - split; [discriminate|]. vm_compute. reflexivity.
Qed.

(* ---- non-vacuity: streams written by the real library ------------------------------------------------------------ *)
Definition real_tensor_i16 : bytes :=
  [0; 0; 0; 0; 1; 0; 0; 0; 3; 0; 0; 0; 2; 0; 0; 0; 77; 249; 28; 244; 22; 10; 0; 0; 175; 204; 82; 82; 20; 127].
Definition real_param_enum : bytes :=
  [0; 0; 0; 0; 5; 0; 0; 0; 35; 113; 122; 121; 105; 4; 0; 0; 0; 98; 101; 116; 97; 3; 0; 0; 0; 0; 0; 0; 0; 5; 0; 0; 0; 97;
   108; 112; 104; 97; 4; 0; 0; 0; 98; 101; 116; 97; 11; 0; 0; 0; 103; 97; 109; 109; 97; 45; 100; 101; 108; 116; 97].
Definition real_param_int : bytes :=
  [1; 0; 0; 0; 7; 0; 0; 0; 115; 99; 108; 100; 122; 106; 100; 126; 123; 185; 0; 0; 0; 0; 0; 252; 63; 248; 255; 255; 255;
   255; 255; 132; 100; 12; 1; 0; 0; 0; 0; 1; 0; 0; 0; 1; 0; 0; 0].
Definition real_feature : bytes :=
  [6; 0; 0; 0; 115; 99; 108; 97; 115; 115; 1; 0; 0; 0; 0; 0; 0; 0; 1; 0; 0; 0; 0; 0; 0; 0; 1; 0; 0; 0; 0; 0; 0; 0; 3; 0;
   0; 0; 104; 106; 108; 3; 0; 0; 0; 0; 0; 0; 0; 2; 0; 0; 0; 106; 112; 0; 0; 0; 0; 2; 0; 0; 0; 103; 111].
Definition i16_1 : tspec := {| t_rank := 1; t_width := 2; t_signed := true |}.

Lemma s_nonvacuous_tensor :
  tensor_ok i16_1 [3] [0xccaf; 0x5252; 0x7f14] /\
  tensor_stream i16_1 [3] [0xccaf; 0x5252; 0x7f14] = real_tensor_i16 /\
  reencodes (tensor_fmt i16_1) real_tensor_i16 = Some true /\
  prefix_verdicts (tensor_fmt i16_1) real_tensor_i16 = repeat false 30.
Proof.
  split.
  - unfold tensor_ok. cbn. repeat match goal with |- _ /\ _ => split end; try lia; try reflexivity; repeat constructor.
  - vm_compute. repeat split; reflexivity.
Qed.


Lemma s_nonvacuous_formats :
  reencodes param_fmt real_param_enum = Some true /\ reencodes param_fmt real_param_int = Some true /\
  reencodes (feature_fmt [[115; 99; 108; 97; 115; 115]]) real_feature = Some true /\
  prefix_verdicts param_fmt real_param_int = repeat false 47 /\
  wt param_fmt (VP (VP (VN 5) (mk_string [110])) (mk_string [118; 97])) /\
  wt (config_fmt (0, 0, 1)%Z) (VP (VP (VN 0) (VP (VN 0) (VN 1)))
                                  (mk_vector [VP (VP (VN 5) (mk_string [110])) (mk_string [118; 97])])).
Proof.
  split; [vm_compute; reflexivity|]. split; [vm_compute; reflexivity|]. split; [vm_compute; reflexivity|].
  split; [vm_compute; reflexivity|].
  assert (Hp : wt param_fmt (VP (VP (VN 5) (mk_string [110])) (mk_string [118; 97]))).
  { unfold param_fmt, mk_string. cbn [wt].
    eexists _, _; split; [reflexivity|]. split.
    - eexists _, _; split; [reflexivity|]. split; [eexists; split; [reflexivity|vm_compute; reflexivity]|].
      unfold string_fmt. cbn [wt]. eexists _, _; split; [reflexivity|].
      split; [eexists; split; [reflexivity|vm_compute; reflexivity]|]. cbn [wt]. eexists; split; reflexivity.
    - unfold param_body, param_type. cbn. eexists _, _; split; [reflexivity|].
      split; [eexists; split; [reflexivity|vm_compute; reflexivity]|]. eexists; split; reflexivity. }
  split; [exact Hp|].
  unfold config_fmt, mk_vector. cbn [wt]. eexists _, _; split; [reflexivity|]. split.
  - split; [|vm_compute; reflexivity]. unfold version3. cbn [wt].
    eexists _, _; split; [reflexivity|]. split; [eexists; split; [reflexivity|vm_compute; reflexivity]|].
    eexists _, _; split; [reflexivity|]. split; eexists; (split; [reflexivity|vm_compute; reflexivity]).
  - unfold vector_fmt. cbn [wt]. eexists _, _; split; [reflexivity|].
    split; [eexists; split; [reflexivity|vm_compute; reflexivity]|]. cbn [wt length].
    eexists; split; [reflexivity|]. split; [reflexivity|]. constructor; [|constructor]. split; [exact Hp|].
    vm_compute. discriminate.
Qed.

(* ---- the forms stated in Properties_C15 ------------------------------------------------------------------------- *)
Lemma s_tensor_roundtrip_enc : forall s dims elems rest,
  tensor_ok s dims elems ->
  dec (tensor_fmt s) (tensor_stream s dims elems ++ rest) = Some (mk_tensor s dims elems, rest) /\
  enc (tensor_fmt s) (mk_tensor s dims elems) = tensor_stream s dims elems.
Proof. intros. split; [apply s_tensor_roundtrip|apply tensor_stream_enc]; assumption. Qed.

Lemma s_tensor_prefix_rejected' : forall s dims elems p q,
  tensor_ok s dims elems -> q <> [] -> tensor_stream s dims elems = p ++ q -> dec (tensor_fmt s) p = None.
Proof. intros s dims elems p q Hok Hq E. apply (s_tensor_prefix_rejected s dims elems p Hok). exists q. auto. Qed.
