(* C01Q -- the quasi-Newton algebra of property C01 (src/solver/quasi.cpp, src/solver/lbfgs.cpp), executable model.

   Style C of DESIGN.md section 1.3: exact arithmetic.  The model is written ONCE over a record of field operations
   [fops F] and instantiated
     - at Qc (canonical rationals of the standard library: every operation ends with Qred, Leibniz equality) -- this is
       what is extracted and run against the hook events of the real solvers on every run,
     - by the driver at (Qc, running rounding-error bound) built from the extracted QcO -- the same code then also
       delivers, entry by entry, the magnitude against which the doubles of the implementation are compared,
     - at R in the property file (the theorems hold over every ordered field).
   Vectors are lists, matrices are lists of rows.  All operations are total; a missing entry reads as 0 ([vadd] pads),
   which is what keeps the algebra free of dimension side conditions.  No proofs in this file. *)
From Coq Require Import List ZArith QArith Qcanon Bool.
From LNGen Require Import Src_c01q.
Import ListNotations.

Record fops (F : Type) : Type := mk_fops {
  f0 : F; f1 : F;
  fadd : F -> F -> F; fmul : F -> F -> F; fsub : F -> F -> F; fopp : F -> F;
  fdiv : F -> F -> F; finv : F -> F;
  fcmp : F -> F -> Z            (* sign of a - b: -1, 0, 1 *)
}.
Arguments f0 {F}. Arguments f1 {F}. Arguments fadd {F}. Arguments fmul {F}. Arguments fsub {F}. Arguments fopp {F}.
Arguments fdiv {F}. Arguments finv {F}. Arguments fcmp {F}.

Section Model.
  Variable F : Type.
  Variable FO : fops F.
  Local Notation "0" := (f0 FO).
  Local Notation "1" := (f1 FO).
  Local Infix "+" := (fadd FO).
  Local Infix "*" := (fmul FO).
  Local Infix "-" := (fsub FO).
  Local Infix "/" := (fdiv FO).

  Definition vec := list F.
  Definition mat := list (list F).

  (* ---- vectors ------------------------------------------------------------------------------------------------ *)
  Fixpoint dot (a b : vec) : F :=
    match a, b with
    | x :: a', y :: b' => x * y + dot a' b'
    | _, _ => 0
    end.
  Fixpoint vadd (a b : vec) : vec :=
    match a, b with
    | x :: a', y :: b' => (x + y) :: vadd a' b'
    | [], _ => b
    | _, [] => a
    end.
  Fixpoint vsub (a b : vec) : vec :=
    match a, b with
    | x :: a', y :: b' => (x - y) :: vsub a' b'
    | [], _ => map (fopp FO) b
    | _, [] => a
    end.
  Definition vscale (c : F) (v : vec) : vec := map (fun x => c * x) v.      (* c * v *)
  Definition vdivs (v : vec) (c : F) : vec := map (fun x => x / c) v.        (* v / c *)
  Definition vopp (v : vec) : vec := map (fopp FO) v.

  (* ---- matrices (lists of rows) -------------------------------------------------------------------------------- *)
  Definition mv (M : mat) (v : vec) : vec := map (fun r => dot r v) M.       (* M * v *)
  Fixpoint vm (r : vec) (M : mat) : vec :=                                   (* r' * M = sum_k r_k * row_k(M) *)
    match r, M with
    | x :: r', b :: M' => vadd (vscale x b) (vm r' M')
    | _, _ => []
    end.
  Definition mmul (A B : mat) : mat := map (fun r => vm r B) A.             (* A * B *)
  Fixpoint madd (A B : mat) : mat :=
    match A, B with
    | a :: A', b :: B' => vadd a b :: madd A' B'
    | [], _ => B
    | _, [] => A
    end.
  Fixpoint msub (A B : mat) : mat :=
    match A, B with
    | a :: A', b :: B' => vsub a b :: msub A' B'
    | [], _ => map vopp B
    | _, [] => A
    end.
  Definition mscale (c : F) (M : mat) : mat := map (vscale c) M.            (* c * M *)
  Definition mmuls (M : mat) (c : F) : mat := map (map (fun x => x * c)) M.  (* M * c *)
  Definition mdivs (M : mat) (c : F) : mat := map (fun r => vdivs r c) M.    (* M / c *)
  Definition outer (a b : vec) : mat := map (fun x => vscale x b) a.        (* a * b' *)
  Definition zeros (n : nat) : vec := repeat 0 n.
  Fixpoint identity (n : nat) : mat :=
    match n with
    | O => []
    | S k => (1 :: zeros k) :: map (cons 0) (identity k)
    end.
  Fixpoint transpose_aux (n : nat) (M : mat) : mat :=                       (* the n columns of M *)
    match n with
    | O => []
    | S k => map (fun r => hd 0 r) M :: transpose_aux k (map (@tl F) M)
    end.
  Definition transpose (M : mat) : mat := transpose_aux (length M) M.

  (* ---- decisions: comparisons of the source, translated on every run (generated/Src_c01q.v) ------------------- *)
  (* `a OP b` of the source is decided on the images of a and b under t |-> sign(t - b) (monotone, exact at b) *)
  Definition phi_lt0 (phi : F) : bool := src_fletcher_dfp (fcmp FO phi 0) (fcmp FO 0 0).      (* phi < scalar_t(0) *)
  Definition phi_gt1 (phi : F) : bool := src_fletcher_bfgs (fcmp FO phi 1) (fcmp FO 1 1).     (* phi > scalar_t(1) *)

  (* ---- quasi.cpp: the five updates of the inverse Hessian approximation, as written --------------------------- *)
  (* SR1(H, dx, dg):  H + (dx - H*dg) * (dx - H*dg)' / (dx - H*dg).dot(dg) *)
  Definition sr1_plain (H : mat) (s y : vec) : mat :=
    let v := vsub s (mv H y) in
    madd H (mdivs (outer v v) (dot v y)).
  (* SR1(H, dx, dg, r): apply = |denom| >= r * |dx| * |dx - H*dg|.  Both sides are non-negative (0 < r < 1 is enforced by
     the parameter), so the test is decided on the squares: denom^2 >= r^2 (dx.dx) (v.v) -- no square root *)
  Definition sr1_apply (r : F) (H : mat) (s y : vec) : bool :=
    let v := vsub s (mv H y) in
    let denom := dot v y in
    (* kernel `adenom >= r * ndx * nv` on the sign images: lhs |-> sign(lhs^2 - rhs^2), rhs |-> 1 * 1 * sign(0 - 0) *)
    src_sr1_apply (fcmp FO (denom * denom) (r * r * dot s s * dot v v)) 1%Z 1%Z (fcmp FO 0 0).
  Definition sr1 (r : F) (H : mat) (s y : vec) : mat :=
    if sr1_apply r H s y then sr1_plain H s y else H.
  (* DFP_:  H + (dx*dx')/dx.dot(dg) - (H*dg*dg'*H)/(dg'*H*dg) *)
  Definition dfp (H : mat) (s y : vec) : mat :=
    msub (madd H (mdivs (outer s s) (dot s y)))
         (mdivs (mmul (outer (mv H y) y) H) (dot (vm y H) y)).
  (* BFGS_:  (I - dx*dg'/dx.dot(dg)) * H * (I - dg*dx'/dx.dot(dg)) + dx*dx'/dx.dot(dg),  I = identity(H.rows()) *)
  Definition bfgs (H : mat) (s y : vec) : mat :=
    let sy := dot s y in
    let I := identity (length H) in
    madd (mmul (mmul (msub I (mdivs (outer s y) sy)) H) (msub I (mdivs (outer y s) sy)))
         (mdivs (outer s s) sy).
  (* HOSHINO:  phi = dx.dg / (dx.dg + dg'*H*dg);  (1 - phi) * DFP_ + phi * BFGS_ *)
  Definition hoshino_phi (H : mat) (s y : vec) : F := dot s y / (dot s y + dot (vm y H) y).
  Definition broyden (phi : F) (H : mat) (s y : vec) : mat :=
    madd (mscale (1 - phi) (dfp H s y)) (mscale phi (bfgs H s y)).
  Definition hoshino (H : mat) (s y : vec) : mat := broyden (hoshino_phi H s y) H s y.
  (* FLETCHER:  phi = dx.dg / (dx.dg - dg'*H*dg);  phi < 0: DFP, phi > 1: BFGS, else SR1 (without safeguard) *)
  Definition fletcher_phi (H : mat) (s y : vec) : F := dot s y / (dot s y - dot (vm y H) y).
  Definition fletcher (H : mat) (s y : vec) : mat :=
    let phi := fletcher_phi H s y in
    if phi_lt0 phi then dfp H s y
    else if phi_gt1 phi then bfgs H s y
    else sr1_plain H s y.
  (* quasi_initialization::scaled:  identity * dx.dot(dg) / dg.dot(dg) *)
  Definition scaled_identity (n : nat) (s y : vec) : mat := mdivs (mmuls (identity n) (dot s y)) (dot y y).

  (* which update a solver id applies (solver_quasi_*_t::update); r is solver::quasi::sr1::r *)
  Inductive qkind := KSR1 | KDFP | KBFGS | KHOSHINO | KFLETCHER.
  Definition quasi_update (k : qkind) (r : F) (H : mat) (s y : vec) : mat :=
    match k with
    | KSR1 => sr1 r H s y
    | KDFP => dfp H s y
    | KBFGS => bfgs H s y
    | KHOSHINO => hoshino H s y
    | KFLETCHER => fletcher H s y
    end.
  (* descent = -H * g *)
  Definition quasi_direction (H : mat) (g : vec) : vec := vopp (mv H g).

  (* ---- lbfgs.cpp: the two-loop recursion ------------------------------------------------------------------------ *)
  (* the history is the pair of deques (ss, ys) as ONE list of pairs, oldest first *)
  Definition pair := (vec * vec)%type.
  (* first loop, j = 0 .. hsize-1 over ss[hsize-1-j]: [l] is the history NEWEST first;
     returns q and the alphas in the order they are stored (alphas[j]) *)
  Fixpoint loop1 (l : list pair) (q : vec) : vec * list F :=
    match l with
    | [] => (q, [])
    | (s, y) :: l' =>
        let alpha := dot s q / dot s y in
        let '(q', al) := loop1 l' (vsub q (vscale alpha y)) in
        (q', alpha :: al)
    end.
  (* second loop, j = 0 .. hsize-1 over ss[j] with alphas[hsize-1-j]: [l] is the history OLDEST first, each pair with
     its alpha;  beta = y.dot(r) / s.dot(y);  r += s * (alpha - beta) *)
  Fixpoint loop2 (l : list (pair * F)) (r : vec) : vec :=
    match l with
    | [] => r
    | ((s, y), alpha) :: l' =>
        let beta := dot y r / dot s y in
        loop2 l' (vadd r (vscale (alpha - beta) s))
    end.
  (* r = q if the history is empty, else s.dot(y) / y.dot(y) * q with the NEWEST pair *)
  Definition lbfgs_scale (hist : list pair) (q : vec) : vec :=
    match rev hist with
    | [] => q
    | (s, y) :: _ => vscale (dot s y / dot y y) q
    end.
  Definition two_loop (hist : list pair) (g : vec) : vec :=
    let '(q, alphas) := loop1 (rev hist) g in
    loop2 (combine hist (rev alphas)) (lbfgs_scale hist q).
  Definition lbfgs_direction (hist : list pair) (g : vec) : vec := vopp (two_loop hist g).

  (* the matrix the recursion applies: BFGS updates of H0 = (s'y / y'y) I (newest pair) with the stored pairs, oldest to
     newest (theorem C01Q_lbfgs_two_loop) *)
  Definition lbfgs_H0 (n : nat) (hist : list pair) : mat :=
    match rev hist with
    | [] => identity n
    | (s, y) :: _ => scaled_identity n s y
    end.
  Definition lbfgs_matrix (n : nat) (hist : list pair) : mat :=
    fold_left (fun H (p : pair) => bfgs H (fst p) (snd p)) hist (lbfgs_H0 n hist).

  (* the history book-keeping: emplace_back, then pop_front when ss.size() > history *)
  Definition lbfgs_push (history : Z) (hist : list pair) (p : pair) : list pair :=
    let h := hist ++ [p] in
    if src_lbfgs_pop (Z.of_nat (length h)) history then tl h else h.
End Model.

Arguments dot {F}. Arguments vadd {F}. Arguments vsub {F}. Arguments vscale {F}. Arguments vdivs {F}. Arguments vopp {F}.
Arguments mv {F}. Arguments vm {F}. Arguments mmul {F}. Arguments madd {F}. Arguments msub {F}. Arguments mscale {F}.
Arguments mmuls {F}. Arguments mdivs {F}. Arguments outer {F}. Arguments zeros {F}. Arguments identity {F}.
Arguments transpose {F}. Arguments transpose_aux {F}.
Arguments phi_lt0 {F}. Arguments phi_gt1 {F}. Arguments sr1_plain {F}. Arguments sr1_apply {F}. Arguments sr1 {F}.
Arguments dfp {F}. Arguments bfgs {F}. Arguments hoshino_phi {F}. Arguments broyden {F}. Arguments hoshino {F}.
Arguments fletcher_phi {F}. Arguments fletcher {F}. Arguments scaled_identity {F}. Arguments quasi_update {F}.
Arguments quasi_direction {F}. Arguments loop1 {F}. Arguments loop2 {F}. Arguments lbfgs_scale {F}.
Arguments two_loop {F}. Arguments lbfgs_direction {F}. Arguments lbfgs_H0 {F}. Arguments lbfgs_matrix {F}.
Arguments lbfgs_push {F}.

(* ---- instance 1: canonical rationals --------------------------------------------------------------------------- *)
Definition zcmp (c : comparison) : Z := match c with Lt => (-1)%Z | Eq => 0%Z | Gt => 1%Z end.
Definition QcO : fops Qc :=
  mk_fops Qc (Q2Qc 0) (Q2Qc 1) Qcplus Qcmult Qcminus Qcopp Qcdiv Qcinv (fun a b => zcmp (Qccompare a b)).
