(* C15 (extension) -- STATEFUL readers: nano::read(stream, destination) MUTATES an existing destination object.

   C15_Defs models the readers as pure decoders ([dec f bytes = Some (value, rest)]). Here the same wire formats are
   written as terms of [dfmt] -- the combinators of [fmt] plus what the C++ readers do with the destination:
     D_string  nano::read(stream, std::string&): size into a local, early-exit test, string.resize(size) (keeps a prefix
               of the old characters, pads with '\0'), then one read per character INTO the resized string; the state of a
               string is its contents (seen as size + characters, the way the writer emits it),
     D_rep     the body of nano::read(stream, std::vector<T>&): early-exit test, values.resize(size) KEEPS the old
               elements, which are then the destinations of the element reads (new elements are value-initialised),
     D_raw     one block read into a fixed-size trivially copyable member (feature_t::m_dims),
     D_uint    nano::read(stream, scalar&): overwrites the scalar (a short read overwrites its low bytes only),
     D_temp    the field is read into a local / freshly created object (`string_t value;`, `int32_t type = -1;`,
               `object = tobject::all().get(type_id)`) that is assigned to the destination afterwards (early = false)
               or before the read (early = true: std::unique_ptr),
     D_tensor  nano::read(stream, tensor_t&): header into locals, header test, `tensor.resize(dims)` (the storage is
               contents + dims: the dims are set, the contents are kept iff the element count is unchanged -- Eigen
               reallocates without initialising otherwise: [p_junk]), payload read into the storage, hash test.
   [rd p f d bs] returns the state of the destination AFTER the call (also when the read fails half-way) and the rest
   of the stream if the stream is still good; [erase] forgets the destination handling and gives back the [fmt] term of
   C15_Defs. The three decisions that the seeded regressions C15/4 and C15/5 changed (the early exits after the size
   field, the condition under which the tensor is resized) are translated from the source on every run
   (Src_stream.src_str_exit, src_vec_exit, src_tensor_resize_when) and enter the model through a [policy].
   Destinations are values of the universal type [val]; [VU] is a value-initialised (blank) destination of any format
   (the accessors of C15_Defs read it as 0 / empty).  No proofs in this file. *)
From Coq Require Import List ZArith NArith Bool.
From LNGen Require Import Src_stream.
From LN Require Import C15_Defs.
Import ListNotations.
Local Open Scope N_scope.

Inductive dfmt : Type :=
| D_fail
| D_unit
| D_uint (k : nat)
| D_raw (n : N)
| D_string
| D_pair (a b : dfmt)
| D_dep (a : dfmt) (g : val -> dfmt)
| D_rep (n : N) (e : dfmt)
| D_filter (a : dfmt) (p : val -> bool)
| D_temp (init : val) (early : bool) (a : dfmt)
| D_tensor (s : tspec).

Fixpoint erase (f : dfmt) : fmt :=
  match f with
  | D_fail => F_fail
  | D_unit => F_unit
  | D_uint k => F_uint k
  | D_raw n => F_raw n
  | D_string => string_fmt
  | D_pair a b => F_pair (erase a) (erase b)
  | D_dep a g => F_dep (erase a) (fun v => erase (g v))
  | D_rep n e => F_rep n (erase e)
  | D_filter a p => F_filter (erase a) p
  | D_temp _ _ a => erase a
  | D_tensor s => tensor_fmt s
  end.

(* the decisions of the readers that are taken from the source, and the contents of a freshly allocated (not
   initialised) tensor buffer *)
Record policy : Type := {
  p_str_exit : bool -> Z -> bool;      (* string reader: return right after the size field? (read failed?, size) *)
  p_vec_exit : bool -> Z -> bool;      (* vector reader: the same *)
  p_resize_when : Z -> Z -> bool;      (* tensor reader: call tensor.resize(dims)? (old element count, new element count) *)
  p_junk : nat -> N                    (* element i of a re-allocated Eigen buffer *)
}.

Definition src_policy (junk : nat -> N) : policy :=
  {| p_str_exit := src_str_exit; p_vec_exit := src_vec_exit; p_resize_when := src_tensor_resize_when; p_junk := junk |}.

(* the two seeded regressions, as policies *)
Definition early_exit_policy (junk : nat -> N) : policy :=          (* C15/4: `if (!read(stream, size) || size == 0U) return` *)
  {| p_str_exit := fun failed size => failed || (size =? 0)%Z; p_vec_exit := fun failed _ => failed;
     p_resize_when := fun _ _ => true; p_junk := junk |}.
Definition skip_resize_policy (junk : nat -> N) : policy :=         (* C15/5: `if (tensor.size() != size(dims)) resize` *)
  {| p_str_exit := fun failed _ => failed; p_vec_exit := fun failed _ => failed;
     p_resize_when := fun old new => negb (old =? new)%Z; p_junk := junk |}.

(* ---- what resize / a (short) block read do to existing storage -------------------------------------------------- *)
(* std::string::resize(k): keeps the first k characters, pads with '\0' *)
Fixpoint resize_bytes (k : nat) (old : bytes) : bytes :=
  match k with
  | O => []
  | S k' => match old with [] => 0 :: resize_bytes k' [] | b :: r => b :: resize_bytes k' r end
  end.

(* std::vector<T>::resize(k): keeps the first k elements, appends value-initialised ones *)
Fixpoint resize_vals (k : nat) (old : list val) : list val :=
  match k with
  | O => []
  | S k' => match old with [] => VU :: resize_vals k' [] | v :: r => v :: resize_vals k' r end
  end.

(* the bytes that arrive are stored over the front of the buffer; what does not arrive stays as it was *)
Fixpoint overwrite (buf src : bytes) : bytes :=
  match buf, src with
  | _ :: buf', s :: src' => s :: overwrite buf' src'
  | _, _ => buf
  end.

(* Eigen: resize to another element count gives an uninitialised buffer, the same count keeps the contents *)
Definition realloc (p : policy) (k : nat) (old : list N) : list N :=
  if (length old =? k)%nat then old else map (p_junk p) (seq 0 k).

(* nano::read(stream, scalar&) *)
Definition rd_uint (k : nat) (d : val) (bs : bytes) : val * option bytes :=
  match take k bs with
  | Some (h, r) => (VN (le_dec h), Some r)
  | None => (VN (le_dec (overwrite (le_enc k (vnat d)) bs)), None)
  end.

(* a block of n bytes read over [buf] (length n) *)
Definition rd_block (n : N) (buf : bytes) (bs : bytes) : bytes * option bytes :=
  if short bs n then (overwrite buf bs, None)
  else match take (N.to_nat n) bs with
       | Some (h, r) => (overwrite buf h, Some r)
       | None => (overwrite buf bs, None)
       end.

(* nano::read(stream, std::string&) *)
Definition rd_string (p : policy) (d : val) (bs : bytes) : val * option bytes :=
  match take 4 bs with
  | None => (d, None)                                     (* `uint32_t size` is a local: the string is not touched *)
  | Some (h, r) =>
    let n := le_dec h in
    if p_str_exit p false (Z.of_N n) then (mk_string (vstring d), Some r)      (* return stream; *)
    else let '(c, o) := rd_block n (resize_bytes (N.to_nat n) (vstring d)) r in (mk_string c, o)
  end.

(* the element loop of the vector reader: stops at the first element that fails, the later destinations stay *)
Fixpoint rd_rep (step : val -> bytes -> val * option bytes) (dests : list val) (bs : bytes) : list val * option bytes :=
  match dests with
  | [] => ([], Some bs)
  | d :: ds => match step d bs with
               | (x, None) => (x :: ds, None)
               | (x, Some r) => let '(l, o) := rd_rep step ds r in (x :: l, o)
               end
  end.

(* the state of a tensor destination is (dims, contents); as a [val] it is seen through what the writer would emit *)
Definition tensor_state (s : tspec) (dims elems : list N) : val := mk_tensor s dims elems.
Definition state_dims (d : val) : list N := hdr_rawdims (vfst d).
Definition state_elems (d : val) : list N := tensor_elems d.

Definition rd_tensor (p : policy) (s : tspec) (d : val) (bs : bytes) : val * option bytes :=
  match dec (F_filter (hdr_fmt s) (hdr_ok s)) bs with
  | None => (d, None)                                     (* the header lives in locals: the tensor is not touched *)
  | Some (h, r) =>
    let n := dsize (hdr_dims h) in
    if (n <? 0)%Z then (d, None)                          (* resize throws before anything is stored *)
    else
      let old := state_elems d in
      let doit := p_resize_when p (Z.of_nat (length old)) n in
      let dims' := if doit then hdr_rawdims h else state_dims d in
      let store := if doit then realloc p (Z.to_nat n) old else old in
      let '(l, o) := rd_rep (rd_uint (t_width s)) (map VN store) r in
      let d' := tensor_state s dims' (map vnat l) in
      match o with
      | None => (d', None)
      | Some r' => if short r (Z.to_N n) then (d', None)
                   else if hdr_hash h =? hash_elems (t_width s) (t_signed s) (map vnat l) then (d', Some r')
                        else (d', None)
      end
  end.

(* ---- the stateful reader ----------------------------------------------------------------------------------------- *)
Fixpoint rd (p : policy) (f : dfmt) (d : val) (bs : bytes) : val * option bytes :=
  match f with
  | D_fail => (d, None)
  | D_unit => (VU, Some bs)
  | D_uint k => rd_uint k d bs
  | D_raw n => let '(c, o) := rd_block n (resize_bytes (N.to_nat n) (vraw d)) bs in (VB c, o)
  | D_string => rd_string p d bs
  | D_pair a b => match rd p a (vfst d) bs with
                  | (x, None) => (VP x (vsnd d), None)
                  | (x, Some r) => let '(y, o) := rd p b (vsnd d) r in (VP x y, o)
                  end
  | D_dep a g => match rd p a (vfst d) bs with
                 | (x, None) => (VP x (vsnd d), None)
                 | (x, Some r) => let '(y, o) := rd p (g x) (vsnd d) r in (VP x y, o)
                 end
  | D_rep n e => if p_vec_exit p false (Z.of_N n) then (VL (vlist d), Some bs)
                 else let '(l, o) := rd_rep (rd p e) (resize_vals (N.to_nat n) (vlist d)) bs in
                      (VL l, if short bs n then None else o)
  | D_filter a q => match rd p a d bs with
                    | (v, None) => (v, None)
                    | (v, Some r) => if q v then (v, Some r) else (v, None)
                    end
  | D_temp init early a => match rd p a init bs with
                           | (v, None) => (if early then v else d, None)
                           | (v, Some r) => (v, Some r)
                           end
  | D_tensor s => rd_tensor p s d bs
  end.

(* nano::read(stream, destination) as seen by a caller that checks the stream state *)
Definition read_into (p : policy) (f : dfmt) (d : val) (bs : bytes) : option (val * bytes) :=
  match rd p f d bs with
  | (d', Some r) => Some (d', r)
  | (_, None) => None
  end.

(* ---- the wire formats of the library, with their destination handling -------------------------------------------- *)
Definition d_u32 : dfmt := D_uint 4.
Definition d_u64 : dfmt := D_uint 8.
(* `T value{}; read(stream, value); member = cast(value);` and plain locals *)
Definition d_local (a : dfmt) : dfmt := D_temp VU false a.

Definition d_string : dfmt := D_string.
(* the count field is a local (`uint64_t size = 0;`) *)
Definition d_vector (e : dfmt) : dfmt := D_dep (d_local d_u64) (fun v => match v with VN n => D_rep n e | _ => D_fail end).

(* src/parameter.cpp: `int32_t type = -1` is a local, m_name is read IN PLACE, the body goes to locals and is assigned
   to m_storage as a whole *)
Definition d_range : dfmt := D_pair d_u64 (D_pair d_u64 (D_pair d_u64 (D_pair d_u32 d_u32))).
Definition d_prange : dfmt := D_pair d_u64 (D_pair d_u64 (D_pair d_u64 (D_pair d_u64 (D_pair d_u32 (D_pair d_u32 d_u32))))).

Definition d_param_body (hd : val) : dfmt :=
  let t := param_type hd in
  if (t =? -1)%Z then D_unit
  else if (t =? 0)%Z then d_local (D_pair d_string (d_vector d_string))
  else if ((t =? 1) || (t =? 2))%Z then d_local d_range
  else if ((t =? 3) || (t =? 4))%Z then d_local d_prange
  else if (t =? 5)%Z then d_local d_string
  else D_fail.

Definition d_param : dfmt := D_dep (D_pair (D_temp (VN 0xFFFFFFFF) false d_u32) d_string) d_param_body.

(* src/configurable.cpp: the three version numbers are read into the members, then `read(stream, m_parameters)`: the
   vector reader -- the registered parameters are the destinations, position by position *)
Definition d_version3 : dfmt := D_pair d_u32 (D_pair d_u32 d_u32).
Definition d_config (cur : Z * Z * Z) : dfmt :=
  D_pair (D_filter d_version3 (version_ok cur)) (d_vector d_param).

(* core/stream.h, unique_ptr overload: the type id is a local string, `object = tobject::all().get(type_id)` replaces
   the destination by a fresh clone of the prototype (state [proto id]) BEFORE its body is read *)
Definition d_object (proto : bytes -> val) (tbl : list (bytes * dfmt)) : dfmt :=
  D_dep (d_local d_string)
        (fun id => match lookup (vstring id) tbl with Some f => D_temp (proto (vstring id)) true f | None => D_fail end).

(* src/feature.cpp: `string_t type` is a local; m_dims, m_name, m_labels are read in place *)
Definition d_feature (ftypes : list bytes) : dfmt :=
  D_filter (D_pair (d_local d_string) (D_pair (D_raw 24) (D_pair d_string (d_vector d_string))))
           (fun v => known_name ftypes (vfst v)).

Definition d_learner (e : env) : dfmt :=
  D_pair (d_config (e_version e)) (D_pair (d_vector (d_feature (e_ftypes e))) (d_feature (e_ftypes e))).

Definition d_linear (e : env) : dfmt :=
  D_filter (D_pair (d_learner e) (D_pair (D_tensor (f64 1)) (D_tensor (f64 2))))
           (fun v => match tensor_dim0 (vfst (vsnd v)), tensor_dim0 (vsnd (vsnd v)) with
                     | Some a, Some b => a =? b
                     | _, _ => false
                     end).

Definition d_single (e : env) : dfmt := D_pair (d_learner e) (D_pair (d_local d_u64) (D_tensor (f64 4))).
Definition d_affine := d_single.
Definition d_stump (e : env) : dfmt := D_pair (d_single e) d_u64.
Definition d_hinge (e : env) : dfmt := D_pair (d_single e) (D_pair d_u64 (d_local d_u32)).
Definition d_table (e : env) : dfmt := D_pair (d_single e) (D_pair (D_tensor (u64t 1)) (D_tensor (i64 1))).
Definition d_dtree_node : dfmt := D_pair (d_local d_u32) (D_pair d_u64 (D_pair (d_local d_u32) (d_local d_u32))).
Definition d_dtree (e : env) : dfmt :=
  D_pair (d_learner e) (D_pair (d_vector d_dtree_node) (D_pair (D_tensor (i64 1)) (D_tensor (f64 4)))).

Definition d_wlearner_of (e : env) (k : N) : dfmt :=
  match k with
  | 0 => d_affine e
  | 1 => d_stump e
  | 2 => d_hinge e
  | 3 => d_table e
  | 4 => d_dtree e
  | _ => D_fail
  end.

Definition d_wlearner_table (e : env) (ids : list (bytes * N)) : list (bytes * dfmt) :=
  map (fun p => (fst p, d_wlearner_of e (snd p))) ids.

Definition d_gboost (proto : bytes -> val) (e : env) (ids : list (bytes * N)) : dfmt :=
  D_pair (d_learner e)
         (D_pair (D_tensor (f64 1))
                 (D_pair (d_vector (d_object proto (d_wlearner_table e ids)))
                         (d_vector (d_object proto (d_wlearner_table e ids))))).

Definition d_plain_object (proto : bytes -> val) (cur : Z * Z * Z) (ids : list bytes) : dfmt :=
  d_object proto (map (fun id => (id, d_config cur)) ids).

(* ---- what the driver asks ----------------------------------------------------------------------------------------- *)
(* the destination is given by the bytes it serialises to (decoded by the pure reader; an undecodable or empty stream
   stands for a value-initialised destination); the result is what the destination serialises to afterwards *)
Definition dest_of_bytes (f : dfmt) (bs : bytes) : val :=
  match dec (erase f) bs with Some (v, _) => v | None => VU end.

Definition reuse_result (p : policy) (f : dfmt) (dest stream : bytes) : option (bytes * bytes) :=
  match read_into p f (dest_of_bytes f dest) stream with
  | Some (d', r) => Some (enc (erase f) d', r)
  | None => None
  end.

(* the state after a read that may fail: (what the destination serialises to, stream still good?) *)
Definition reuse_state (p : policy) (f : dfmt) (dest stream : bytes) : bytes * bool :=
  match rd p f (dest_of_bytes f dest) stream with
  | (d', o) => (enc (erase f) d', match o with Some _ => true | None => false end)
  end.

Definition zero_junk : nat -> N := fun _ => 0.
