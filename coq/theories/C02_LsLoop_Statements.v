(* C02 (extension) -- example oracles (float literals live here: Properties_C02.v does not import Floats), the non-vacuity
   witnesses and the full-strength statement that is FALSE of the faithful model. *)
From Coq Require Import ZArith List Bool Floats.
From LN Require Import C02_Defs C02_LsLoop_Defs.
From LN Require C07_Defs C07_Statements.
Import ListNotations.
Local Open Scope float_scope.

(* 1-D objectives as first-order oracles; the dot product of 1-vectors is one multiplication *)
Definition ex_eval1 (f : float -> float * float) (_ : Z) (x : point) : float * point :=
  match x with [v] => (fst (f v), [snd (f v)]) | _ => (nan, []) end.
Definition ex_dot (g d : point) : float := match g, d with [a], [b] => a * b | _, _ => nan end.
Definition ex_parab (v : float) : float * float := ((v - 1) * (v - 1), 2 * (v - 1)).
Definition ex_quartic (v : float) : float * float := (v * v * v * v, 4 * (v * v * v)).
(* value 0 with slope -1 at the origin, a plateau of value 1 and zero slope everywhere else *)
Definition ex_trap (v : float) : float * float := if v =? 0 then (0, -1) else (1, 0).
(* finite only on (-2, 2) *)
Definition ex_box (v : float) : float * float := if abs v <? 2 then (v * v * v * v - 8 * v, 4 * (v * v * v) - 8) else (infinity, 0).
Definition ex_orc (f : float -> float * float) : oracles :=
  mkO (ex_eval1 f) ex_dot (fun _ c _ => vneg (sgx c)) (fun _ _ _ _ => None) (fun _ _ _ _ _ => 1).
Definition ex_cfg (b : body) (a : C07_Defs.alg) (n : Z) (maxev : Z) : lsconf :=
  mkLC b a (C07_Statements.prm_default n) 0x1p-20 maxev.
Definition ex_one : float := 1.
Definition ex_zero : float := 0.

(* what a run ends with: (x, fx, status, fcalls, gcalls, line searches, last iter_ok, irregular step seen, exit) *)
Definition ex_show (cfg : lsconf) (r : lsrun) :=
  let s := ls_result cfg r in (sx s, sfx s, sstatus s, (lr_fc r, lr_gc r), lr_iters r, (lr_ok r, lr_irreg r), lr_exit r).
Definition ex_run (f : float -> float * float) (cfg : lsconf) (x0 : float) : lsrun :=
  ls_solver_run (ex_orc f) cfg (ls_fuel cfg) [x0].

(* "with an Armijo-type search the returned value is not larger than the starting value unless the status is failed".
   It was FALSE of the faithful model of the code before repo commit 85997bc (solver_t::done gave `converged` precedence over
   a failed line search, iter_ok = false, and a failed search leaves the state at its last trial point, whose value may be
   anything); it is a theorem now (Properties_C02.C02_lsloop_not_worse_unless_failed). *)
Definition C02_lsloop_not_worse_unless_failed_full_statement : Prop :=
  forall orc cfg fuel x0,
    (0 < C07_Defs.maxit (lc_prm cfg))%Z -> armijo_type (lc_alg cfg) = true ->
    (0 <? C07_Defs.c1 (lc_prm cfg)) = true ->
    let r := ls_solver_run orc cfg fuel x0 in
    lr_irreg r = false -> sstatus (ls_result cfg r) <> ST_FAILED ->
    (sfx (ls_result cfg r) <=? fst (o_eval orc 0%Z x0)) = true.

(* the old witness (the trap: backtrack with max_iterations = 1 fails on a plateau of value 1 > 0 with zero slope): the run
   now ends `failed`; the decision as it was before 85997bc (done_ref_prefix) applied to the very same last done() call --
   valid state, iter_ok = false, gradient test true -- answers `converged`, with a value above the start *)
Lemma s_prefix_trap :
  let c := ex_cfg BGd C07_Defs.Backtrack 1 100 in
  let r := ex_run ex_trap c 0 in
  sstatus (ls_result c r) = ST_FAILED /\ lr_ok r = false /\ lr_irreg r = false /\ valid (lr_c r) = true /\
  (gradient_test (lr_c r) <? lc_eps c) = true /\ (0 <? sfx (ls_result c r)) = true /\
  done_ref_prefix (lr_c r) (lr_ok r) (gradient_test (lr_c r) <? lc_eps c) = (true, ST_CONVERGED) /\
  done_ref (lr_c r) (lr_ok r) (gradient_test (lr_c r) <? lc_eps c) = (true, ST_FAILED).
Proof. vm_compute. repeat split; reflexivity. Qed.

Lemma s_examples :
  (* gd + backtrack on (x-1)^2 from 0: converged at the minimiser after one line search *)
  ex_show (ex_cfg BGd C07_Defs.Backtrack 128 100) (ex_run ex_parab (ex_cfg BGd C07_Defs.Backtrack 128 100) 0)
  = ([ex_one], ex_zero, ST_CONVERGED, (4, 4)%Z, 1%Z, (true, false), EX_DONE) /\
  (* gd + lemarechal on x^4 from 1 with max_evals = 12: leaves through the budget test (status max_iters), value decreased *)
  (let r := ex_run ex_quartic (ex_cfg BGd C07_Defs.Lemarechal 128 12) 1 in
   lr_exit r = EX_BUDGET /\ sstatus (ls_result (ex_cfg BGd C07_Defs.Lemarechal 128 12) r) = ST_MAX_ITERS /\
   (2 <= lr_iters r)%Z /\ (12 <= lr_fc r + lr_gc r)%Z /\ lr_irreg r = false /\
   (sfx (ls_result (ex_cfg BGd C07_Defs.Lemarechal 128 12) r) <? 1) = true) /\
  (* lbfgs-shaped body on a function that is +inf outside (-2, 2): whatever happens, a valid state is returned *)
  (let c := ex_cfg BLbfgs C07_Defs.Backtrack 2 40 in let r := ex_run ex_box c ex_zero in
   valid (ls_result c r) = true) /\
  (* converged before the loop *)
  ex_show (ex_cfg BCgd C07_Defs.Fletcher 128 100) (ex_run ex_parab (ex_cfg BCgd C07_Defs.Fletcher 128 100) 1)
  = ([ex_one], ex_zero, ST_CONVERGED, (1, 1)%Z, 0%Z, (true, false), EX_INIT) /\
  (* the trap: a failed line search ending on a point that passes the gradient test is reported `failed` (repo 85997bc) *)
  (let c := ex_cfg BGd C07_Defs.Backtrack 1 100 in let r := ex_run ex_trap c 0 in
   sstatus (ls_result c r) = ST_FAILED /\ lr_ok r = false /\ (0 <? sfx (ls_result c r)) = true).
Proof. vm_compute. repeat split; try reflexivity; try discriminate. Qed.
