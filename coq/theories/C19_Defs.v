(* C19 -- executable model of nano::parameter_t / configurable_t (src/parameter.cpp, include/nano/parameter.h,
   src/configurable.cpp).  No proofs here.

   * the boolean skeleton of every domain check, the LE/LT selection, the serialisation flags and the mandatory
     lookup condition are the kernels translated from the source on every run (Src_parameter, Src_configurable,
     Src_numeric); Src_parameter_flt holds the PrimFloat twins of the template kernels (derived by
     tools/checks/c19.py from the very same generated text).
   * strings are lists of byte codes; `std::stoll` and the tokenizer-based `split_pair` are modelled,
     `std::stod` is an oracle (its outcome travels with the operation).
   * `static_cast<int64_t>(double)` is modelled on its defined domain only (`f2i`, None = UB in C++).  Since the fix
     0c6dfeb every `::update` first tests `convertible<tscalar>(value_)` (translated kernel `src_convertible`) and
     throws; the `UB` outcome of `step` is kept in the model and PROVED unreachable (C19_Proofs.step_no_ub).  What is
     still unguarded: the casts of make_scalar_ (construction from doubles, `make_integer_d`) and value<int64_t>() of a
     floating-point parameter (`RUB`). *)
From Coq Require Import ZArith List Bool Floats Uint63.
From LNGen Require Import Src_numeric Src_parameter Src_parameter_flt Src_configurable.
Import ListNotations.
Local Open Scope Z_scope.

Definition str := list Z.

Fixpoint str_eqb (a b : str) : bool :=
  match a, b with
  | [], [] => true
  | x :: a', y :: b' => (x =? y) && str_eqb a' b'
  | _, _ => false
  end.

(* ---------------------------------------------------------------------------------------------- *)
(* comparison operators                                                                            *)
Inductive cmp := LE | LT.
Definition is_le (c : cmp) : bool := match c with LE => true | LT => false end.

Definition zcheck (c : cmp) (a b : Z) : bool := src_param_check (is_le c) a b.
Definition fcheck (c : cmp) (a b : float) : bool := src_param_check_f (is_le c) a b.

(* serialisation of the operators (make_flag / make_comp) *)
Definition flag_of (c : cmp) : Z := src_make_flag (is_le c).
Definition comp_of (flag : Z) : cmp := if src_make_comp flag =? 1 then LE else LT.

(* ---------------------------------------------------------------------------------------------- *)
(* numeric conversions                                                                             *)
Definition int64_min : Z := -9223372036854775808.
Definition int64_max : Z := 9223372036854775807.
Definition in_int64 (z : Z) : bool := (int64_min <=? z) && (z <=? int64_max).

(* truncation toward zero of a finite double (None: NaN or infinity) *)
Definition trunc_f (f : float) : option Z :=
  match Prim2SF f with
  | S754_zero _ => Some 0
  | S754_finite s m e =>
      let a := if 0 <=? e then Z.pos m * 2 ^ e else Z.pos m / 2 ^ (- e) in
      Some (if s then - a else a)
  | _ => None
  end.

(* static_cast<int64_t>(double): None = undefined behaviour *)
Definition f2i (f : float) : option Z :=
  match trunc_f f with
  | Some t => if in_int64 t then Some t else None
  | None => None
  end.

(* static_cast<double>(int64_t): round to nearest even (cvtsi2sd); argument assumed in the int64 range *)
Definition i2f (z : Z) : float :=
  if z =? 0 then zero
  else if z =? int64_min then (-0x1p+63)%float
  else if 0 <? z then of_uint63 (Uint63.of_Z z)
  else (- of_uint63 (Uint63.of_Z (- z)))%float.

(* convertible<int64_t>(double): finite and lowest <= v < -lowest with lowest = (double)INT64_MIN = -2^63 *)
Definition dbl_lowest : float := (-0x1p+63)%float.
Definition conv_i (f : float) : bool :=
  src_convertible (is_finite f) (PrimFloat.leb dbl_lowest f) (PrimFloat.ltb f (- dbl_lowest)%float).

(* the first statement of both ::update overloads: critical(!convertible<tscalar>(value_)) *)
(* ---------------------------------------------------------------------------------------------- *)
(* std::stoll (strtoll, base 10, "C" locale)                                                        *)
Inductive parse := PInvalid | PRange | PVal (z : Z).

Definition is_space (c : Z) : bool := (c =? 32) || ((9 <=? c) && (c <=? 13)).
Definition is_digit (c : Z) : bool := (48 <=? c) && (c <=? 57).

Fixpoint skip_ws (s : str) : str :=
  match s with
  | c :: r => if is_space c then skip_ws r else s
  | [] => []
  end.

(* value of the leading digit run and whether at least one digit was seen *)
Fixpoint digits (s : str) (acc : Z) (seen : bool) : Z * bool :=
  match s with
  | c :: r => if is_digit c then digits r (10 * acc + (c - 48)) true else (acc, seen)
  | [] => (acc, seen)
  end.

Definition strip_sign (s : str) : bool * str :=
  match s with
  | c :: r => if c =? 45 then (true, r) else if c =? 43 then (false, r) else (false, s)
  | [] => (false, [])
  end.

Definition stoll (s : str) : parse :=
  let '(neg, s2) := strip_sign (skip_ws s) in
  let '(v, seen) := digits s2 0 false in
  if negb seen then PInvalid
  else let z := if neg then - v else v in
       if in_int64 z then PVal z else PRange.

(* ---------------------------------------------------------------------------------------------- *)
(* tokenizer_t with the delimiters ";,:|/ " and split_pair                                          *)
Definition is_delim (c : Z) : bool :=
  (c =? 59) || (c =? 44) || (c =? 58) || (c =? 124) || (c =? 47) || (c =? 32).

(* maximal runs of non-delimiters; `cur` is the current token, reversed *)
Fixpoint tokens_aux (s : str) (cur : str) : list str :=
  match s with
  | [] => match cur with [] => [] | _ => [rev cur] end
  | c :: r => if is_delim c
              then match cur with [] => tokens_aux r [] | _ => rev cur :: tokens_aux r [] end
              else tokens_aux r (c :: cur)
  end.
Definition tokens (s : str) : list str := tokens_aux s [].

(* value1 = first token, value2 = the last of the remaining tokens (each later token overwrites value2) *)
Definition split_pair (s : str) : str * str :=
  match tokens s with
  | [] => ([], [])
  | t :: r => (t, last r [])
  end.

(* ---------------------------------------------------------------------------------------------- *)
(* storage: the variant m_storage (value + domain)                                                  *)
Inductive storage :=
| SNone
| SEnum (v : str) (dom : list str)
| SIRange (v mn mx : Z) (cmin cmax : cmp)
| SFRange (v mn mx : float) (cmin cmax : cmp)
| SIPair (v1 v2 mn mx : Z) (cmin cval cmax : cmp)
| SFPair (v1 v2 mn mx : float) (cmin cval cmax : cmp)
| SString (v : str).

Inductive result := Ok (s : storage) | Throw | UB.

(* critical(!convertible<tscalar>(value_)) resp. critical(!convertible(value1_) || !convertible(value2_)) in front of
   the conversion; for every instantiation except double -> int64 `convertible` is the constant of its else branch *)
Definition guard1 (conv : bool) (r : result) : result := if src_range_noconv conv then Throw else r.
Definition guard2 (conv1 conv2 : bool) (r : result) : result := if src_pair_noconv conv1 conv2 then Throw else r.
Definition g1 (r : result) : result := guard1 src_convertible_other r.
Definition g2 (r : result) : result := guard2 src_convertible_other src_convertible_other r.

(* index of the first occurrence (std::find), = length when absent *)
Fixpoint find_pos (v : str) (dom : list str) : Z :=
  match dom with
  | [] => 0
  | d :: r => if str_eqb d v then 0 else 1 + find_pos v r
  end.

(* ::update(name, enum_t&, value) *)
Definition upd_enum (dom : list str) (v : str) : result :=
  if src_enum_reject (find_pos v dom) (Z.of_nat (length dom)) then Throw else Ok (SEnum v dom).

(* ::update(name, range_t<int64_t>&, value) after the conversion *)
Definition upd_i (mn mx : Z) (cmin cmax : cmp) (v : Z) : result :=
  if src_range_reject src_isfinite_int (zcheck cmin mn v) (zcheck cmax v mx) then Throw
  else Ok (SIRange (src_range_assign v) mn mx cmin cmax).

Definition upd_f (mn mx : float) (cmin cmax : cmp) (v : float) : result :=
  if src_range_reject (is_finite v) (fcheck cmin mn v) (fcheck cmax v mx) then Throw
  else Ok (SFRange (src_range_assign_f v) mn mx cmin cmax).

Definition upd_ip (mn mx : Z) (cmin cval cmax : cmp) (v1 v2 : Z) : result :=
  if src_pair_reject src_isfinite_int src_isfinite_int (zcheck cmin mn v1) (zcheck cval v1 v2) (zcheck cmax v2 mx)
  then Throw
  else Ok (SIPair (src_pair_assign1 v1 v2) (src_pair_assign2 v1 v2) mn mx cmin cval cmax).

Definition upd_fp (mn mx : float) (cmin cval cmax : cmp) (v1 v2 : float) : result :=
  if src_pair_reject (is_finite v1) (is_finite v2) (fcheck cmin mn v1) (fcheck cval v1 v2) (fcheck cmax v2 mx)
  then Throw
  else Ok (SFPair (src_pair_assign1_f v1 v2) (src_pair_assign2_f v1 v2) mn mx cmin cval cmax).

(* construction: the private constructors run the same update on the candidate (make_* have converted the
   arguments to the stored kind already) *)
Definition make (s : storage) : result :=
  match s with
  | SNone => Ok SNone
  | SEnum v dom => upd_enum dom v
  | SIRange v mn mx c1 c2 => g1 (upd_i mn mx c1 c2 v)
  | SFRange v mn mx c1 c2 => g1 (upd_f mn mx c1 c2 v)
  | SIPair v1 v2 mn mx c1 c2 c3 => g2 (upd_ip mn mx c1 c2 c3 v1 v2)
  | SFPair v1 v2 mn mx c1 c2 c3 => g2 (upd_fp mn mx c1 c2 c3 v1 v2)
  | SString v => Ok (SString v)
  end.

(* make_integer(name, min, comp, value, comp, max) called with doubles: make_scalar_ casts the three arguments with
   static_cast<int64_t> WITHOUT any guard (include/nano/parameter.h) -- outside the repaired path *)
Definition make_integer_d (v mn mx : float) (c1 c2 : cmp) : result :=
  match f2i v, f2i mn, f2i mx with
  | Some v', Some mn', Some mx' => make (SIRange v' mn' mx' c1 c2)
  | _, _, _ => UB
  end.

(* ---------------------------------------------------------------------------------------------- *)
(* serialisation as a sequence of typed fields (the byte codec itself is C15's subject)             *)
Inductive field :=
| FI32 (z : Z) | FU32 (z : Z) | FI64 (z : Z) | FF64 (f : float) | FStr (s : str) | FStrs (l : list str).

Definition encode (name : str) (s : storage) : list field :=
  match s with
  | SNone => [FI32 (-1); FStr name]
  | SEnum v dom => [FI32 0; FStr name; FStr v; FStrs dom]
  | SIRange v mn mx c1 c2 => [FI32 1; FStr name; FI64 v; FI64 mn; FI64 mx; FU32 (flag_of c1); FU32 (flag_of c2)]
  | SFRange v mn mx c1 c2 => [FI32 2; FStr name; FF64 v; FF64 mn; FF64 mx; FU32 (flag_of c1); FU32 (flag_of c2)]
  | SIPair v1 v2 mn mx c1 c2 c3 =>
      [FI32 3; FStr name; FI64 v1; FI64 v2; FI64 mn; FI64 mx; FU32 (flag_of c1); FU32 (flag_of c3); FU32 (flag_of c2)]
  | SFPair v1 v2 mn mx c1 c2 c3 =>
      [FI32 4; FStr name; FF64 v1; FF64 v2; FF64 mn; FF64 mx; FU32 (flag_of c1); FU32 (flag_of c3); FU32 (flag_of c2)]
  | SString v => [FI32 5; FStr name; FStr v]
  end.

(* parameter_t::read: no validation of the decoded value happens *)
Definition decode (l : list field) : option (str * storage) :=
  match l with
  | [FI32 t; FStr name] => if t =? -1 then Some (name, SNone) else None
  | [FI32 t; FStr name; FStr v] => if t =? 5 then Some (name, SString v) else None
  | [FI32 t; FStr name; FStr v; FStrs dom] => if t =? 0 then Some (name, SEnum v dom) else None
  | [FI32 t; FStr name; FI64 v; FI64 mn; FI64 mx; FU32 minLE; FU32 maxLE] =>
      if t =? 1 then Some (name, SIRange v mn mx (comp_of minLE) (comp_of maxLE)) else None
  | [FI32 t; FStr name; FF64 v; FF64 mn; FF64 mx; FU32 minLE; FU32 maxLE] =>
      if t =? 2 then Some (name, SFRange v mn mx (comp_of minLE) (comp_of maxLE)) else None
  | [FI32 t; FStr name; FI64 v1; FI64 v2; FI64 mn; FI64 mx; FU32 minLE; FU32 maxLE; FU32 valLE] =>
      if t =? 3 then Some (name, SIPair v1 v2 mn mx (comp_of minLE) (comp_of valLE) (comp_of maxLE)) else None
  | [FI32 t; FStr name; FF64 v1; FF64 v2; FF64 mn; FF64 mx; FU32 minLE; FU32 maxLE; FU32 valLE] =>
      if t =? 4 then Some (name, SFPair v1 v2 mn mx (comp_of minLE) (comp_of valLE) (comp_of maxLE)) else None
  | _ => None
  end.

(* ---------------------------------------------------------------------------------------------- *)
(* assignments                                                                                      *)
Inductive arg :=
| AInt (z : Z)                                  (* operator=(integral)  -> seti(int64_t) *)
| AFlt (f : float)                              (* operator=(floating)  -> setd(double) *)
| AIPair (a b : Z)                              (* operator=(tuple<int64,int64>) / tuple<int32,int32> *)
| AFPair (a b : float)                          (* operator=(tuple<double,double>) *)
| AStr (s : str) (d0 d1 d2 : option float)      (* operator=(string); std::stod outcomes of: the whole string, the
                                                   first and the second component of split_pair (None = it throws) *)
| AEnum (s : str)                               (* operator=(tenum) with scat(value) = s *)
| AWriteRead (name : str).                      (* write to a stream, read back into the same object *)

Definition step (s : storage) (a : arg) : result :=
  match a, s with
  | AInt z, SIRange _ mn mx c1 c2 => g1 (upd_i mn mx c1 c2 z)
  | AInt z, SFRange _ mn mx c1 c2 => g1 (upd_f mn mx c1 c2 (i2f z))
  | AInt _, _ => Throw
  | AFlt f, SIRange _ mn mx c1 c2 =>
      guard1 (conv_i f) (match f2i f with Some z => upd_i mn mx c1 c2 z | None => UB end)
  | AFlt f, SFRange _ mn mx c1 c2 => g1 (upd_f mn mx c1 c2 f)
  | AFlt _, _ => Throw
  | AIPair a b, SIPair _ _ mn mx c1 c2 c3 => g2 (upd_ip mn mx c1 c2 c3 a b)
  | AIPair a b, SFPair _ _ mn mx c1 c2 c3 => g2 (upd_fp mn mx c1 c2 c3 (i2f a) (i2f b))
  | AIPair _ _, _ => Throw
  | AFPair a b, SIPair _ _ mn mx c1 c2 c3 =>
      guard2 (conv_i a) (conv_i b)
        (match f2i a, f2i b with
         | Some x, Some y => upd_ip mn mx c1 c2 c3 x y
         | _, _ => UB
         end)
  | AFPair a b, SFPair _ _ mn mx c1 c2 c3 => g2 (upd_fp mn mx c1 c2 c3 a b)
  | AFPair _ _, _ => Throw
  | AStr v _ _ _, SEnum _ dom => upd_enum dom v
  | AStr v _ _ _, SString _ => Ok (SString v)
  | AStr v _ _ _, SIRange _ mn mx c1 c2 =>
      match stoll v with PVal z => g1 (upd_i mn mx c1 c2 z) | _ => Throw end
  | AStr v d0 _ _, SFRange _ mn mx c1 c2 =>
      match d0 with Some f => g1 (upd_f mn mx c1 c2 f) | None => Throw end
  | AStr v _ _ _, SIPair _ _ mn mx c1 c2 c3 =>
      let '(t1, t2) := split_pair v in
      match stoll t1, stoll t2 with
      | PVal x, PVal y => g2 (upd_ip mn mx c1 c2 c3 x y)
      | _, _ => Throw
      end
  | AStr v _ d1 d2, SFPair _ _ mn mx c1 c2 c3 =>
      match d1, d2 with
      | Some x, Some y => g2 (upd_fp mn mx c1 c2 c3 x y)
      | _, _ => Throw
      end
  | AStr _ _ _ _, SNone => Throw
  | AEnum v, SEnum _ dom => upd_enum dom v
  | AEnum _, _ => Throw
  | AWriteRead name, _ =>
      match decode (encode name s) with Some (_, s') => Ok s' | None => Throw end
  end.

(* the state after an operation: a throwing one leaves the object as it was; UB ends the defined history *)
Definition after (s : storage) (r : result) : option storage :=
  match r with Ok s' => Some s' | Throw => Some s | UB => None end.

Fixpoint run (s : storage) (h : list arg) : option storage :=
  match h with
  | [] => Some s
  | a :: h' => match after s (step s a) with Some s' => run s' h' | None => None end
  end.

(* ---------------------------------------------------------------------------------------------- *)
(* typed reads                                                                                      *)
Inductive rres :=
| RI (z : Z) | RF (f : float) | RIP (a b : Z) | RFP (a b : float) | RS (s : str) | RThrow | RUB.

Definition rd_f2i (f : float) (k : Z -> rres) : rres := match f2i f with Some z => k z | None => RUB end.

Definition read_i64 (s : storage) : rres :=          (* value<int64_t>() *)
  match s with
  | SIRange v _ _ _ _ => RI v
  | SFRange v _ _ _ _ => rd_f2i v RI
  | _ => RThrow
  end.
Definition read_f64 (s : storage) : rres :=          (* value<scalar_t>() *)
  match s with
  | SIRange v _ _ _ _ => RF (i2f v)
  | SFRange v _ _ _ _ => RF v
  | _ => RThrow
  end.
Definition read_ip (s : storage) : rres :=           (* value_pair<int64_t>() *)
  match s with
  | SIPair a b _ _ _ _ _ => RIP a b
  | SFPair a b _ _ _ _ _ => rd_f2i a (fun x => rd_f2i b (fun y => RIP x y))
  | _ => RThrow
  end.
Definition read_fp (s : storage) : rres :=           (* value_pair<scalar_t>() *)
  match s with
  | SIPair a b _ _ _ _ _ => RFP (i2f a) (i2f b)
  | SFPair a b _ _ _ _ _ => RFP a b
  | _ => RThrow
  end.
Definition read_str (s : storage) : rres :=          (* value<string_t>() *)
  match s with SString v => RS v | _ => RThrow end.
Definition read_enum (s : storage) : rres :=         (* value<tenum>(): the stored string mapped through from_string *)
  match s with SEnum v _ => RS v | _ => RThrow end.

(* the read in the parameter's own kind *)
Definition natural_read (s : storage) : rres :=
  match s with
  | SNone => RThrow
  | SEnum _ _ => read_enum s
  | SIRange _ _ _ _ _ => read_i64 s
  | SFRange _ _ _ _ _ => read_f64 s
  | SIPair _ _ _ _ _ _ _ => read_ip s
  | SFPair _ _ _ _ _ _ _ => read_fp s
  | SString _ => read_str s
  end.

(* what an argument denotes once converted to the kind of the parameter it is assigned to
   (None: no conversion exists -- kind mismatch, parse error or a double that is not convertible to int64) *)
Definition convert (s : storage) (a : arg) : option rres :=
  match a, s with
  | AInt z, SIRange _ _ _ _ _ => Some (RI z)
  | AInt z, SFRange _ _ _ _ _ => Some (RF (i2f z))
  | AFlt f, SIRange _ _ _ _ _ => if conv_i f then option_map RI (f2i f) else None
  | AFlt f, SFRange _ _ _ _ _ => Some (RF f)
  | AIPair a b, SIPair _ _ _ _ _ _ _ => Some (RIP a b)
  | AIPair a b, SFPair _ _ _ _ _ _ _ => Some (RFP (i2f a) (i2f b))
  | AFPair a b, SIPair _ _ _ _ _ _ _ =>
      if conv_i a && conv_i b
      then match f2i a, f2i b with Some x, Some y => Some (RIP x y) | _, _ => None end
      else None
  | AFPair a b, SFPair _ _ _ _ _ _ _ => Some (RFP a b)
  | AStr v _ _ _, SEnum _ _ => Some (RS v)
  | AStr v _ _ _, SString _ => Some (RS v)
  | AStr v _ _ _, SIRange _ _ _ _ _ => match stoll v with PVal z => Some (RI z) | _ => None end
  | AStr v d0 _ _, SFRange _ _ _ _ _ => option_map RF d0
  | AStr v _ _ _, SIPair _ _ _ _ _ _ _ =>
      match stoll (fst (split_pair v)), stoll (snd (split_pair v)) with
      | PVal x, PVal y => Some (RIP x y)
      | _, _ => None
      end
  | AStr v _ d1 d2, SFPair _ _ _ _ _ _ _ =>
      match d1, d2 with Some x, Some y => Some (RFP x y) | _, _ => None end
  | AEnum v, SEnum _ _ => Some (RS v)
  | _, _ => None
  end.

(* the declared domain (everything of the storage except the value) *)
Definition domain_of (s : storage) : storage :=
  match s with
  | SNone => SNone
  | SEnum _ dom => SEnum [] dom
  | SIRange _ mn mx c1 c2 => SIRange 0 mn mx c1 c2
  | SFRange _ mn mx c1 c2 => SFRange zero mn mx c1 c2
  | SIPair _ _ mn mx c1 c2 c3 => SIPair 0 0 mn mx c1 c2 c3
  | SFPair _ _ mn mx c1 c2 c3 => SFPair zero zero mn mx c1 c2 c3
  | SString _ => SString []
  end.

(* ---------------------------------------------------------------------------------------------- *)
(* configurable_t: registered parameters addressed by name                                          *)
Record param := mkParam { pname : str; pstore : storage }.
Definition config := list param.

Fixpoint cfind_pos (name : str) (c : config) : Z :=
  match c with
  | [] => 0
  | p :: r => if str_eqb (pname p) name then 0 else 1 + cfind_pos name r
  end.

Definition clen (c : config) : Z := Z.of_nat (length c).
Definition cfound (name : str) (c : config) : bool := negb (cfind_pos name c =? clen c).   (* parameter_if != nullptr *)

(* register_parameter: None = throws *)
Definition cregister (c : config) (p : param) : option config :=
  if cfound (pname p) c then None else Some (c ++ [p]).

Fixpoint cupdate (c : config) (i : nat) (s : storage) : config :=
  match c, i with
  | [], _ => []
  | p :: r, O => mkParam (pname p) s :: r
  | p :: r, S j => p :: cupdate r j s
  end.

Inductive cres := COk (c : config) | CThrow | CUB.

(* parameter(name) = value *)
Definition cassign (c : config) (name : str) (a : arg) : cres :=
  let pos := cfind_pos name c in
  if src_find_throws true pos (clen c) then CThrow
  else match nth_error c (Z.to_nat pos) with
       | None => CThrow
       | Some p => match step (pstore p) a with
                   | Ok s' => COk (cupdate c (Z.to_nat pos) s')
                   | Throw => CThrow
                   | UB => CUB
                   end
       end.

(* parameter(name).value<...>() through one of the typed reads *)
Definition cread (c : config) (name : str) (rd : storage -> rres) : rres :=
  let pos := cfind_pos name c in
  if src_find_throws_const true pos (clen c) then RThrow
  else match nth_error c (Z.to_nat pos) with
       | None => RThrow
       | Some p => rd (pstore p)
       end.

Inductive cop :=
| CAssign (name : str) (a : arg)
| CRegister (name : str) (s : storage).      (* register_parameter(make_*(name, ...)) *)

Definition cafter (c : config) (r : cres) : option config :=
  match r with COk c' => Some c' | CThrow => Some c | CUB => None end.

Definition cstep (c : config) (o : cop) : cres :=
  match o with
  | CAssign name a => cassign c name a
  | CRegister name s =>
      match make s with
      | Ok s' => match cregister c (mkParam name s') with Some c' => COk c' | None => CThrow end
      | Throw => CThrow
      | UB => CUB
      end
  end.

Fixpoint crun (c : config) (h : list cop) : option config :=
  match h with
  | [] => Some c
  | o :: h' => match cafter c (cstep c o) with Some c' => crun c' h' | None => None end
  end.

(* ---------------------------------------------------------------------------------------------- *)
(* a store of objects: clone() = deep copy into a fresh cell                                        *)
Definition store := list config.

Definition sclone (st : store) (i : nat) : store :=
  match nth_error st i with Some c => st ++ [c] | None => st end.

Fixpoint supdate (st : store) (i : nat) (c : config) : store :=
  match st, i with
  | [], _ => []
  | x :: r, O => c :: r
  | x :: r, S j => x :: supdate r j c
  end.

Inductive sop := SOp (obj : nat) (o : cop) | SClone (obj : nat).

Definition sstep (st : store) (o : sop) : option store :=
  match o with
  | SClone i => Some (sclone st i)
  | SOp i co =>
      match nth_error st i with
      | None => Some st
      | Some c => match cafter c (cstep c co) with Some c' => Some (supdate st i c') | None => None end
      end
  end.

Fixpoint srun (st : store) (h : list sop) : option store :=
  match h with
  | [] => Some st
  | o :: h' => match sstep st o with Some st' => srun st' h' | None => None end
  end.
