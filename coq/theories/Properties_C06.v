(* C06 -- values, gradients and convexity flags of functions, losses and constraints are truthful.
   Only statements + `exact` + Print Assumptions live here.  Model: C06_Defs (one definition per object over an abstract
   scalar structure; [Rops] = real numbers is what the theorems talk about, [Qops] = exact rationals is extracted and compared
   with the library on every run).  [decl name] is the (convex, smooth, strong-convexity) declaration parsed from the source of
   the working tree on every run (generated/Src_c06_flags.v): every convexity theorem carries the declaration it justifies. *)
From Coq Require Import String.
From Coq Require Import List ZArith QArith Reals Bool Lra Lia Psatz.
From LNGen Require Import Src_c06 Src_c06_flags.
From Coquelicot Require Import Coquelicot.
From LNGen Require Import Src_c06rest.
From LN Require Import C06_Defs C06_Proofs C06_Deriv C06_Transfer C06_Convex2_Defs C06_Convex2 C06_Convex2_Transfer C06_Rest_Defs C06_Rest.
Import ListNotations.
Local Open Scope R_scope.

(* ---- the declarations of the source are the ones the theorems assume (any flipped flag / new object breaks this) ---- *)
Theorem C06_declarations_as_assumed : src_c06_flags = c06_assumed_flags.
Proof. exact flags_as_assumed. Qed.
Print Assumptions C06_declarations_as_assumed.
Theorem C06_loss_mse_convex :
  declares "loss:mse"%string "yes"%string "yes"%string ""%string /\ forall t, convex_on (loss_v Rops (k_mse_v Rops) t) (loss_g (k_mse_g Rops) t) 0.
Proof. exact s_loss_mse. Qed.
Print Assumptions C06_loss_mse_convex.

Theorem C06_loss_mae_convex :
  declares "loss:mae"%string "yes"%string "no"%string ""%string /\ forall t, convex_on (loss_v Rops (k_mae_v Rops) t) (loss_g (k_mae_g Rops) t) 0.
Proof. exact s_loss_mae. Qed.
Print Assumptions C06_loss_mae_convex.

Theorem C06_loss_hinge_convex :
  declares "loss:hinge"%string "yes"%string "no"%string ""%string /\ forall t, convex_on (loss_v Rops (k_hinge_v Rops) t) (loss_g (k_hinge_g Rops) t) 0.
Proof. exact s_loss_hinge. Qed.
Print Assumptions C06_loss_hinge_convex.

Theorem C06_loss_squared_hinge_convex :
  declares "loss:squared-hinge"%string "yes"%string "yes"%string ""%string /\ forall t, convex_on (loss_v Rops (k_sqhinge_v Rops) t) (loss_g (k_sqhinge_g Rops) t) 0.
Proof. exact s_loss_sqhinge. Qed.
Print Assumptions C06_loss_squared_hinge_convex.

Theorem C06_loss_pinball_convex :
  declares "loss:pinball"%string "yes"%string "no"%string ""%string /\ forall alpha, 0 <= alpha <= 1 -> forall t, convex_on (loss_v Rops (k_pinball_v Rops alpha) t) (loss_g (k_pinball_g Rops alpha) t) 0.
Proof. exact s_loss_pinball. Qed.
Print Assumptions C06_loss_pinball_convex.

Theorem C06_loss_exponential_convex :
  declares "loss:exponential"%string "yes"%string "yes"%string ""%string /\ forall t, convex_on (loss_v Rops kr_exponential_v t) (loss_g kr_exponential_g t) 0.
Proof. exact s_loss_exponential. Qed.
Print Assumptions C06_loss_exponential_convex.

Theorem C06_loss_logistic_convex :
  declares "loss:logistic"%string "yes"%string "yes"%string ""%string /\ forall t, convex_on (loss_v Rops kr_logistic_v t) (loss_g kr_logistic_g t) 0.
Proof. exact s_loss_logistic. Qed.
Print Assumptions C06_loss_logistic_convex.

Theorem C06_fn_sphere_convex :
  declares "fn:sphere"%string "yes"%string "yes"%string "2.0"%string /\ convex_on (sphere_v Rops) (sphere_g Rops) 2 /\ expands_on (sphere_v Rops) (sphere_g Rops) 1.
Proof. exact s_fn_sphere. Qed.
Print Assumptions C06_fn_sphere_convex.

Theorem C06_fn_axis_ellipsoid_convex :
  declares "fn:axis-ellipsoid"%string "yes"%string "yes"%string "2.0"%string /\ convex_on (axis_v Rops) (axis_g Rops) 2.
Proof. exact s_fn_axis. Qed.
Print Assumptions C06_fn_axis_ellipsoid_convex.

Theorem C06_fn_schumer_steiglitz_convex :
  declares "fn:schumer-steiglitz"%string "yes"%string "yes"%string ""%string /\ convex_on (schumer_v Rops) (schumer_g Rops) 0.
Proof. exact s_fn_schumer. Qed.
Print Assumptions C06_fn_schumer_steiglitz_convex.

Theorem C06_fn_chung_reynolds_convex :
  declares "fn:chung-reynolds"%string "yes"%string "yes"%string ""%string /\ convex_on (chung_v Rops) (chung_g Rops) 0.
Proof. exact s_fn_chung. Qed.
Print Assumptions C06_fn_chung_reynolds_convex.

Theorem C06_fn_sargan_convex :
  declares "fn:sargan"%string "yes"%string "yes"%string ""%string /\ convex_on (sargan_v Rops) (sargan_g Rops) 0.
Proof. exact s_fn_sargan. Qed.
Print Assumptions C06_fn_sargan_convex.

Theorem C06_fn_zakharov_convex :
  declares "fn:zakharov"%string "yes"%string "yes"%string ""%string /\ convex_on (zakharov_v Rops) (zakharov_g Rops) 0.
Proof. exact s_fn_zakharov. Qed.
Print Assumptions C06_fn_zakharov_convex.

Theorem C06_fn_chained_lq_convex :
  declares "fn:chained_lq"%string "yes"%string "no"%string "0.0"%string /\ convex_on (chained_lq_v Rops) (chained_lq_g Rops) 0.
Proof. exact s_fn_chained_lq. Qed.
Print Assumptions C06_fn_chained_lq_convex.

Theorem C06_fn_exponential_convex :
  declares "fn:exponential"%string "yes"%string "yes"%string "2.0/static_cast<scalar_t>(size())"%string /\
  forall x z, length z = length x -> x <> [] ->
    fexp_v z >= fexp_v x + Rdot (fexp_g x) (Rvsub z x) + (2 / INR (length x)) / 2 * Rdot (Rvsub z x) (Rvsub z x).
Proof. exact s_fn_exponential. Qed.
Print Assumptions C06_fn_exponential_convex.

Theorem C06_cons_ball_convex :
  declares "cons:euclidean_ball"%string "yes"%string "yes"%string "2.0"%string /\
  forall origin radius x z, length z = length x -> length origin = length x ->
    cons_ball_v Rops origin radius z =
    cons_ball_v Rops origin radius x + Rdot (cons_ball_g Rops origin x) (Rvsub z x) + 2 / 2 * Rdot (Rvsub z x) (Rvsub z x).
Proof. exact s_cons_ball. Qed.
Print Assumptions C06_cons_ball_convex.

Theorem C06_cons_linear_affine :
  declares "cons:linear"%string "yes"%string "yes"%string "0.0"%string /\
  forall q r, convex_on (cons_linear_v Rops q r) (cons_linear_g q) 0 /\ expands_on (cons_linear_v Rops q r) (cons_linear_g q) 0.
Proof. exact s_cons_linear. Qed.
Print Assumptions C06_cons_linear_affine.

(* ---- objects declared non-convex are not convex (the declaration is accurate, a flip to `yes` would be false) ---- *)
Theorem C06_fn_qing_declared_nonconvex :
  declares "fn:qing"%string "no"%string "yes"%string ""%string /\ not_convex_on (qing_v Rops) (qing_g Rops).
Proof. exact s_fn_qing. Qed.
Print Assumptions C06_fn_qing_declared_nonconvex.

Theorem C06_fn_styblinski_tang_declared_nonconvex :
  declares "fn:styblinski-tang"%string "no"%string "yes"%string ""%string /\ not_convex_on (styblinski_v Rops) (styblinski_g Rops).
Proof. exact s_fn_styblinski. Qed.
Print Assumptions C06_fn_styblinski_tang_declared_nonconvex.

Theorem C06_fn_rosenbrock_declared_nonconvex :
  declares "fn:rosenbrock"%string "no"%string "yes"%string ""%string /\ not_convex_on (rosenbrock_v Rops) (rosenbrock_g Rops).
Proof. exact s_fn_rosenbrock. Qed.
Print Assumptions C06_fn_rosenbrock_declared_nonconvex.

Theorem C06_fn_dixon_price_declared_nonconvex :
  declares "fn:dixon-price"%string "no"%string "yes"%string ""%string /\ not_convex_on (dixon_v Rops) (dixon_g Rops).
Proof. exact s_fn_dixon. Qed.
Print Assumptions C06_fn_dixon_price_declared_nonconvex.

(* chained CB3 I / II (tie rule of /repo 114b02b: `>=`, gradient of an active piece): maximum of three convex pieces per
   adjacent pair, summed along the chain (I); maximum of the three chain sums (II) *)
Theorem C06_fn_chained_cb3I_convex :
  declares "fn:chained_cb3I"%string "yes"%string "no"%string "0.0"%string /\ convex_on cb3I_v cb3I_g 0.
Proof. exact s_fn_cb3I. Qed.
Print Assumptions C06_fn_chained_cb3I_convex.

Theorem C06_fn_chained_cb3II_convex :
  declares "fn:chained_cb3II"%string "yes"%string "no"%string "0.0"%string /\ convex_on cb3II_v cb3II_g 0.
Proof. exact s_fn_cb3II. Qed.
Print Assumptions C06_fn_chained_cb3II_convex.

(* the branch tests of chained_cb3I/II in the SOURCE (translated on every run) are the tests of the model *)
Theorem C06_fn_chained_cb3_tests_as_in_source : forall v1 v2 v3 : Z,
  Src_c06.src_c06_cb3I_test1 v1 v2 v3 = Rgeb (IZR v1) (Rmax (IZR v2) (IZR v3)) /\
  Src_c06.src_c06_cb3I_test2 v1 v2 v3 = Rgeb (IZR v2) (Rmax (IZR v1) (IZR v3)) /\
  Src_c06.src_c06_cb3II_test1 v1 v2 v3 = Rgeb (IZR v1) (Rmax (IZR v2) (IZR v3)) /\
  Src_c06.src_c06_cb3II_test2 v1 v2 v3 = Rgeb (IZR v2) (Rmax (IZR v1) (IZR v3)).
Proof. exact cb3_tests_as_in_source. Qed.
Print Assumptions C06_fn_chained_cb3_tests_as_in_source.

(* documented: the rule BEFORE the fix (strict comparisons, gradient of v3 on the tie v1 = v2 > v3) was not a sub-gradient *)
Theorem C06_fn_chained_cb3I_old_tie_rule_refuted : ~ convex_on cb3I_v cb3I_g_old 0.
Proof. exact s_fn_cb3I_old_rule. Qed.
Print Assumptions C06_fn_chained_cb3I_old_tie_rule_refuted.

(* ---- losses: non-negativity, locality, decision rules ---- *)
Theorem C06_loss_nonneg :
  (forall t o, 0 <= loss_v Rops (k_mse_v Rops) t o) /\ (forall t o, 0 <= loss_v Rops (k_mae_v Rops) t o) /\
  (forall t o, 0 <= loss_v Rops (k_hinge_v Rops) t o) /\ (forall t o, 0 <= loss_v Rops (k_sqhinge_v Rops) t o) /\
  (forall alpha, 0 <= alpha <= 1 -> forall t o, 0 <= loss_v Rops (k_pinball_v Rops alpha) t o) /\
  (forall t o, 0 <= loss_v Rops kr_exponential_v t o) /\ (forall t o, 0 <= loss_v Rops kr_logistic_v t o) /\
  (forall t o, 0 <= loss_v Rops kr_cauchy_v t o) /\ (forall t o, 0 <= loss_v Rops kr_savage_v t o) /\
  (forall t o, 0 <= loss_v Rops kr_tangent_v t o) /\ (forall t o, 0 <= err_absdiff Rops t o).
Proof. exact s_loss_nonneg. Qed.
Print Assumptions C06_loss_nonneg.

(* sample i of a batch: its value is a function of row i of the targets and of the outputs only *)
Theorem C06_loss_local : forall kv ts os ts' os' i,
  nth i ts [] = nth i ts' [] -> nth i os [] = nth i os' [] ->
  (i < length ts)%nat -> (i < length os)%nat -> (i < length ts')%nat -> (i < length os')%nat ->
  nth i (batch_values kv ts os) 0 = nth i (batch_values kv ts' os') 0.
Proof. exact batch_local. Qed.
Print Assumptions C06_loss_local.

(* the index used by the single-label error is the FIRST largest output *)
Theorem C06_argmax_rule : forall o, o <> [] ->
  (argmax Rops o < length o)%nat /\
  (forall j, (j < length o)%nat -> nth j o 0 <= nth (argmax Rops o) o 0) /\
  (forall j, (j < argmax Rops o)%nat -> nth j o 0 < nth (argmax Rops o) o 0).
Proof. exact argmax_spec. Qed.
Print Assumptions C06_argmax_rule.

(* 0-1 errors: multi-label = number of coefficients with target * output < eps; single-label with >= 2 outputs = 0 iff the
   target at the arg-max is positive; single-label with one output = the sign rule *)
Theorem C06_error_decision_rule :
  (forall eps t o, err_count Rops eps t o = length (filter (fun p => Rltb (fst p * snd p) eps) (combine t o))) /\
  (forall eps a b t o, err_sclass Rops eps (a :: b :: t) o = if Rltb 0 (nth (argmax Rops o) (a :: b :: t) 0) then O else 1%nat) /\
  (forall eps a o, err_sclass Rops eps [a] o = err_count Rops eps [a] o).
Proof. exact (conj err_count_spec (conj err_sclass_multi err_sclass_binary)). Qed.
Print Assumptions C06_error_decision_rule.

(* ---- the returned gradient is the derivative of the returned value ---- *)
(* per-coefficient kernels (o |-> value) *)
Theorem C06_loss_kernels_deriv :
  kernel_deriv (k_mse_v Rops) (k_mse_g Rops) /\ kernel_deriv kr_exponential_v kr_exponential_g /\
  kernel_deriv kr_logistic_v kr_logistic_g /\ kernel_deriv kr_cauchy_v kr_cauchy_g /\
  kernel_deriv kr_savage_v kr_savage_g /\ kernel_deriv kr_tangent_v kr_tangent_g.
Proof. exact (conj d_mse (conj d_exponential (conj d_logistic (conj d_cauchy (conj d_savage d_tangent))))). Qed.
Print Assumptions C06_loss_kernels_deriv.

(* a whole sample, along every direction d: d/ds loss(t, o + s d) at s = 0 is gradient . d, for any kernel with a derivative *)
Theorem C06_loss_deriv : forall kv kg, kernel_deriv kv kg ->
  forall t o d, length d = length o ->
  is_derive (fun s => loss_v Rops kv t (Rvadd o (Rvscale s d))) 0 (Rdot (loss_g kg t o) d).
Proof. exact loss_is_derive. Qed.
Print Assumptions C06_loss_deriv.

(* separable benchmark functions along every direction *)
Theorem C06_fn_separable_deriv : forall x d, length d = length x ->
  is_derive (fun s => axis_v Rops (Rvadd x (Rvscale s d))) 0 (Rdot (axis_g Rops x) d) /\
  is_derive (fun s => schumer_v Rops (Rvadd x (Rvscale s d))) 0 (Rdot (schumer_g Rops x) d) /\
  is_derive (fun s => qing_v Rops (Rvadd x (Rvscale s d))) 0 (Rdot (qing_g Rops x) d) /\
  is_derive (fun s => styblinski_v Rops (Rvadd x (Rvscale s d))) 0 (Rdot (styblinski_g Rops x) d).
Proof.
  exact (fun x d H => conj (axis_is_derive x d H) (conj (schumer_is_derive x d H) (conj (qing_is_derive x d H) (styblinski_is_derive x d H)))).
Qed.
Print Assumptions C06_fn_separable_deriv.

(* ---- transfer: the extracted exact-rational instance [Qops] (what the driver compares with the library on the doubles it saw)
        and the real instance [Rops] (what the theorems above are about) are the same functions on rational points ---- *)
Theorem C06_model_transfer :
  (* scalar structure: Q2R is an order embedding of ordered fields *)
  (forall a b, o_ltb Qops a b = o_ltb Rops (Q2R a) (Q2R b)) /\
  (* per-coefficient loss kernels (value, gradient) *)
  (forall t o, Q2R (k_mse_v Qops t o) = k_mse_v Rops (Q2R t) (Q2R o)) /\ (forall t o, Q2R (k_mse_g Qops t o) = k_mse_g Rops (Q2R t) (Q2R o)) /\
  (forall t o, Q2R (k_mae_v Qops t o) = k_mae_v Rops (Q2R t) (Q2R o)) /\ (forall t o, Q2R (k_mae_g Qops t o) = k_mae_g Rops (Q2R t) (Q2R o)) /\
  (forall t o, Q2R (k_hinge_v Qops t o) = k_hinge_v Rops (Q2R t) (Q2R o)) /\ (forall t o, Q2R (k_hinge_g Qops t o) = k_hinge_g Rops (Q2R t) (Q2R o)) /\
  (forall t o, Q2R (k_sqhinge_v Qops t o) = k_sqhinge_v Rops (Q2R t) (Q2R o)) /\ (forall t o, Q2R (k_sqhinge_g Qops t o) = k_sqhinge_g Rops (Q2R t) (Q2R o)) /\
  (forall al t o, Q2R (k_pinball_v Qops al t o) = k_pinball_v Rops (Q2R al) (Q2R t) (Q2R o)) /\
  (forall al t o, Q2R (k_pinball_g Qops al t o) = k_pinball_g Rops (Q2R al) (Q2R t) (Q2R o)) /\
  (* a sample's loss and gradient, for any kernel pair related by Q2R *)
  (forall kq kr, (forall t o, Q2R (kq t o) = kr (Q2R t) (Q2R o)) -> forall t o, Q2R (loss_v Qops kq t o) = loss_v Rops kr (QR t) (QR o)) /\
  (forall kq kr, (forall t o, Q2R (kq t o) = kr (Q2R t) (Q2R o)) -> forall t o, QR (loss_g kq t o) = loss_g kr (QR t) (QR o)) /\
  (* error rules *)
  (forall t o, Q2R (err_absdiff Qops t o) = err_absdiff Rops (QR t) (QR o)) /\
  (forall eps t o, err_count Qops eps t o = err_count Rops (Q2R eps) (QR t) (QR o)) /\
  (forall eps t o, err_sclass Qops eps t o = err_sclass Rops (Q2R eps) (QR t) (QR o)) /\
  (forall o, argmax Qops o = argmax Rops (QR o)) /\
  (* benchmark functions (value, gradient) *)
  (forall x, Q2R (sphere_v Qops x) = sphere_v Rops (QR x)) /\ (forall x, QR (sphere_g Qops x) = sphere_g Rops (QR x)) /\
  (forall x, Q2R (axis_v Qops x) = axis_v Rops (QR x)) /\ (forall x, QR (axis_g Qops x) = axis_g Rops (QR x)) /\
  (forall x, Q2R (schumer_v Qops x) = schumer_v Rops (QR x)) /\ (forall x, QR (schumer_g Qops x) = schumer_g Rops (QR x)) /\
  (forall x, Q2R (chung_v Qops x) = chung_v Rops (QR x)) /\ (forall x, QR (chung_g Qops x) = chung_g Rops (QR x)) /\
  (forall x, Q2R (sargan_v Qops x) = sargan_v Rops (QR x)) /\ (forall x, QR (sargan_g Qops x) = sargan_g Rops (QR x)) /\
  (forall x, Q2R (zakharov_v Qops x) = zakharov_v Rops (QR x)) /\ (forall x, QR (zakharov_g Qops x) = zakharov_g Rops (QR x)) /\
  (forall x, Q2R (qing_v Qops x) = qing_v Rops (QR x)) /\ (forall x, QR (qing_g Qops x) = qing_g Rops (QR x)) /\
  (forall x, Q2R (styblinski_v Qops x) = styblinski_v Rops (QR x)) /\ (forall x, QR (styblinski_g Qops x) = styblinski_g Rops (QR x)) /\
  (forall x, Q2R (trid_v Qops x) = trid_v Rops (QR x)) /\ (forall x, QR (trid_g Qops x) = trid_g Rops (QR x)) /\
  (forall x, Q2R (rosenbrock_v Qops x) = rosenbrock_v Rops (QR x)) /\ (forall x, QR (rosenbrock_g Qops x) = rosenbrock_g Rops (QR x)) /\
  (forall x, Q2R (dixon_v Qops x) = dixon_v Rops (QR x)) /\ (forall x, QR (dixon_g Qops x) = dixon_g Rops (QR x)) /\
  (forall x, Q2R (chained_lq_v Qops x) = chained_lq_v Rops (QR x)) /\ (forall x, QR (chained_lq_g Qops x) = chained_lq_g Rops (QR x)) /\
  (forall x, Q2R (rotated_v Qops x) = rotated_v Rops (QR x)) /\ (forall x, QR (rotated_g Qops x) = rotated_g Rops (QR x)) /\
  (forall x, Q2R (maxq_v Qops x) = maxq_v Rops (QR x)) /\ (forall x, QR (maxq_g Qops x) = maxq_g Rops (QR x)) /\
  (* constraints *)
  (forall o r x, Q2R (cons_ball_v Qops o r x) = cons_ball_v Rops (QR o) (Q2R r) (QR x)) /\
  (forall o x, QR (cons_ball_g Qops o x) = cons_ball_g Rops (QR o) (QR x)) /\
  (forall q r x, Q2R (cons_linear_v Qops q r x) = cons_linear_v Rops (QR q) (Q2R r) (QR x)) /\
  (forall q x, QR (cons_linear_g q x) = cons_linear_g (QR q) (QR x)) /\
  (forall s v d x, Q2R (cons_coord_v Qops s v d x) = cons_coord_v Rops (Q2R s) (Q2R v) d (QR x)) /\
  (forall s d x, QR (cons_coord_g Qops s d x) = cons_coord_g Rops (Q2R s) d (QR x)).
Proof. exact model_transfer. Qed.
Print Assumptions C06_model_transfer.

(* ... so that the theorems over R apply verbatim to the extracted model on rational (= double) points *)
Theorem C06_transfer_applied :
  (forall t o o' : list Q, length o' = length o ->
     Q2R (loss_v Qops (k_mae_v Qops) t o') >=
     Q2R (loss_v Qops (k_mae_v Qops) t o) + Q2R (dot Qops (loss_g (k_mae_g Qops) t o) (vsub Qops o' o))) /\
  (forall x z : list Q, length z = length x ->
     Q2R (sphere_v Qops z) >= Q2R (sphere_v Qops x) + Q2R (dot Qops (sphere_g Qops x) (vsub Qops z x))
                              + 2 / 2 * Q2R (dot Qops (vsub Qops z x) (vsub Qops z x))).
Proof. exact (conj transfer_mae_convex transfer_sphere_convex). Qed.
Print Assumptions C06_transfer_applied.

(* ---- non-vacuity: the hypotheses are satisfiable and the objects are not degenerate ---- *)
Example C06_nonvacuous_sphere :
  length [1; 2] = length [3; 4] /\ sphere_v Rops [3; 4] = 25 /\ Rdot (sphere_g Rops [3; 4]) (Rvsub [1; 2] [3; 4]) = -28 /\ sphere_v Rops [1; 2] = 5.
Proof. repeat split; unfold sphere_v, sphere_g, dot, vsub, vscale; simpl; rops; lra. Qed.

Example C06_nonvacuous_hinge_kink :   (* exactly on the kink 1 - t o = 0 the code returns -t/2, a sub-gradient *)
  k_hinge_v Rops 1 1 = 0 /\ k_hinge_g Rops 1 1 = - / 2 /\ k_hinge_v Rops 1 0 = 1 /\ k_hinge_g Rops 1 0 = -1.
Proof. unfold k_hinge_v, k_hinge_g, pmax, psgn. rops. repeat split; rcases; lra. Qed.

Example C06_nonvacuous_argmax_ties : argmax Rops [1; 3; 3; 2] = 1%nat /\ err_sclass Rops 0 [-1; 1; -1; -1] [1; 3; 3; 2] = O /\
                                     err_sclass Rops 0 [-1; -1; 1; -1] [1; 3; 3; 2] = 1%nat.
Proof.
  assert (A : argmax Rops [1; 3; 3; 2] = 1%nat).
  { unfold argmax. cbn [argmax_from o_ltb Rops]. unfold Rltb.
    repeat match goal with |- context [Rlt_dec ?a ?b] => destruct (Rlt_dec a b); try lra end. reflexivity. }
  repeat split; [exact A | |]; unfold err_sclass, is_pos_target; rewrite A; cbn [nth o_ltb o_zero Rops]; unfold Rltb;
    match goal with |- context [Rlt_dec ?a ?b] => destruct (Rlt_dec a b); try lra end; reflexivity.
Qed.

Example C06_nonvacuous_derivative : is_derive (fun u => kr_logistic_v 1 u) 0 (- / 2).
Proof.
  replace (- / 2) with (kr_logistic_g 1 0); [apply d_logistic|].
  unfold kr_logistic_g. replace (- (1) * 0) with 0 by ring. rewrite exp_0. lra.
Qed.

Example C06_nonvacuous_cb3_tie :   (* on the exact tie v1 = v2 = 25 > v3 at (2,-3) the current rule returns the gradient of v1 *)
  cb3_v1 2 (-3) = 25 /\ cb3_v2 2 (-3) = 25 /\ cb3_pa 0 2 (-3) = 32 /\ cb3_pb 0 2 (-3) = -6.
Proof.
  assert (E : cb3_v3 2 (-3) < 25).
  { unfold cb3_v3. assert (exp (- (2) + -3) < 1) by (rewrite <- exp_0; apply exp_increasing; lra). lra. }
  assert (V1 : cb3_v1 2 (-3) = 25) by (unfold cb3_v1; lra). assert (V2 : cb3_v2 2 (-3) = 25) by (unfold cb3_v2; lra).
  assert (G : Rgeb (cb3_v1 2 (-3)) (Rmax (cb3_v2 2 (-3)) (cb3_v3 2 (-3))) = true).
  { unfold Rgeb, Rltb. destruct (Rlt_dec _ _) as [L|L]; [|reflexivity]. exfalso. rewrite V1, V2, Rmax_left in L; lra. }
  repeat split; auto; unfold cb3_pa, cb3_pb; rewrite G; unfold cb3_p1a, cb3_p1b; lra.
Qed.

Example C06_nonvacuous_transfer :   (* a branchy object on concrete rationals: hinge on and off the kink, arg-max with a tie *)
  Q2R (k_hinge_v Qops 1%Q (1 # 2)%Q) = k_hinge_v Rops 1 (/ 2) /\ (k_hinge_v Qops 1 (1 # 2) == 1 # 2)%Q /\
  argmax Qops [1; 3; 3; 2]%Q = 1%nat /\ argmax Rops (map Q2R [1; 3; 3; 2]%Q) = 1%nat.
Proof.
  split; [|split; [|split]].
  - rewrite h_hinge_v. f_equal; unfold Q2R; simpl; lra.
  - vm_compute. reflexivity.
  - vm_compute. reflexivity.
  - rewrite <- h_argmax. vm_compute. reflexivity.
Qed.

(* ======================================================================================================================== *)
(* extension (C06_Convex2): class-NLL / log-sum-exp, quadratic forms, max-type functions, affine composition and sums         *)
(* ======================================================================================================================== *)
(* class-NLL: log-sum-exp is convex with gradient soft-max; the gradient the code computes (shift by the largest output) IS soft-max - indicator; the ideal value lse - posum satisfies the sub-gradient inequality; the value the code computes (epsilon inside the logarithm) lies in [ideal, ideal + ln(1+eps)] and satisfies the inequality up to the slack ln(1+eps) <= eps *)
Theorem C06_loss_classnll_convex : declares "loss:classnll"%string "yes"%string "yes"%string ""%string /\
  (forall x z, length z = length x -> x <> [] -> lse z >= lse x + Rdot (softmax x) (Rvsub z x))%R /\
  (forall t o, length t = length o -> o <> [] -> classnll_g t o = classnll_ideal_g t o) /\
  (forall t x z, length z = length x -> length t = length x -> x <> [] ->
     classnll_ideal t z >= classnll_ideal t x + Rdot (classnll_g t x) (Rvsub z x))%R /\
  (forall eps t o, 0 <= eps -> o <> [] -> classnll_ideal t o <= classnll_code eps t o <= classnll_ideal t o + ln (1 + eps))%R /\
  (forall eps t x z, 0 <= eps -> length z = length x -> length t = length x -> x <> [] ->
     classnll_code eps t z >= classnll_code eps t x + Rdot (classnll_g t x) (Rvsub z x) - ln (1 + eps))%R /\
  (forall eps, 0 <= eps -> ln (1 + eps) <= eps)%R.
Proof. exact s2_loss_classnll. Qed.
Print Assumptions C06_loss_classnll_convex.

(* the EXACT inequality is false of the code's class-NLL formula (witness at the 1e-33 level): theorem
   C06_loss_classnll_code_exact_inequality_refuted in C06_Convex2_Refuted.v -- a separate file, built on every run by tools/checks/c06.py, so that
   CoqInterval / Flocq stay outside the dependency cone of this file (coqchk of the thorough tier) *)

(* trid: exact second-order expansion (gradient = derivative) with the remainder d'Td, 2 d'Td = d_1^2 + sum (d_{i+1}-d_i)^2 + d_n^2 >= 0 *)
Theorem C06_fn_trid_convex : declares "fn:trid"%string "yes"%string "yes"%string ""%string /\ convex_on (trid_v Rops) (trid_g Rops) 0 /\
  (forall x z, length z = length x ->
     trid_v Rops z = (trid_v Rops x + Rdot (trid_g Rops x) (Rvsub z x) + trid_q (Rvsub z x))%R) /\
  (forall d, (2 * trid_q d)%R = sos_from 0 d).
Proof. exact s2_fn_trid. Qed.
Print Assumptions C06_fn_trid_convex.

(* rotated hyper-ellipsoid |Lx|^2: exact expansion f(z) = f(x) + g(x).(z-x) + f(z-x) *)
Theorem C06_fn_rotated_ellipsoid_convex : declares "fn:rotated-ellipsoid"%string "yes"%string "yes"%string ""%string /\ convex_on (rotated_v Rops) (rotated_g Rops) 0 /\
  (forall x z, length z = length x ->
     rotated_v Rops z = (rotated_v Rops x + Rdot (rotated_g Rops x) (Rvsub z x) + rotated_v Rops (Rvsub z x))%R).
Proof. exact s2_fn_rotated. Qed.
Print Assumptions C06_fn_rotated_ellipsoid_convex.

(* fn:quadratic x.(a + 1/2 A x): exact expansion for symmetric A; mu-strongly convex for every Rayleigh lower bound mu; the constructor's I + B B' is symmetric with Rayleigh quotient >= 1 *)
Theorem C06_fn_quadratic_convex : declares "fn:quadratic"%string "yes"%string "yes"%string "nano::strong_convexity(m_A)"%string /\
  (* any symmetric A: exact expansion, and mu-strong convexity for every lower bound mu of the Rayleigh quotient *)
  (forall a A n x z, length A = n -> length a = n -> length x = n -> length z = n -> sym_form n A ->
     quad_v Rops a A z = (quad_v Rops a A x + Rdot (quad_g Rops a A x) (Rvsub z x) + / 2 * Rdot (Rvsub z x) (Rmv A (Rvsub z x)))%R) /\
  (forall a A n mu, length A = n -> length a = n -> sym_form n A -> rayleigh n A mu ->
     convex_on_n n (quad_v Rops a A) (quad_g Rops a A) mu) /\
  (* the matrix of the constructor, I + B B': symmetric, Rayleigh quotient >= 1 *)
  (forall a B m, rows_len m B -> length a = length B ->
     convex_on_n (length B) (quad_v Rops a (gram1 Rops B)) (quad_g Rops a (gram1 Rops B)) 1).
Proof. exact s2_fn_quadratic. Qed.
Print Assumptions C06_fn_quadratic_convex.

(* quadratic constraint with ANY square P: gradient 1/2 (P+P')x + q is the derivative; mu-strong convexity <=> mu bounds d'Pd/d'd (the symmetric part decides) *)
Theorem C06_cons_quadratic_convex :
  declares "cons:quadratic"%string "nano::convex(constraint.m_P)"%string "yes"%string "nano::strong_convexity(constraint.m_P)"%string /\
  decl "util:convex(P)"%string = Some ("(0.5*(P.matrix()+P.matrix().transpose())).eigenvalues()"%string, ""%string, ""%string) /\
  decl "util:strong_convexity(P)"%string = Some ("(0.5*(P.matrix()+P.matrix().transpose())).eigenvalues()"%string, ""%string, ""%string) /\
  (* ANY square P: the returned 1/2 (P + P') x + q is the derivative (exact expansion) *)
  (forall P q r x z n, length P = n -> rows_len n P -> length q = n -> length x = n -> length z = n ->
     cq_v Rops P q r z = (cq_v Rops P q r x + Rdot (cq_g Rops P q x) (Rvsub z x) + / 2 * Rdot (Rvsub z x) (Rmv P (Rvsub z x)))%R) /\
  (* mu-strongly convex (mu = 0: convex) exactly when mu bounds the Rayleigh quotient d'Pd / d'd from below *)
  (forall P q r n mu, length P = n -> rows_len n P -> length q = n ->
     (rayleigh n P mu <-> convex_on_n n (cq_v Rops P q r) (cq_g Rops P q) mu)).
Proof. exact s2_cons_quadratic. Qed.
Print Assumptions C06_cons_quadratic_convex.

(* constant / minimum / maximum constraints: affine, exact expansion *)
Theorem C06_cons_coordinate_affine : declares "cons:constant"%string "yes"%string "yes"%string "0.0"%string /\
  forall s v dm x z, length z = length x -> (dm < length x)%nat ->
    cons_coord_v Rops s v dm z = (cons_coord_v Rops s v dm x + Rdot (cons_coord_g Rops s dm x) (Rvsub z x))%R.
Proof. exact s2_cons_coord. Qed.
Print Assumptions C06_cons_coordinate_affine.

(* general: pointwise maximum of functions satisfying the sub-gradient inequality, with the gradient of the FIRST largest piece *)
Theorem C06_pointwise_max_convex : forall fs gs, fs <> [] -> length gs = length fs ->
  (forall k, (k < length fs)%nat -> convex_on (nth k fs (fun _ => 0%R)) (nth k gs (fun _ => [])) 0) ->
  convex_on (pmax_v fs) (pmax_g fs gs) 0.
Proof. exact s2_pointwise_max. Qed.
Print Assumptions C06_pointwise_max_convex.

(* maxq = max_i x_i^2 with gradient 2 x_idx e_idx at the first maximiser *)
Theorem C06_fn_maxq_convex : declares "fn:maxq"%string "yes"%string "no"%string "0.0"%string /\ convex_on (maxq_v Rops) (maxq_g Rops) 0.
Proof. exact s2_fn_maxq. Qed.
Print Assumptions C06_fn_maxq_convex.

(* maxhilb = max_i |H_i . x| (any matrix), gradient sign(H_idx . x) H_idx with sign(0) = +1; the denominators i + j + 1 as translated *)
Theorem C06_fn_maxhilb_convex : declares "fn:maxhilb"%string "yes"%string "no"%string "0.0"%string /\ convex_on (maxhilb_v Rops) (maxhilb_g Rops) 0 /\
  (forall A, convex_on (maxabs_v Rops A) (maxabs_g Rops A) 0) /\
  (forall i j : Z, src_c06_maxhilb_den i j = (i + j + 1)%Z).
Proof. exact s2_fn_maxhilb. Qed.
Print Assumptions C06_fn_maxhilb_convex.

(* kinks = sum_i |x - K_i|_1 - offset with gradient sum_i sign(x - K_i) *)
Theorem C06_fn_kinks_convex : declares "fn:kinks"%string "yes"%string "no"%string ""%string /\
  forall K off n, rows_len n K -> convex_on_n n (kinks_v Rops K off) (kinks_g Rops K) 0.
Proof. exact s2_fn_kinks. Qed.
Print Assumptions C06_fn_kinks_convex.

(* maxquad = max_k x.(A_k x - b_k) for symmetric psd A_k, gradient of the first largest piece (strict `>` of the source) *)
Theorem C06_fn_maxquad_convex : declares "fn:maxquad"%string "yes"%string "no"%string "0.0"%string /\
  (forall n pieces, List.Forall (mq_ok n) pieces -> convex_on_n n (maxquad_v Rops pieces) (maxquad_g Rops pieces) 0) /\
  (forall kfx fx : Z, src_c06_maxquad_test kfx fx = o_ltb Rops (IZR fx) (IZR kfx)).
Proof. exact s2_fn_maxquad. Qed.
Print Assumptions C06_fn_maxquad_convex.

(* geometric optimisation sum_i exp(a_i + A_i . x), gradient A' exp(a + A x) *)
Theorem C06_fn_geometric_convex : declares "fn:geometric-optimization"%string "yes"%string "yes"%string ""%string /\
  forall a A n, rows_len n A -> length a = length A -> convex_on_n n (geo_v a A) (geo_g a A) 0.
Proof. exact s2_fn_geometric. Qed.
Print Assumptions C06_fn_geometric_convex.

(* elastic-net objectives: risk through affine maps + alpha1 |x|_1 + alpha2/2 |x|^2 is alpha2-strongly convex (declared m_alpha2) for alpha1 >= 0 and any loss convex in its outputs *)
Theorem C06_fn_elastic_net_convex : declares "fn:enet"%string "tloss::convex"%string "m_alpha1==0.0&&tloss::smooth"%string "m_alpha2"%string /\
  declares "enet-loss:mse"%string "yes"%string "yes"%string ""%string /\ declares "enet-loss:mae"%string "yes"%string "no"%string ""%string /\ declares "enet-loss:hinge"%string "yes"%string "no"%string ""%string /\
  declares "enet-loss:logistic"%string "yes"%string "yes"%string ""%string /\
  forall D L G data a1 a2 n, loss_convex_on D L G -> (0 <= a1)%R ->
    forall x z, length x = n -> length z = n -> List.Forall (sample_ok D n x) data ->
    (enet_v Rops L data a1 a2 z >= enet_v Rops L data a1 a2 x + Rdot (enet_g Rops G data a1 a2 x) (Rvsub z x)
                                  + a2 / 2 * Rdot (Rvsub z x) (Rvsub z x))%R.
Proof. exact s2_fn_enet. Qed.
Print Assumptions C06_fn_elastic_net_convex.

(* linear model objective mean_i L(t_i, W x_i + b) + l1 mean|W| + l2/2 mean W^2: convex in (W, b) for every convex loss; the declared l2/(isize*tsize) holds for pairs that move W only; guards as in the source *)
Theorem C06_ml_linear_convex :
  declares "ml:linear"%string "m_loss.convex()"%string "m_loss.smooth()&&m_l1reg<=0.0"%string "m_l2reg/static_cast<scalar_t>(m_isize*m_tsize)"%string /\
  (* convex in all parameters whenever the loss is convex in its outputs *)
  (forall D L G data l1 l2 cw n, loss_convex_on D L G -> length cw = n -> List.Forall (fun c => 0 <= c)%R cw ->
     forall x z, length x = n -> length z = n -> List.Forall (sample_ok D n x) data ->
     (lin_v Rops L data l1 l2 cw z >= lin_v Rops L data l1 l2 cw x + Rdot (lin_g Rops G data l1 l2 cw x) (Rvsub z x))%R) /\
  (* the declared coefficient l2 / (isize * tsize) is right for pairs that move the weights only *)
  (forall D L G data l1 l2 isize tsize xw zw b, loss_convex_on D L G ->
     length xw = (isize * tsize)%nat -> length zw = (isize * tsize)%nat -> length b = tsize ->
     List.Forall (sample_ok D (isize * tsize + tsize) (xw ++ b)%list) data ->
     let cw := lin_cw Rops isize tsize in let x := (xw ++ b)%list in let z := (zw ++ b)%list in
     (lin_v Rops L data l1 l2 cw z >= lin_v Rops L data l1 l2 cw x + Rdot (lin_g Rops G data l1 l2 cw x) (Rvsub z x)
                                     + (l2 * inv_nat Rops (isize * tsize)) / 2 * Rdot (Rvsub z x) (Rvsub z x))%R) /\
  (* the guards of the source *)
  (forall l : Z, src_c06_linear_l1_guard l = Rltb 0 (IZR l) /\ src_c06_linear_l2_guard l = Rltb 0 (IZR l)) /\
  (* every coefficient-wise loss kernel with the tangent inequality, and the class-NLL, qualify *)
  (forall kv kg, kernel_subgrad kv kg -> loss_convex_on (fun _ _ => True) (loss_v Rops kv) (loss_g kg)) /\
  loss_convex_on (fun t o => length t = length o /\ o <> []) classnll_ideal classnll_ideal_g.
Proof. exact s2_ml_linear. Qed.
Print Assumptions C06_ml_linear_convex.

(* KNOWN FINDING restated: with the declared coefficient the inequality fails for a pair that moves the bias only (mae, l2 = 1) *)
Theorem C06_ml_linear_strong_convexity_in_bias_refuted :
  let L := loss_v Rops (k_mae_v Rops) in let G := loss_g (k_mae_g Rops) in
  let cw := lin_cw Rops 1 1 in let x := [0; 0]%R in let z := [0; 1]%R in
  List.Forall (sample_ok (fun _ _ => True) 2 x) probe_data /\
  (lin_v Rops L probe_data 0 1 cw z <
   lin_v Rops L probe_data 0 1 cw x + Rdot (lin_g Rops G probe_data 0 1 cw x) (Rvsub z x)
   + (1 * inv_nat Rops (1 * 1)) / 2 * Rdot (Rvsub z x) (Rvsub z x))%R.
Proof. exact s2_ml_linear_bias_refuted. Qed.
Print Assumptions C06_ml_linear_strong_convexity_in_bias_refuted.

(* gboost bias / scale objectives: mean_i L(t_i, M_i x + c_i) is convex for every convex loss, gradient mean_i M_i' G *)
Theorem C06_ml_gboost_convex : declares "ml:gboost-bias"%string "loss.convex()"%string "loss.smooth()"%string ""%string /\
  declares "ml:gboost-scale"%string "loss.convex()"%string "loss.smooth()"%string ""%string /\
  forall D L G data n, loss_convex_on D L G -> forall x z, length x = n -> length z = n -> List.Forall (sample_ok D n x) data ->
    (erm_v Rops L data z >= erm_v Rops L data x + Rdot (erm_g Rops G data x) (Rvsub z x))%R.
Proof. exact s2_ml_gboost. Qed.
Print Assumptions C06_ml_gboost_convex.

(* transfer for the extension: the extracted exact-rational instance and the real instance of the new objects agree on rational points *)
Theorem C06_model_transfer_ext :
  (forall A x, QR (mv Qops A x) = mv Rops (QRR A) (QR x)) /\ (forall n A y, QR (mtv Qops n A y) = mtv Rops n (QRR A) (QR y)) /\
  (forall a A x, Q2R (quad_v Qops a A x) = quad_v Rops (QR a) (QRR A) (QR x)) /\ (forall a A x, QR (quad_g Qops a A x) = quad_g Rops (QR a) (QRR A) (QR x)) /\
  (forall P q r x, Q2R (cq_v Qops P q r x) = cq_v Rops (QRR P) (QR q) (Q2R r) (QR x)) /\ (forall P q x, QR (cq_g Qops P q x) = cq_g Rops (QRR P) (QR q) (QR x)) /\
  (forall a1 a2 cw x, Q2R (wreg_v Qops a1 a2 cw x) = wreg_v Rops (Q2R a1) (Q2R a2) (QR cw) (QR x)) /\
  (forall a1 a2 cw x, QR (wreg_g Qops a1 a2 cw x) = wreg_g Rops (Q2R a1) (Q2R a2) (QR cw) (QR x)) /\
  (forall A x, Q2R (maxabs_v Qops A x) = maxabs_v Rops (QRR A) (QR x)) /\ (forall A x, QR (maxabs_g Qops A x) = maxabs_g Rops (QRR A) (QR x)) /\
  (forall K off x, Q2R (kinks_v Qops K off x) = kinks_v Rops (QRR K) (Q2R off) (QR x)) /\ (forall K x, QR (kinks_g Qops K x) = kinks_g Rops (QRR K) (QR x)) /\
  (forall Lq Lr, (forall t o, Q2R (Lq t o) = Lr (QR t) (QR o)) ->
     forall data l1 l2 cw x, Q2R (lin_v Qops Lq data l1 l2 cw x) = lin_v Rops Lr (map QRs data) (Q2R l1) (Q2R l2) (QR cw) (QR x)) /\
  (forall Gq Gr, (forall t o, QR (Gq t o) = Gr (QR t) (QR o)) ->
     forall data l1 l2 cw x, QR (lin_g Qops Gq data l1 l2 cw x) = lin_g Rops Gr (map QRs data) (Q2R l1) (Q2R l2) (QR cw) (QR x)) /\
  (forall Lq Lr, (forall t o, Q2R (Lq t o) = Lr (QR t) (QR o)) ->
     forall data a1 a2 x, Q2R (enet_v Qops Lq data a1 a2 x) = enet_v Rops Lr (map QRs data) (Q2R a1) (Q2R a2) (QR x)) /\
  (forall Gq Gr, (forall t o, QR (Gq t o) = Gr (QR t) (QR o)) ->
     forall data a1 a2 x, QR (enet_g Qops Gq data a1 a2 x) = enet_g Rops Gr (map QRs data) (Q2R a1) (Q2R a2) (QR x)).
Proof. exact model_transfer_ext. Qed.
Print Assumptions C06_model_transfer_ext.

(* ---- non-vacuity of the extension theorems ---- *)
Example C06_nonvacuous_classnll :   (* two outputs, one positive label: hypotheses satisfiable; lse [0;0] = ln 2; machine epsilon is admissible *)
  length [1; 0] = length [0; 0] /\ length [1; -1] = length [0; 0] /\ [0; 0] <> @nil R /\ 0 <= / 4503599627370496 /\ lse [0; 0] = ln 2.
Proof.
  repeat split; try reflexivity; try discriminate; [lra|]. unfold lse, sumexp. cbn [fold_right]. replace (0 - 0) with 0 by ring. rewrite exp_0. f_equal. ring.
Qed.

Example C06_nonvacuous_trid : trid_q [1; 2] = 3 /\ sos_from 0 [1; 2] = 6.
Proof. split; [unfold trid_q, dot, bias2; simpl; rops; lra | simpl; lra]. Qed.

Example C06_nonvacuous_rotated : rotated_v Rops [1; 2] = 10 /\ rotated_g Rops [1; 2] = [8; 6].
Proof. split; [unfold rotated_v; simpl; rops; lra | unfold rotated_g; simpl; rops; repeat f_equal; lra]. Qed.

Example C06_nonvacuous_quadratic :   (* a 2 x 2 factor: shapes satisfiable; the 1 x 1 form [[2]] is symmetric with Rayleigh quotient 2 *)
  rows_len 2 [[1; 0]; [1; 1]] /\ length [0; 0] = length [[1; 0]; [1; 1]] /\ sym_form 1 [[2]] /\ rayleigh 1 [[2]] 2.
Proof.
  split; [repeat constructor|]. split; [reflexivity|]. split.
  - intros [|u [|? ?]] [|v [|? ?]] Hu Hv; try discriminate. unfold mv; simpl; unfold dot; simpl; rops; ring.
  - intros [|u [|? ?]] Hu; try discriminate. unfold mv; simpl; unfold dot; simpl; rops; nra.
Qed.

Example C06_nonvacuous_cons_quadratic :   (* P = [[1,4],[0,1]] (eigenvalues 1, 1) is NOT convex: d = (1,-1) gives d'Pd = -2; the identity has Rayleigh bound 1 *)
  length [[1; 4]; [0; 1]] = 2%nat /\ rows_len 2 [[1; 4]; [0; 1]] /\ ~ rayleigh 2 [[1; 4]; [0; 1]] 0 /\ rayleigh 2 [[1; 0]; [0; 1]] 1.
Proof.
  split; [reflexivity|]. split; [repeat constructor|]. split.
  - intros H. specialize (H [1; -1] eq_refl). unfold mv in H; simpl in H; unfold dot in H; simpl in H; rops; lra.
  - intros [|u [|v [|? ?]]] Hd; try discriminate. unfold mv; simpl; unfold dot; simpl; rops; nra.
Qed.

Example C06_nonvacuous_cons_coordinate : (0 < length [5; 7])%nat /\ cons_coord_v Rops 1 3 0 [5; 7] = 2 /\ cons_coord_v Rops (-1) 3 1 [5; 7] = -4.
Proof. split; [simpl; lia|]. unfold cons_coord_v; simpl; rops; split; lra. Qed.

Example C06_nonvacuous_pointwise_max : exists fs gs, fs <> [] /\ length gs = length fs /\
  (forall k, (k < length fs)%nat -> convex_on (nth k fs (fun _ => 0)) (nth k gs (fun _ => [])) 0) /\ pmax_v fs [1; 2] = 5.
Proof.
  exists [(fun _ => 1); sphere_v Rops], [(fun _ => []); sphere_g Rops].
  split; [discriminate|]. split; [reflexivity|]. split.
  - intros [|[|k]] Hk; [| |simpl in Hk; lia]; cbn [nth].
    + intros x z H. unfold dot; simpl; rops. generalize (dot_self_ge0 (Rvsub z x)). unfold dot. rops. lra.
    + intros x z H. generalize (sphere_convex x z H) (dot_self_ge0 (Rvsub z x)). lra.
  - unfold pmax_v, maxval, argmax, sphere_v, dot. cbn [map nth sum2 argmax_from o_ltb o_add o_mul o_zero Rops].
    rewrite (Rltb_true 1 (1 * 1 + (2 * 2 + 0))) by lra. cbn [nth]. lra.
Qed.

Example C06_nonvacuous_maxq :   (* exact tie |x_0| = |x_1|: the FIRST maximiser's gradient *)
  maxq_v Rops [1; -2] = 4 /\ argmax Rops (map (sq Rops) [2; -2]) = 0%nat /\ argmax Rops (map (sq Rops) [1; -2]) = 1%nat.
Proof.
  unfold maxq_v, argmax, sq. cbn [map argmax_from o_ltb o_mul Rops].
  rewrite (Rltb_true (1 * 1) (-2 * -2)), (Rltb_false (2 * 2) (-2 * -2)) by lra. cbn [nth]. repeat split; lra.
Qed.

Example C06_nonvacuous_maxabs :   (* rows (1,-1) and (1,1) at x = (1,3): |-2| < |4|; at x = (-3, 0): tie 3 = 3, first row, negative sign *)
  maxabs_v Rops [[1; -1]; [1; 1]] [1; 3] = 4 /\ maxabs_g Rops [[1; -1]; [1; 1]] [-3; 0] = [-1 * 1; -1 * -1] /\
  hilbert_entry Rops 1 2 = / 4.
Proof.
  split; [|split].
  - unfold maxabs_v, maxval, argmax, mv, dot, pabs. cbn [map sum2 argmax_from o_ltb o_mul o_add o_opp o_zero Rops]. decide_tests. cbn [nth]. decide_tests. lra.
  - unfold maxabs_g, argmax, mv, dot, pabs, vscale. cbn [map sum2 argmax_from o_ltb o_mul o_add o_opp o_zero o_one Rops]. decide_tests. cbn [nth sum2 o_mul o_add o_zero Rops]. decide_tests. reflexivity.
  - unfold hilbert_entry. cbn. unfold Q2R. cbn. lra.
Qed.

Example C06_nonvacuous_kinks : rows_len 1 [[1]; [2]] /\ kinks_v Rops [[1]; [2]] 1 [1] = 0 /\ kinks_g Rops [[1]; [2]] [1] = [0 + (-1 + 0)].
Proof.
  split; [repeat constructor|]. split.
  - unfold kinks_v, loss_v, k_mae_v, pabs. cbn [map sum2 total fold_right o_sub o_add o_opp o_ltb o_zero Rops]. decide_tests. lra.
  - unfold kinks_g, loss_g, k_mae_g, psgn, vadd, zeros. cbn [length repeat fold_right map2 o_sub o_add o_opp o_ltb o_zero o_one Rops]. decide_tests. reflexivity.
Qed.

Example C06_nonvacuous_maxquad : mq_ok 1 ([[1]], [0]) /\ List.Forall (mq_ok 1) [([[1]], [0]); ([[2]], [1])].
Proof.
  assert (K : forall a b, 0 <= a -> mq_ok 1 ([[a]], [b])).
  { intros a b Ha. repeat split.
    - intros [|u [|? ?]] [|v [|? ?]] Hu Hv; try discriminate. unfold mv; simpl; unfold dot; simpl; rops; ring.
    - intros [|u [|? ?]] Hu; try discriminate. unfold mv; simpl; unfold dot; simpl; rops. generalize (sqr_ge0 u). nra. }
  split; [apply K; lra | constructor; [apply K; lra | constructor; [apply K; lra | constructor]]].
Qed.

Example C06_nonvacuous_geometric : rows_len 1 [[1]; [-1]] /\ length [0; 0] = length [[1]; [-1]] /\ geo_v [0; 0] [[1]; [-1]] [0] = 2.
Proof.
  split; [repeat constructor|]. split; [reflexivity|]. unfold geo_v, mv, dot, vadd. cbn [map map2 sum2 total fold_right o_add o_mul o_zero Rops].
  replace (0 + (1 * 0 + 0)) with 0 by ring. replace (0 + (-1 * 0 + 0)) with 0 by ring. rewrite exp_0. ring.
Qed.

Example C06_nonvacuous_erm :   (* a convex loss exists; the design matrix of the linear model for input u = (3) with 1 target: (3 | 1); a gboost-bias sample: identity *)
  loss_convex_on (fun _ _ => True) (loss_v Rops (k_mae_v Rops)) (loss_g (k_mae_g Rops)) /\
  design Rops 1 1 [3] = [[3; 1]] /\ sample_ok (fun _ _ => True) 2 [0; 0] ([8], design Rops 1 1 [3], [0]) /\
  sample_ok (fun _ _ => True) 1 [0] ([8], identity Rops 1, [0]) /\ List.Forall (fun c => 0 <= c) (lin_cw Rops 1 1) /\ length (lin_cw Rops 1 1) = 2%nat.
Proof.
  split; [apply kernel_loss_convex, k_mae_subgrad|]. split; [reflexivity|]. split; [repeat constructor|]. split; [repeat constructor|].
  split; [|reflexivity]. unfold lin_cw, inv_nat, zeros. cbn. unfold Q2R. cbn. repeat constructor; lra.
Qed.

Example C06_nonvacuous_transfer_ext :   (* a concrete rational instance: the quadratic constraint with the non-symmetric P = [[1,4],[0,1]] at x = (1,-1) *)
  (cq_v Qops [[1; 4]; [0; 1]] [0; 0] 0 [1; -1] == -1)%Q /\ Q2R (cq_v Qops [[1; 4]; [0; 1]] [0; 0] 0 [1; -1])%Q = cq_v Rops (QRR [[1; 4]; [0; 1]]%Q) (QR [0; 0]%Q) (Q2R 0) (QR [1; -1]%Q).
Proof. split; [vm_compute; reflexivity | apply h_cq_v]. Qed.

(* ======================================================================================================================== *)
(* second extension (C06_Rest): Taylor expansions of the polynomial functions, derivatives of the transcendental ones, witnesses   *)
(* for the objects declared non-convex, functional constraints / gboost grads / surrogate objectives, maxquad's constructor matrices *)
(* ======================================================================================================================== *)
(* f(x + s d) = f(x) + s g(x).d + s^2 R2(x,d) + s^3 R3(x,d) + s^4 R4(x,d) for EVERY real s, with the executable coefficient functions of C06_Rest_Defs.v (every monomial of the remainder has degree >= 2 in d) *)
Theorem C06_fn_polynomial_taylor :
  taylor4_on (schumer_v Rops) (schumer_g Rops) (schumer_r2 Rops) (schumer_r3 Rops) (schumer_r4 Rops) /\
  taylor4_on (styblinski_v Rops) (styblinski_g Rops) (styblinski_r2 Rops) (schumer_r3 Rops) (schumer_r4 Rops) /\
  taylor4_on (qing_v Rops) (qing_g Rops) (qing_r2 Rops) (schumer_r3 Rops) (schumer_r4 Rops) /\
  taylor4_on (axis_v Rops) (axis_g Rops) (axis_r2 Rops) (fun _ _ => 0) (fun _ _ => 0) /\
  taylor4_on (chung_v Rops) (chung_g Rops) (chung_r2 Rops) (chung_r3 Rops) (chung_r4 Rops) /\
  taylor4_on (sargan_v Rops) (sargan_g Rops) (sargan_r2 Rops) (sargan_r3 Rops) (sargan_r4 Rops) /\
  taylor4_on (zakharov_v Rops) (zakharov_g Rops) (zakharov_r2 Rops) (zakharov_r3 Rops) (zakharov_r4 Rops) /\
  taylor4_on (rosenbrock_v Rops) (rosenbrock_g Rops) (rosenbrock_r2 Rops) (rosenbrock_r3 Rops) (rosenbrock_r4 Rops) /\
  taylor4_on (dixon_v Rops) (dixon_g Rops) (dixon_r2 Rops) (dixon_r3 Rops) (dixon_r4 Rops) /\
  taylor4_on (powell_v Rops) (powell_g Rops) (powell_r2 Rops) (powell_r3 Rops) (powell_r4 Rops).
Proof. exact s3_polynomial_taylor. Qed.
Print Assumptions C06_fn_polynomial_taylor.

(* what a Taylor expansion along every line gives: the explicit expansion at z = x + d and gradient = derivative in every direction *)
Theorem C06_taylor_gives_expansion_and_derivative : forall f g r2 r3 r4, taylor4_on f g r2 r3 r4 ->
  (forall x z, length z = length x ->
     f z = f x + Rdot (g x) (Rvsub z x) + (r2 x (Rvsub z x) + r3 x (Rvsub z x) + r4 x (Rvsub z x))) /\
  (forall x d, length d = length x -> is_derive (fun s => f (along Rops x s d)) 0 (Rdot (g x) d)).
Proof. exact s3_taylor_consequences. Qed.
Print Assumptions C06_taylor_gives_expansion_and_derivative.

(* exponential, cauchy, geometric optimisation, the pieces of chained CB3 I / II and the three chain sums of CB3 II: gradient = derivative along every direction *)
Theorem C06_fn_transcendental_deriv :
  (forall x d, length d = length x -> x <> [] -> is_derive (fun s => fexp_v (along Rops x s d)) 0 (Rdot (fexp_g x) d)) /\
  (forall x d, length d = length x -> is_derive (fun s => fcauchy_v (along Rops x s d)) 0 (Rdot (fcauchy_g x) d)) /\
  (forall a A x d, length d = length x -> rows_len (length x) A -> length a = length A ->
     is_derive (fun s => geo_v a A (along Rops x s d)) 0 (Rdot (geo_g a A x) d)) /\
  (forall a b ea eb,
     is_derive (fun s => cb3_v1 (a + s * ea) (b + s * eb)) 0 (cb3_p1a 0 a b * ea + cb3_p1b 0 a b * eb) /\
     is_derive (fun s => cb3_v2 (a + s * ea) (b + s * eb)) 0 (cb3_p2a 0 a b * ea + cb3_p2b 0 a b * eb) /\
     is_derive (fun s => cb3_v3 (a + s * ea) (b + s * eb)) 0 (cb3_p3a 0 a b * ea + cb3_p3b 0 a b * eb)) /\
  (forall x d, length d = length x ->
     is_derive (fun s => cb3_s1 (along Rops x s d)) 0 (Rdot (chain_g Rops cb3_p1a cb3_p1b 0 (bias2 Rops x) x) d) /\
     is_derive (fun s => cb3_s2 (along Rops x s d)) 0 (Rdot (chain_g Rops cb3_p2a cb3_p2b 0 (bias2 Rops x) x) d) /\
     is_derive (fun s => cb3_s3 (along Rops x s d)) 0 (Rdot (chain_g Rops cb3_p3a cb3_p3b 0 (bias2 Rops x) x) d)).
Proof. exact s3_transcendental_deriv. Qed.
Print Assumptions C06_fn_transcendental_deriv.

(* powell is DECLARED non-convex but is convex (sum of even powers of linear forms): the declaration is pessimistic, not wrong; the linear forms and gradient combinations of the source (translated) are those of the model *)
Theorem C06_fn_powell_declared_nonconvex_is_convex : declares "fn:powell"%string "no"%string "yes"%string ""%string /\
  convex_on (powell_v Rops) (powell_g Rops) 0 /\
  (forall x0 x1 x2 x3 : Z,
     IZR (src_c06rest_powell_l0 x0 x1 x2 x3) = pw_l0 Rops (IZR x0) (IZR x1) /\
     IZR (src_c06rest_powell_l1 x0 x1 x2 x3) = pw_l1 Rops (IZR x2) (IZR x3) /\
     IZR (src_c06rest_powell_l2 x0 x1 x2 x3) = pw_l2 Rops (IZR x1) (IZR x2) /\
     IZR (src_c06rest_powell_l3 x0 x1 x2 x3) = pw_l3 Rops (IZR x0) (IZR x3) /\
     IZR (src_c06rest_powell_g0 x0 x1 x2 x3) = IZR x0 + IZR x3 /\
     IZR (src_c06rest_powell_g1 x0 x1 x2 x3) = IZR x0 * 10 + IZR x2 /\
     IZR (src_c06rest_powell_g2 x0 x1 x2 x3) = IZR x1 - 2 * IZR x2 /\
     IZR (src_c06rest_powell_g3 x0 x1 x2 x3) = - IZR x1 - IZR x3).
Proof. exact s3_fn_powell. Qed.
Print Assumptions C06_fn_powell_declared_nonconvex_is_convex.

(* fn:cauchy ln(1 + |x|^2): declared non-convex, witness x = 1, z = 7 *)
Theorem C06_fn_cauchy_declared_nonconvex : declares "fn:cauchy"%string "no"%string "yes"%string ""%string /\ not_convex_on fcauchy_v fcauchy_g.
Proof. exact s3_fn_cauchy. Qed.
Print Assumptions C06_fn_cauchy_declared_nonconvex.

(* cauchy / savage / tangent loss kernels and the elastic-net cauchy loss: declared non-convex, one witness each *)
Theorem C06_loss_declared_nonconvex :
  declares "loss:cauchy"%string "no"%string "yes"%string ""%string /\ kernel_not_convex kr_cauchy_v kr_cauchy_g /\
  declares "loss:savage"%string "no"%string "yes"%string ""%string /\ kernel_not_convex kr_savage_v kr_savage_g /\
  declares "loss:tangent"%string "no"%string "yes"%string ""%string /\ kernel_not_convex kr_tangent_v kr_tangent_g /\
  declares "enet-loss:cauchy"%string "no"%string "no"%string ""%string /\ kernel_not_convex kr_ecauchy_v kr_ecauchy_g /\
  (forall t o, kr_ecauchy_v t o = 2 * kr_cauchy_v t o /\ kr_ecauchy_g t o = 2 * kr_cauchy_g t o).
Proof. exact s3_loss_nonconvex. Qed.
Print Assumptions C06_loss_declared_nonconvex.

(* functional constraints forward the wrapped function's flags (translated kernels) and value / gradient: convex whenever the wrapped function satisfies the inequality *)
Theorem C06_cons_functional_convex :
  declares "cons:functional"%string "constraint.m_function->convex()"%string "constraint.m_function->smooth()"%string "constraint.m_function->strong_convexity()"%string /\
  (forall (b : bool) (z : Z), functional_convex b = b /\ functional_smooth b = b /\ functional_strong_convexity z = z) /\
  (forall (fconvex : bool) f g mu, (fconvex = true -> convex_on f g mu) ->
     functional_convex fconvex = true -> convex_on (cons_functional_v f) (cons_functional_g g) mu).
Proof. exact s3_cons_functional. Qed.
Print Assumptions C06_cons_functional_convex.

(* gboost grads_function_t: value = mean of the per-sample losses over the concatenated outputs, gradient = the per-sample gradients / n: a genuine objective, convex for every convex loss *)
Theorem C06_ml_gboost_grads_convex : declares "ml:gboost-grads"%string "loss.convex()"%string "loss.smooth()"%string ""%string /\
  (forall b : bool, grads_convex b = b) /\
  (forall D L G, loss_convex_on D L G -> (forall t o, D t o -> length (G t o) = length o) ->
   forall ts k x z, length x = (length ts * k)%nat -> length z = length x -> gr_ok D ts k x ->
   grads_v Rops L ts k z >= grads_v Rops L ts k x + Rdot (grads_g Rops G ts k x) (Rvsub z x)).
Proof. exact s3_ml_grads. Qed.
Print Assumptions C06_ml_gboost_grads_convex.

(* surrogate FIT objective sum_i L(y_i, phi(p_i).x): convex for every convex loss; the feature rows the constructor fills are admissible samples; its size expression is 1 + n + n(n+1)/2 *)
Theorem C06_ml_surrogate_fit_convex : declares "ml:quadratic-surrogate-fitting-function"%string "loss.convex()"%string "loss.smooth()"%string ""%string /\
  (forall b : bool, surrogate_fit_convex b = b) /\
  (forall D L G data x z n, loss_convex_on D L G -> length x = n -> length z = n -> List.Forall (sample_ok D n x) data ->
     fit_v Rops L data z >= fit_v Rops L data x + Rdot (fit_g Rops G data x) (Rvsub z x)) /\
  (forall ps ys np x, List.Forall (fun p : list R => length p = np) ps ->
     List.Forall (sample_ok (fun _ _ => True) (1 + np + tri np) x) (fit_data Rops ps ys)) /\
  (forall d : Z, (0 <= d)%Z -> src_c06_surrogate_fit_size d = Z.of_nat (1 + Z.to_nat d + tri (Z.to_nat d))).
Proof. exact s3_ml_surrogate_fit. Qed.
Print Assumptions C06_ml_surrogate_fit_convex.

(* the quadratic surrogate m . phi(x), declared non-convex for every model: exact expansion (gradient loops = derivative, remainder = the quadratic part at d, homogeneous of degree 2); not convex for m = (0,0,-1), convex for m = (0,0,1) *)
Theorem C06_ml_surrogate_quadratic : declares "ml:quadratic-surrogate-function"%string "no"%string "yes"%string ""%string /\
  (forall m x z, length z = length x -> length m = (1 + length x + tri (length x))%nat ->
     sur_v Rops m z = sur_v Rops m x + Rdot (sur_g Rops m x) (Rvsub z x) + sur_q Rops m (Rvsub z x)) /\
  (forall s d, quadfeat Rops (Rvscale s d) = Rvscale (s * s) (quadfeat Rops d)) /\
  (exists m x z, length z = length x /\ length m = (1 + length x + tri (length x))%nat /\
     sur_v Rops m z < sur_v Rops m x + Rdot (sur_g Rops m x) (Rvsub z x)) /\
  (forall x z, length x = 1%nat -> length z = 1%nat ->
     sur_v Rops [0; 0; 1] z >= sur_v Rops [0; 0; 1] x + Rdot (sur_g Rops [0; 0; 1] x) (Rvsub z x)) /\
  (forall i : Z, src_c06rest_surrogate_jstart i = i).
Proof. exact s3_ml_surrogate. Qed.
Print Assumptions C06_ml_surrogate_quadratic.

(* maxquad AS CONSTRUCTED: the fill of the source (mirrored off-diagonal entries, diagonal = own non-negative term + sum of |off-diagonal| of the row) gives symmetric positive semi-definite pieces whatever the entries are; hence function_maxquad_t is convex unconditionally *)
Theorem C06_fn_maxquad_constructed_convex : declares "fn:maxquad"%string "yes"%string "no"%string "0.0"%string /\
  (forall e dg n b, (forall i, 0 <= dg i) -> length b = n -> mq_ok n (mqf_matrix Rops e dg n, b)) /\
  (forall n kd, List.Forall (mq_ok n) (mq_pieces n kd)) /\
  (forall n kd, convex_on_n n (maxquad_v Rops (mq_pieces n kd)) (maxquad_g Rops (mq_pieces n kd)) 0) /\
  (forall i j, mq_offdiag i j = negb (Nat.eqb i j) /\ mq_assigned_in_row i j = Nat.ltb i j) /\
  (forall i : Z, src_c06rest_maxquad_si i = (i + 1)%Z /\ src_c06rest_maxquad_sj i = (i + 1)%Z /\
                 src_c06rest_maxquad_sk i = (i + 1)%Z /\ src_c06rest_maxquad_jstart i = (i + 1)%Z).
Proof. exact s3_fn_maxquad_constructed. Qed.
Print Assumptions C06_fn_maxquad_constructed_convex.

(* ---- non-vacuity of the second extension ---- *)
Example C06_nonvacuous_taylor :   (* rosenbrock at x = (1, 2), d = (1, -1): the coefficients are not all zero; f(x + d) = f(x) + g.d + R2 + R3 + R4 = 2501 *)
  length [1; -1] = length [1; 2] /\ rosenbrock_v Rops [1; 2] = 100 /\ Rdot (rosenbrock_g Rops [1; 2]) [1; -1] = -600 /\
  rosenbrock_r2 Rops [1; 2] [1; -1] = 701 /\ rosenbrock_r3 Rops [1; 2] [1; -1] = 600 /\ rosenbrock_r4 Rops [1; 2] [1; -1] = 100 /\
  rosenbrock_v Rops [2; 1] = 901.
Proof.
  repeat split; unfold rosenbrock_v, rosenbrock_g, rosenbrock_r2, rosenbrock_r3, rosenbrock_r4, rosen_phi, rosen_pa, rosen_pb, rosen_c2, rosen_c3, rosen_c4, bias2, dot;
    simpl; unfold ci; rops; rewrite ?Rinv_1; lra.
Qed.

Example C06_nonvacuous_transcendental_deriv :   (* hypotheses satisfiable; the derivative of exp(1 + x^2) at x = 1 along d = 1 is 2 e^2 *)
  length [1] = length [1] /\ [1] <> @nil R /\ Rdot (fexp_g [1]) [1] = 2 * exp 2 /\ rows_len (length [0]) [[1]; [-1]] /\ length [0; 0] = length [[1]; [-1]].
Proof.
  split; [reflexivity|]. split; [discriminate|]. split.
  - unfold fexp_g, fexp_v, dot, vscale; simpl; rops. replace (1 + (1 * 1 + 0) / 1) with 2 by lra. lra.
  - split; [repeat constructor | reflexivity].
Qed.

Example C06_nonvacuous_powell : powell_v Rops [1; 0; 0; 1] = 6 /\ powell_v Rops [3; -1; 0; 1] = 215 /\ Rdot (powell_g Rops [1; 0; 0; 1]) [1; 1; 1; 1] = 22.
Proof.
  split; [|split]; unfold powell_v, powell_g, pw_l0, pw_l1, pw_l2, pw_l3, dot; cbn [sum2 map]; unfold ci; rops; rewrite ?Rinv_1; lra.
Qed.

Example C06_nonvacuous_nonconvex_witnesses :   (* the witness numbers: ln 50 < ln 2 + 6; savage at 0 is 1/4 with slope -1/4; tangent at 0 is 1 with slope -4 *)
  fcauchy_v [7] = ln 50 /\ fcauchy_v [1] = ln 2 /\ fcauchy_g [1] = [1] /\ kr_savage_v 1 0 = / 4 /\ kr_savage_g 1 0 = - / 4 /\
  kr_tangent_v 1 0 = 1 /\ kr_tangent_g 1 0 = -4.
Proof.
  unfold fcauchy_v, fcauchy_g, kr_savage_v, kr_savage_g, kr_tangent_v, kr_tangent_g, dot, vscale; simpl; rops.
  replace (1 * 0) with 0 by ring. replace (- (1) * 0) with 0 by ring. rewrite exp_0, atan_0.
  repeat split; try (f_equal; lra); try lra.
Qed.

Example C06_nonvacuous_functional :   (* a wrapped function that declares convex and is: the sphere; the forwarded flag is true *)
  functional_convex true = true /\ convex_on (cons_functional_v (sphere_v Rops)) (cons_functional_g (sphere_g Rops)) 2.
Proof.
  split; [reflexivity|]. apply (cons_functional_convex true); [|reflexivity]. intros _ x z H. apply sphere_convex, H.
Qed.

Example C06_nonvacuous_grads :   (* two samples with one output each, mae: hypotheses satisfiable, value = mean of the two losses *)
  loss_convex_on (fun t o => length t = length o) (loss_v Rops (k_mae_v Rops)) (loss_g (k_mae_g Rops)) /\
  length [1; 5] = (length [[0]; [2]] * 1)%nat /\ gr_ok (fun t o => length t = length o) [[0]; [2]] 1 [1; 5] /\
  grads_v Rops (loss_v Rops (k_mae_v Rops)) [[0]; [2]] 1 [1; 5] = 2.
Proof.
  split; [intros t o o' _ Hl; apply loss_subgrad; [exact k_mae_subgrad | exact Hl]|]. split; [reflexivity|]. split; [simpl; auto|].
  unfold grads_v, inv_nat, loss_v, k_mae_v, pabs. cbn [gr_sum firstn skipn sum2 length o_add o_sub o_mul o_opp o_ltb o_zero o_ofQ Rops Pos.of_nat Pos.succ].
  unfold Q2R. cbn [Qnum Qden]. decide_tests. lra.
Qed.

Example C06_nonvacuous_surrogate :   (* one parameter: features (1, p, p^2); model (1, 2, 3) at x = 2: 1 + 4 + 12 = 17, gradient 2 + 2*3*2 = 14; sizes match *)
  p2_row Rops [2] = [1; 2; 2 * 2] /\ sur_v Rops [1; 2; 3] [2] = 17 /\ sur_g Rops [1; 2; 3] [2] = [2 + (3 * 2 + 0 + 2 * 3 + 0)] /\
  length [1; 2; 3] = (1 + length [2] + tri (length [2]))%nat /\ sur_q Rops [1; 2; 3] [5] = 75 /\ src_c06_surrogate_fit_size 1 = 3%Z.
Proof.
  repeat split; unfold sur_v, sur_g, sur_q, p2_row, vadd, vscale, zeros; simpl; unfold dot; simpl; rops; try lra.
Qed.

Example C06_nonvacuous_maxquad_constructed :   (* the 2 x 2 fill with off-diagonal entry -3 and own diagonal terms 1, 2: [[1+3, -3], [-3, 2+3]]; the real pieces have non-negative own terms *)
  mqf_matrix Rops (fun _ _ => -3) (fun i => INR (S i)) 2 = [[1 + (- -3 + 0); -3]; [-3; (1 + 1) + (- -3 + 0)]] /\ 0 <= mq_dg 0 2 1 /\
  length (mq_pieces 2 5) = 5%nat.
Proof.
  split; [|split; [apply mq_dg_nonneg | reflexivity]].
  unfold mqf_matrix, mqf_offsum, mqf_entry, mq_offdiag, mq_assigned_in_row, pabs. cbn. decide_tests. reflexivity.
Qed.
