(* C06 -- values, gradients and convexity flags of functions, losses and constraints are truthful.
   Only statements + `exact` + Print Assumptions live here.  Model: C06_Defs (one definition per object over an abstract
   scalar structure; [Rops] = real numbers is what the theorems talk about, [Qops] = exact rationals is extracted and compared
   with the library on every run).  [decl name] is the (convex, smooth, strong-convexity) declaration parsed from the source of
   the working tree on every run (generated/Src_c06_flags.v): every convexity theorem carries the declaration it justifies. *)
From Coq Require Import String.
From Coq Require Import List ZArith QArith Reals Bool Lra.
From LNGen Require Import Src_c06 Src_c06_flags.
From Coquelicot Require Import Coquelicot.
From LN Require Import C06_Defs C06_Proofs C06_Deriv C06_Transfer.
Import ListNotations.
Local Open Scope R_scope.

(* ---- the declarations of the source are the ones the theorems assume (any flipped flag / new object breaks this) ---- *)
Theorem C06_declarations_as_assumed : src_c06_flags = c06_assumed_flags.
Proof. exact flags_as_assumed. Qed.
Print Assumptions C06_declarations_as_assumed.
Theorem C06_loss_mse_convex :
  declares "loss:mse"%string "yes"%string "yes"%string ""%string /\ forall t, convex_on (loss_v Rops (k_mse_v Rops) t) (loss_g (k_mse_g Rops) t) 0.
Proof. exact s_loss_mse. Qed.
Print Assumptions C06_loss_mse_convex.

Theorem C06_loss_mae_convex :
  declares "loss:mae"%string "yes"%string "no"%string ""%string /\ forall t, convex_on (loss_v Rops (k_mae_v Rops) t) (loss_g (k_mae_g Rops) t) 0.
Proof. exact s_loss_mae. Qed.
Print Assumptions C06_loss_mae_convex.

Theorem C06_loss_hinge_convex :
  declares "loss:hinge"%string "yes"%string "no"%string ""%string /\ forall t, convex_on (loss_v Rops (k_hinge_v Rops) t) (loss_g (k_hinge_g Rops) t) 0.
Proof. exact s_loss_hinge. Qed.
Print Assumptions C06_loss_hinge_convex.

Theorem C06_loss_squared_hinge_convex :
  declares "loss:squared-hinge"%string "yes"%string "yes"%string ""%string /\ forall t, convex_on (loss_v Rops (k_sqhinge_v Rops) t) (loss_g (k_sqhinge_g Rops) t) 0.
Proof. exact s_loss_sqhinge. Qed.
Print Assumptions C06_loss_squared_hinge_convex.

Theorem C06_loss_pinball_convex :
  declares "loss:pinball"%string "yes"%string "no"%string ""%string /\ forall alpha, 0 <= alpha <= 1 -> forall t, convex_on (loss_v Rops (k_pinball_v Rops alpha) t) (loss_g (k_pinball_g Rops alpha) t) 0.
Proof. exact s_loss_pinball. Qed.
Print Assumptions C06_loss_pinball_convex.

Theorem C06_loss_exponential_convex :
  declares "loss:exponential"%string "yes"%string "yes"%string ""%string /\ forall t, convex_on (loss_v Rops kr_exponential_v t) (loss_g kr_exponential_g t) 0.
Proof. exact s_loss_exponential. Qed.
Print Assumptions C06_loss_exponential_convex.

Theorem C06_loss_logistic_convex :
  declares "loss:logistic"%string "yes"%string "yes"%string ""%string /\ forall t, convex_on (loss_v Rops kr_logistic_v t) (loss_g kr_logistic_g t) 0.
Proof. exact s_loss_logistic. Qed.
Print Assumptions C06_loss_logistic_convex.

Theorem C06_fn_sphere_convex :
  declares "fn:sphere"%string "yes"%string "yes"%string "2.0"%string /\ convex_on (sphere_v Rops) (sphere_g Rops) 2 /\ expands_on (sphere_v Rops) (sphere_g Rops) 1.
Proof. exact s_fn_sphere. Qed.
Print Assumptions C06_fn_sphere_convex.

Theorem C06_fn_axis_ellipsoid_convex :
  declares "fn:axis-ellipsoid"%string "yes"%string "yes"%string "2.0"%string /\ convex_on (axis_v Rops) (axis_g Rops) 2.
Proof. exact s_fn_axis. Qed.
Print Assumptions C06_fn_axis_ellipsoid_convex.

Theorem C06_fn_schumer_steiglitz_convex :
  declares "fn:schumer-steiglitz"%string "yes"%string "yes"%string ""%string /\ convex_on (schumer_v Rops) (schumer_g Rops) 0.
Proof. exact s_fn_schumer. Qed.
Print Assumptions C06_fn_schumer_steiglitz_convex.

Theorem C06_fn_chung_reynolds_convex :
  declares "fn:chung-reynolds"%string "yes"%string "yes"%string ""%string /\ convex_on (chung_v Rops) (chung_g Rops) 0.
Proof. exact s_fn_chung. Qed.
Print Assumptions C06_fn_chung_reynolds_convex.

Theorem C06_fn_sargan_convex :
  declares "fn:sargan"%string "yes"%string "yes"%string ""%string /\ convex_on (sargan_v Rops) (sargan_g Rops) 0.
Proof. exact s_fn_sargan. Qed.
Print Assumptions C06_fn_sargan_convex.

Theorem C06_fn_zakharov_convex :
  declares "fn:zakharov"%string "yes"%string "yes"%string ""%string /\ convex_on (zakharov_v Rops) (zakharov_g Rops) 0.
Proof. exact s_fn_zakharov. Qed.
Print Assumptions C06_fn_zakharov_convex.

Theorem C06_fn_chained_lq_convex :
  declares "fn:chained_lq"%string "yes"%string "no"%string "0.0"%string /\ convex_on (chained_lq_v Rops) (chained_lq_g Rops) 0.
Proof. exact s_fn_chained_lq. Qed.
Print Assumptions C06_fn_chained_lq_convex.

Theorem C06_fn_exponential_convex :
  declares "fn:exponential"%string "yes"%string "yes"%string "2.0/static_cast<scalar_t>(size())"%string /\
  forall x z, length z = length x -> x <> [] ->
    fexp_v z >= fexp_v x + Rdot (fexp_g x) (Rvsub z x) + (2 / INR (length x)) / 2 * Rdot (Rvsub z x) (Rvsub z x).
Proof. exact s_fn_exponential. Qed.
Print Assumptions C06_fn_exponential_convex.

Theorem C06_cons_ball_convex :
  declares "cons:euclidean_ball"%string "yes"%string "yes"%string "2.0"%string /\
  forall origin radius x z, length z = length x -> length origin = length x ->
    cons_ball_v Rops origin radius z =
    cons_ball_v Rops origin radius x + Rdot (cons_ball_g Rops origin x) (Rvsub z x) + 2 / 2 * Rdot (Rvsub z x) (Rvsub z x).
Proof. exact s_cons_ball. Qed.
Print Assumptions C06_cons_ball_convex.

Theorem C06_cons_linear_affine :
  declares "cons:linear"%string "yes"%string "yes"%string "0.0"%string /\
  forall q r, convex_on (cons_linear_v Rops q r) (cons_linear_g q) 0 /\ expands_on (cons_linear_v Rops q r) (cons_linear_g q) 0.
Proof. exact s_cons_linear. Qed.
Print Assumptions C06_cons_linear_affine.

(* ---- objects declared non-convex are not convex (the declaration is accurate, a flip to `yes` would be false) ---- *)
Theorem C06_fn_qing_declared_nonconvex :
  declares "fn:qing"%string "no"%string "yes"%string ""%string /\ not_convex_on (qing_v Rops) (qing_g Rops).
Proof. exact s_fn_qing. Qed.
Print Assumptions C06_fn_qing_declared_nonconvex.

Theorem C06_fn_styblinski_tang_declared_nonconvex :
  declares "fn:styblinski-tang"%string "no"%string "yes"%string ""%string /\ not_convex_on (styblinski_v Rops) (styblinski_g Rops).
Proof. exact s_fn_styblinski. Qed.
Print Assumptions C06_fn_styblinski_tang_declared_nonconvex.

Theorem C06_fn_rosenbrock_declared_nonconvex :
  declares "fn:rosenbrock"%string "no"%string "yes"%string ""%string /\ not_convex_on (rosenbrock_v Rops) (rosenbrock_g Rops).
Proof. exact s_fn_rosenbrock. Qed.
Print Assumptions C06_fn_rosenbrock_declared_nonconvex.

Theorem C06_fn_dixon_price_declared_nonconvex :
  declares "fn:dixon-price"%string "no"%string "yes"%string ""%string /\ not_convex_on (dixon_v Rops) (dixon_g Rops).
Proof. exact s_fn_dixon. Qed.
Print Assumptions C06_fn_dixon_price_declared_nonconvex.

(* chained CB3 I / II (tie rule of /repo 114b02b: `>=`, gradient of an active piece): maximum of three convex pieces per
   adjacent pair, summed along the chain (I); maximum of the three chain sums (II) *)
Theorem C06_fn_chained_cb3I_convex :
  declares "fn:chained_cb3I"%string "yes"%string "no"%string "0.0"%string /\ convex_on cb3I_v cb3I_g 0.
Proof. exact s_fn_cb3I. Qed.
Print Assumptions C06_fn_chained_cb3I_convex.

Theorem C06_fn_chained_cb3II_convex :
  declares "fn:chained_cb3II"%string "yes"%string "no"%string "0.0"%string /\ convex_on cb3II_v cb3II_g 0.
Proof. exact s_fn_cb3II. Qed.
Print Assumptions C06_fn_chained_cb3II_convex.

(* the branch tests of chained_cb3I/II in the SOURCE (translated on every run) are the tests of the model *)
Theorem C06_fn_chained_cb3_tests_as_in_source : forall v1 v2 v3 : Z,
  Src_c06.src_c06_cb3I_test1 v1 v2 v3 = Rgeb (IZR v1) (Rmax (IZR v2) (IZR v3)) /\
  Src_c06.src_c06_cb3I_test2 v1 v2 v3 = Rgeb (IZR v2) (Rmax (IZR v1) (IZR v3)) /\
  Src_c06.src_c06_cb3II_test1 v1 v2 v3 = Rgeb (IZR v1) (Rmax (IZR v2) (IZR v3)) /\
  Src_c06.src_c06_cb3II_test2 v1 v2 v3 = Rgeb (IZR v2) (Rmax (IZR v1) (IZR v3)).
Proof. exact cb3_tests_as_in_source. Qed.
Print Assumptions C06_fn_chained_cb3_tests_as_in_source.

(* documented: the rule BEFORE the fix (strict comparisons, gradient of v3 on the tie v1 = v2 > v3) was not a sub-gradient *)
Theorem C06_fn_chained_cb3I_old_tie_rule_refuted : ~ convex_on cb3I_v cb3I_g_old 0.
Proof. exact s_fn_cb3I_old_rule. Qed.
Print Assumptions C06_fn_chained_cb3I_old_tie_rule_refuted.

(* ---- losses: non-negativity, locality, decision rules ---- *)
Theorem C06_loss_nonneg :
  (forall t o, 0 <= loss_v Rops (k_mse_v Rops) t o) /\ (forall t o, 0 <= loss_v Rops (k_mae_v Rops) t o) /\
  (forall t o, 0 <= loss_v Rops (k_hinge_v Rops) t o) /\ (forall t o, 0 <= loss_v Rops (k_sqhinge_v Rops) t o) /\
  (forall alpha, 0 <= alpha <= 1 -> forall t o, 0 <= loss_v Rops (k_pinball_v Rops alpha) t o) /\
  (forall t o, 0 <= loss_v Rops kr_exponential_v t o) /\ (forall t o, 0 <= loss_v Rops kr_logistic_v t o) /\
  (forall t o, 0 <= loss_v Rops kr_cauchy_v t o) /\ (forall t o, 0 <= loss_v Rops kr_savage_v t o) /\
  (forall t o, 0 <= loss_v Rops kr_tangent_v t o) /\ (forall t o, 0 <= err_absdiff Rops t o).
Proof. exact s_loss_nonneg. Qed.
Print Assumptions C06_loss_nonneg.

(* sample i of a batch: its value is a function of row i of the targets and of the outputs only *)
Theorem C06_loss_local : forall kv ts os ts' os' i,
  nth i ts [] = nth i ts' [] -> nth i os [] = nth i os' [] ->
  (i < length ts)%nat -> (i < length os)%nat -> (i < length ts')%nat -> (i < length os')%nat ->
  nth i (batch_values kv ts os) 0 = nth i (batch_values kv ts' os') 0.
Proof. exact batch_local. Qed.
Print Assumptions C06_loss_local.

(* the index used by the single-label error is the FIRST largest output *)
Theorem C06_argmax_rule : forall o, o <> [] ->
  (argmax Rops o < length o)%nat /\
  (forall j, (j < length o)%nat -> nth j o 0 <= nth (argmax Rops o) o 0) /\
  (forall j, (j < argmax Rops o)%nat -> nth j o 0 < nth (argmax Rops o) o 0).
Proof. exact argmax_spec. Qed.
Print Assumptions C06_argmax_rule.

(* 0-1 errors: multi-label = number of coefficients with target * output < eps; single-label with >= 2 outputs = 0 iff the
   target at the arg-max is positive; single-label with one output = the sign rule *)
Theorem C06_error_decision_rule :
  (forall eps t o, err_count Rops eps t o = length (filter (fun p => Rltb (fst p * snd p) eps) (combine t o))) /\
  (forall eps a b t o, err_sclass Rops eps (a :: b :: t) o = if Rltb 0 (nth (argmax Rops o) (a :: b :: t) 0) then O else 1%nat) /\
  (forall eps a o, err_sclass Rops eps [a] o = err_count Rops eps [a] o).
Proof. exact (conj err_count_spec (conj err_sclass_multi err_sclass_binary)). Qed.
Print Assumptions C06_error_decision_rule.

(* ---- the returned gradient is the derivative of the returned value ---- *)
(* per-coefficient kernels (o |-> value) *)
Theorem C06_loss_kernels_deriv :
  kernel_deriv (k_mse_v Rops) (k_mse_g Rops) /\ kernel_deriv kr_exponential_v kr_exponential_g /\
  kernel_deriv kr_logistic_v kr_logistic_g /\ kernel_deriv kr_cauchy_v kr_cauchy_g /\
  kernel_deriv kr_savage_v kr_savage_g /\ kernel_deriv kr_tangent_v kr_tangent_g.
Proof. exact (conj d_mse (conj d_exponential (conj d_logistic (conj d_cauchy (conj d_savage d_tangent))))). Qed.
Print Assumptions C06_loss_kernels_deriv.

(* a whole sample, along every direction d: d/ds loss(t, o + s d) at s = 0 is gradient . d, for any kernel with a derivative *)
Theorem C06_loss_deriv : forall kv kg, kernel_deriv kv kg ->
  forall t o d, length d = length o ->
  is_derive (fun s => loss_v Rops kv t (Rvadd o (Rvscale s d))) 0 (Rdot (loss_g kg t o) d).
Proof. exact loss_is_derive. Qed.
Print Assumptions C06_loss_deriv.

(* separable benchmark functions along every direction *)
Theorem C06_fn_separable_deriv : forall x d, length d = length x ->
  is_derive (fun s => axis_v Rops (Rvadd x (Rvscale s d))) 0 (Rdot (axis_g Rops x) d) /\
  is_derive (fun s => schumer_v Rops (Rvadd x (Rvscale s d))) 0 (Rdot (schumer_g Rops x) d) /\
  is_derive (fun s => qing_v Rops (Rvadd x (Rvscale s d))) 0 (Rdot (qing_g Rops x) d) /\
  is_derive (fun s => styblinski_v Rops (Rvadd x (Rvscale s d))) 0 (Rdot (styblinski_g Rops x) d).
Proof.
  exact (fun x d H => conj (axis_is_derive x d H) (conj (schumer_is_derive x d H) (conj (qing_is_derive x d H) (styblinski_is_derive x d H)))).
Qed.
Print Assumptions C06_fn_separable_deriv.

(* ---- transfer: the extracted exact-rational instance [Qops] (what the driver compares with the library on the doubles it saw)
        and the real instance [Rops] (what the theorems above are about) are the same functions on rational points ---- *)
Theorem C06_model_transfer :
  (* scalar structure: Q2R is an order embedding of ordered fields *)
  (forall a b, o_ltb Qops a b = o_ltb Rops (Q2R a) (Q2R b)) /\
  (* per-coefficient loss kernels (value, gradient) *)
  (forall t o, Q2R (k_mse_v Qops t o) = k_mse_v Rops (Q2R t) (Q2R o)) /\ (forall t o, Q2R (k_mse_g Qops t o) = k_mse_g Rops (Q2R t) (Q2R o)) /\
  (forall t o, Q2R (k_mae_v Qops t o) = k_mae_v Rops (Q2R t) (Q2R o)) /\ (forall t o, Q2R (k_mae_g Qops t o) = k_mae_g Rops (Q2R t) (Q2R o)) /\
  (forall t o, Q2R (k_hinge_v Qops t o) = k_hinge_v Rops (Q2R t) (Q2R o)) /\ (forall t o, Q2R (k_hinge_g Qops t o) = k_hinge_g Rops (Q2R t) (Q2R o)) /\
  (forall t o, Q2R (k_sqhinge_v Qops t o) = k_sqhinge_v Rops (Q2R t) (Q2R o)) /\ (forall t o, Q2R (k_sqhinge_g Qops t o) = k_sqhinge_g Rops (Q2R t) (Q2R o)) /\
  (forall al t o, Q2R (k_pinball_v Qops al t o) = k_pinball_v Rops (Q2R al) (Q2R t) (Q2R o)) /\
  (forall al t o, Q2R (k_pinball_g Qops al t o) = k_pinball_g Rops (Q2R al) (Q2R t) (Q2R o)) /\
  (* a sample's loss and gradient, for any kernel pair related by Q2R *)
  (forall kq kr, (forall t o, Q2R (kq t o) = kr (Q2R t) (Q2R o)) -> forall t o, Q2R (loss_v Qops kq t o) = loss_v Rops kr (QR t) (QR o)) /\
  (forall kq kr, (forall t o, Q2R (kq t o) = kr (Q2R t) (Q2R o)) -> forall t o, QR (loss_g kq t o) = loss_g kr (QR t) (QR o)) /\
  (* error rules *)
  (forall t o, Q2R (err_absdiff Qops t o) = err_absdiff Rops (QR t) (QR o)) /\
  (forall eps t o, err_count Qops eps t o = err_count Rops (Q2R eps) (QR t) (QR o)) /\
  (forall eps t o, err_sclass Qops eps t o = err_sclass Rops (Q2R eps) (QR t) (QR o)) /\
  (forall o, argmax Qops o = argmax Rops (QR o)) /\
  (* benchmark functions (value, gradient) *)
  (forall x, Q2R (sphere_v Qops x) = sphere_v Rops (QR x)) /\ (forall x, QR (sphere_g Qops x) = sphere_g Rops (QR x)) /\
  (forall x, Q2R (axis_v Qops x) = axis_v Rops (QR x)) /\ (forall x, QR (axis_g Qops x) = axis_g Rops (QR x)) /\
  (forall x, Q2R (schumer_v Qops x) = schumer_v Rops (QR x)) /\ (forall x, QR (schumer_g Qops x) = schumer_g Rops (QR x)) /\
  (forall x, Q2R (chung_v Qops x) = chung_v Rops (QR x)) /\ (forall x, QR (chung_g Qops x) = chung_g Rops (QR x)) /\
  (forall x, Q2R (sargan_v Qops x) = sargan_v Rops (QR x)) /\ (forall x, QR (sargan_g Qops x) = sargan_g Rops (QR x)) /\
  (forall x, Q2R (zakharov_v Qops x) = zakharov_v Rops (QR x)) /\ (forall x, QR (zakharov_g Qops x) = zakharov_g Rops (QR x)) /\
  (forall x, Q2R (qing_v Qops x) = qing_v Rops (QR x)) /\ (forall x, QR (qing_g Qops x) = qing_g Rops (QR x)) /\
  (forall x, Q2R (styblinski_v Qops x) = styblinski_v Rops (QR x)) /\ (forall x, QR (styblinski_g Qops x) = styblinski_g Rops (QR x)) /\
  (forall x, Q2R (trid_v Qops x) = trid_v Rops (QR x)) /\ (forall x, QR (trid_g Qops x) = trid_g Rops (QR x)) /\
  (forall x, Q2R (rosenbrock_v Qops x) = rosenbrock_v Rops (QR x)) /\ (forall x, QR (rosenbrock_g Qops x) = rosenbrock_g Rops (QR x)) /\
  (forall x, Q2R (dixon_v Qops x) = dixon_v Rops (QR x)) /\ (forall x, QR (dixon_g Qops x) = dixon_g Rops (QR x)) /\
  (forall x, Q2R (chained_lq_v Qops x) = chained_lq_v Rops (QR x)) /\ (forall x, QR (chained_lq_g Qops x) = chained_lq_g Rops (QR x)) /\
  (forall x, Q2R (rotated_v Qops x) = rotated_v Rops (QR x)) /\ (forall x, QR (rotated_g Qops x) = rotated_g Rops (QR x)) /\
  (forall x, Q2R (maxq_v Qops x) = maxq_v Rops (QR x)) /\ (forall x, QR (maxq_g Qops x) = maxq_g Rops (QR x)) /\
  (* constraints *)
  (forall o r x, Q2R (cons_ball_v Qops o r x) = cons_ball_v Rops (QR o) (Q2R r) (QR x)) /\
  (forall o x, QR (cons_ball_g Qops o x) = cons_ball_g Rops (QR o) (QR x)) /\
  (forall q r x, Q2R (cons_linear_v Qops q r x) = cons_linear_v Rops (QR q) (Q2R r) (QR x)) /\
  (forall q x, QR (cons_linear_g q x) = cons_linear_g (QR q) (QR x)) /\
  (forall s v d x, Q2R (cons_coord_v Qops s v d x) = cons_coord_v Rops (Q2R s) (Q2R v) d (QR x)) /\
  (forall s d x, QR (cons_coord_g Qops s d x) = cons_coord_g Rops (Q2R s) d (QR x)).
Proof. exact model_transfer. Qed.
Print Assumptions C06_model_transfer.

(* ... so that the theorems over R apply verbatim to the extracted model on rational (= double) points *)
Theorem C06_transfer_applied :
  (forall t o o' : list Q, length o' = length o ->
     Q2R (loss_v Qops (k_mae_v Qops) t o') >=
     Q2R (loss_v Qops (k_mae_v Qops) t o) + Q2R (dot Qops (loss_g (k_mae_g Qops) t o) (vsub Qops o' o))) /\
  (forall x z : list Q, length z = length x ->
     Q2R (sphere_v Qops z) >= Q2R (sphere_v Qops x) + Q2R (dot Qops (sphere_g Qops x) (vsub Qops z x))
                              + 2 / 2 * Q2R (dot Qops (vsub Qops z x) (vsub Qops z x))).
Proof. exact (conj transfer_mae_convex transfer_sphere_convex). Qed.
Print Assumptions C06_transfer_applied.

(* ---- non-vacuity: the hypotheses are satisfiable and the objects are not degenerate ---- *)
Example C06_nonvacuous_sphere :
  length [1; 2] = length [3; 4] /\ sphere_v Rops [3; 4] = 25 /\ Rdot (sphere_g Rops [3; 4]) (Rvsub [1; 2] [3; 4]) = -28 /\ sphere_v Rops [1; 2] = 5.
Proof. repeat split; unfold sphere_v, sphere_g, dot, vsub, vscale; simpl; rops; lra. Qed.

Example C06_nonvacuous_hinge_kink :   (* exactly on the kink 1 - t o = 0 the code returns -t/2, a sub-gradient *)
  k_hinge_v Rops 1 1 = 0 /\ k_hinge_g Rops 1 1 = - / 2 /\ k_hinge_v Rops 1 0 = 1 /\ k_hinge_g Rops 1 0 = -1.
Proof. unfold k_hinge_v, k_hinge_g, pmax, psgn. rops. repeat split; rcases; lra. Qed.

Example C06_nonvacuous_argmax_ties : argmax Rops [1; 3; 3; 2] = 1%nat /\ err_sclass Rops 0 [-1; 1; -1; -1] [1; 3; 3; 2] = O /\
                                     err_sclass Rops 0 [-1; -1; 1; -1] [1; 3; 3; 2] = 1%nat.
Proof.
  assert (A : argmax Rops [1; 3; 3; 2] = 1%nat).
  { unfold argmax. cbn [argmax_from o_ltb Rops]. unfold Rltb.
    repeat match goal with |- context [Rlt_dec ?a ?b] => destruct (Rlt_dec a b); try lra end. reflexivity. }
  repeat split; [exact A | |]; unfold err_sclass, is_pos_target; rewrite A; cbn [nth o_ltb o_zero Rops]; unfold Rltb;
    match goal with |- context [Rlt_dec ?a ?b] => destruct (Rlt_dec a b); try lra end; reflexivity.
Qed.

Example C06_nonvacuous_derivative : is_derive (fun u => kr_logistic_v 1 u) 0 (- / 2).
Proof.
  replace (- / 2) with (kr_logistic_g 1 0); [apply d_logistic|].
  unfold kr_logistic_g. replace (- (1) * 0) with 0 by ring. rewrite exp_0. lra.
Qed.

Example C06_nonvacuous_cb3_tie :   (* on the exact tie v1 = v2 = 25 > v3 at (2,-3) the current rule returns the gradient of v1 *)
  cb3_v1 2 (-3) = 25 /\ cb3_v2 2 (-3) = 25 /\ cb3_pa 0 2 (-3) = 32 /\ cb3_pb 0 2 (-3) = -6.
Proof.
  assert (E : cb3_v3 2 (-3) < 25).
  { unfold cb3_v3. assert (exp (- (2) + -3) < 1) by (rewrite <- exp_0; apply exp_increasing; lra). lra. }
  assert (V1 : cb3_v1 2 (-3) = 25) by (unfold cb3_v1; lra). assert (V2 : cb3_v2 2 (-3) = 25) by (unfold cb3_v2; lra).
  assert (G : Rgeb (cb3_v1 2 (-3)) (Rmax (cb3_v2 2 (-3)) (cb3_v3 2 (-3))) = true).
  { unfold Rgeb, Rltb. destruct (Rlt_dec _ _) as [L|L]; [|reflexivity]. exfalso. rewrite V1, V2, Rmax_left in L; lra. }
  repeat split; auto; unfold cb3_pa, cb3_pb; rewrite G; unfold cb3_p1a, cb3_p1b; lra.
Qed.

Example C06_nonvacuous_transfer :   (* a branchy object on concrete rationals: hinge on and off the kink, arg-max with a tie *)
  Q2R (k_hinge_v Qops 1%Q (1 # 2)%Q) = k_hinge_v Rops 1 (/ 2) /\ (k_hinge_v Qops 1 (1 # 2) == 1 # 2)%Q /\
  argmax Qops [1; 3; 3; 2]%Q = 1%nat /\ argmax Rops (map Q2R [1; 3; 3; 2]%Q) = 1%nat.
Proof.
  split; [|split; [|split]].
  - rewrite h_hinge_v. f_equal; unfold Q2R; simpl; lra.
  - vm_compute. reflexivity.
  - vm_compute. reflexivity.
  - rewrite <- h_argmax. vm_compute. reflexivity.
Qed.
