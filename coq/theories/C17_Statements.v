(* C17 -- the property statements over every reachable state of the protocol model. *)
From Coq Require Import List Arith Bool Lia ZArith.
From LNGen Require Import Src_parallel.
From LN Require Import C17_Defs C17_Proofs.
Import ListNotations.

Section Statements.
  Variables (n : nat) (thr : tid -> bool) (progs : list (list call)).
  Hypothesis Hwf : wf_config n progs = true.
  Notation reach := (reachable n thr progs).

  (* executions (pops by workers + fast-path executions) never repeat a task *)
  Lemma s_at_most_once p : reach p -> NoDup (map fst (ran p) ++ map fst (inline p)).
  Proof.
    intros Hr. pose proof (i_t p (reachable_inv n thr progs p Hwf Hr)) as IT.
    apply (proj2 (nodup_cnt _)). intros t. pose proof (t_cnt p IT t) as Hc. unfold alltasks in Hc.
    rewrite !cnt_app in Hc. rewrite cnt_app. lia.
  Qed.

  Definition executed_once (p : pool) (t : tid) : Prop :=
    In t (finished p) /\ count_occ Nat.eq_dec (map fst (ran p) ++ map fst (inline p)) t = 1.

  Lemma finished_once p t : reach p -> In t (finished p) -> executed_once p t.
  Proof.
    intros Hr Hf. split; [exact Hf|]. pose proof (i_t p (reachable_inv n thr progs p Hwf Hr)) as IT.
    pose proof (proj1 (nodup_cnt _) (s_at_most_once p Hr) t) as Hnd. unfold cnt in Hnd.
    assert (In t (map fst (ran p) ++ map fst (inline p))).
    { apply in_or_app. exact (t_fin p IT t Hf). }
    apply (count_occ_In Nat.eq_dec) in H. lia.
  Qed.

  (* when map() has returned through the pool, every task of the call was executed exactly once and has
     finished; the exception that left map() is that of the first throwing task in submission order when
     raise was requested, none otherwise *)
  Lemma s_map_returns p s r :
    reach p -> s < ns p -> In r (results (subs p s)) -> r_inline r = false ->
    Forall (executed_once p) (r_tasks r) /\
    r_exn r = (if r_raise r then find (throws p) (r_tasks r) else None).
  Proof.
    intros Hr Hs Hin Hnl. pose proof (i_s p (reachable_inv n thr progs p Hwf Hr) s Hs) as [_ Hres].
    rewrite Forall_forall in Hres. specialize (Hres r Hin). unfold res_ok in Hres. rewrite Hnl in Hres.
    destruct Hres as [H1 H2]. split; [|exact H2].
    eapply Forall_mono; [|exact H1]. intros t Ht. apply finished_once; assumption.
  Qed.

  (* the fast path (caller thread): the first throwing task aborts the loop, otherwise all ran once *)
  Lemma s_map_inline_returns p s r :
    reach p -> s < ns p -> In r (results (subs p s)) -> r_inline r = true ->
    r_exn r = find (throws p) (r_tasks r) /\
    (r_exn r = None -> Forall (executed_once p) (r_tasks r)).
  Proof.
    intros Hr Hs Hin Hnl. pose proof (i_s p (reachable_inv n thr progs p Hwf Hr) s Hs) as [_ Hres].
    rewrite Forall_forall in Hres. specialize (Hres r Hin). unfold res_ok in Hres. rewrite Hnl in Hres.
    destruct Hres as [H1 H2]. split; [exact H1|]. intros Hn.
    eapply Forall_mono; [|exact (H2 Hn)]. intros t Ht. apply finished_once; assumption.
  Qed.

  (* the worker id handed to a task is below the pool size; a worker runs one task at a time and a task
     never runs on two workers *)
  Lemma s_worker_id p :
    reach p ->
    (forall t w, In (t, w) (ran p) -> w < nw p) /\
    (forall w w' t, workers p w = WRunning t -> workers p w' = WRunning t -> w = w') /\
    (forall w t, workers p w = WRunning t -> In (t, w) (ran p) /\ ~ In t (finished p)).
  Proof.
    intros Hr. pose proof (i_t p (reachable_inv n thr progs p Hwf Hr)) as IT. split; [|split].
    - intros t w Hin. exact (proj1 (t_ran p IT t w Hin)).
    - intros w w' t H1 H2. destruct (Nat.eq_dec w w') as [E|E]; [exact E|exfalso].
      pose proof (proj1 (t_run p IT w t H1)) as I1. pose proof (proj1 (t_run p IT w' t H2)) as I2.
      pose proof (cnt_map_fst_two (ran p) t w w' I1 I2 E) as Hc.
      pose proof (t_cnt p IT t) as Hle. unfold alltasks in Hle. rewrite !cnt_app in Hle. lia.
    - intros w t Hw. exact (t_run p IT w t Hw).
  Qed.

  Lemma s_no_lost_wakeup p : reach p -> InvW p.
  Proof. intros Hr. exact (i_w p (reachable_inv n thr progs p Hwf Hr)). Qed.

  Lemma s_deadlock_free p : reach p -> final p = false -> exists e q, step p e = Some q.
  Proof. intros Hr. exact (deadlock_free n thr progs p Hwf Hr). Qed.

  Lemma reachable_invJ p : reach p -> InvJ p.
  Proof.
    intros Hr. pose proof Hr as [es He]. revert Hr. pattern p. apply (reachable_ind_step n thr progs); [| |exists es; exact He].
    - unfold InvJ, init; simp_fields. discriminate.
    - intros p0 e q Hr0 IH Hs _. eapply invJ_step; [exact (i_b p0 (reachable_inv n thr progs p0 Hwf Hr0)) | | exact Hs].
      apply IH. exact Hr0.
  Qed.

  (* once the destructor has returned (stop was requested and nobody is inside ~pool_t any more), every
     worker has left its loop; queued tasks were dropped, never executed *)
  Lemma s_shutdown p :
    reach p -> stop p = true -> final p = true -> forall w, w < nw p -> workers p w = WExited.
  Proof.
    intros Hr Hs Hf. apply (reachable_invJ p Hr Hs). intros s Hlt.
    unfold final in Hf. rewrite forallb_forall in Hf. specialize (Hf s ltac:(apply in_seq; lia)).
    unfold sub_done in Hf. destruct (stg (subs p s)); try discriminate. split; congruence.
  Qed.

  Lemma s_dropped_never_ran p t : reach p -> In t (dropped p) -> ~ In t (map fst (ran p)) /\ ~ In t (finished p).
  Proof.
    intros Hr Hd. pose proof (i_t p (reachable_inv n thr progs p Hwf Hr)) as IT.
    pose proof (t_cnt p IT t) as Hc. unfold alltasks in Hc. rewrite !cnt_app in Hc.
    apply cnt_in in Hd. split.
    - intros Hin. apply cnt_in in Hin. lia.
    - intros Hin. destruct (t_fin p IT t Hin) as [Hx|Hx]; apply cnt_in in Hx; lia.
  Qed.
End Statements.

(* ---- chunks of map(elements, chunksize, op) tile [0, elements) ---------------------------------- *)
Local Open Scope Z_scope.

Fixpoint tiles (from to size : Z) (l : list (Z * Z)) : Prop :=
  match l with
  | [] => from = to
  | (b, e) :: r => b = from /\ from < e /\ e <= to /\ e - b <= size /\ tiles e to size r
  end.

Lemma chunks_from_done fuel begin elements chunksize :
  elements <= begin -> chunks_from fuel begin elements chunksize = [].
Proof.
  intros H. destruct fuel; cbn [chunks_from]; [reflexivity|]. unfold src_chunk_continue.
  destruct (Z.ltb_spec begin elements); [lia | reflexivity].
Qed.

Lemma chunks_from_tiles fuel : forall begin elements chunksize,
  1 <= chunksize -> 0 <= begin <= elements -> elements - begin <= Z.of_nat fuel ->
  tiles begin elements chunksize (chunks_from fuel begin elements chunksize).
Proof.
  induction fuel as [|f IH]; intros b el cs Hcs Hb Hf; cbn [chunks_from].
  - cbn [tiles]. lia.
  - unfold src_chunk_continue, src_chunk_end, src_chunk_next.
    destruct (Z.ltb_spec b el) as [Hlt|Hge]; cbn [tiles]; [|lia].
    split; [reflexivity|]. split; [lia|]. split; [lia|]. split; [lia|].
    destruct (Z.le_ge_cases (b + cs) el) as [Hle|Hgt].
    + rewrite Z.min_l by lia. apply IH; lia.
    + rewrite Z.min_r by lia. rewrite chunks_from_done by lia. cbn [tiles]. reflexivity.
Qed.

(* the chunks handed to the pool tile [0, elements): consecutive, non-empty, at most chunksize long *)
Lemma s_chunks_tile elements chunksize :
  1 <= chunksize -> 0 <= elements -> tiles 0 elements chunksize (chunks elements chunksize).
Proof.
  intros Hc He. unfold chunks, src_chunk_begin. apply chunks_from_tiles; lia.
Qed.

(* the fast path visits exactly the same chunks *)
Lemma chunks_inline_same fuel : forall begin elements chunksize,
  chunks_inline_from fuel begin elements chunksize = chunks_from fuel begin elements chunksize.
Proof.
  induction fuel as [|f IH]; intros b el cs; cbn [chunks_inline_from chunks_from]; [reflexivity|].
  unfold src_chunk_inline_continue, src_chunk_continue, src_chunk_inline_end, src_chunk_end,
    src_chunk_inline_next, src_chunk_next. rewrite IH. reflexivity.
Qed.

Lemma s_chunks_inline_same elements chunksize : chunks_inline elements chunksize = chunks elements chunksize.
Proof. unfold chunks_inline, chunks, src_chunk_begin. apply chunks_inline_same. Qed.

(* tiling in terms of elements: every index of [0, elements) lies in exactly one chunk *)
Lemma tiles_cover from to size l i :
  tiles from to size l -> from <= i < to -> exists b e, In (b, e) l /\ b <= i < e.
Proof.
  revert from. induction l as [|[b e] r IH]; intros from Ht Hi; cbn [tiles] in Ht; [lia|].
  destruct Ht as [-> [H1 [H2 [H3 Hr]]]]. destruct (Z.lt_ge_cases i e) as [Hlt|Hge].
  - exists from, e. split; [left; reflexivity | lia].
  - destruct (IH e Hr ltac:(lia)) as [b' [e' [Hin Hb']]]. exists b', e'. split; [right; exact Hin | exact Hb'].
Qed.

Lemma tiles_disjoint from to size l :
  tiles from to size l ->
  forall b1 e1 b2 e2 i, In (b1, e1) l -> In (b2, e2) l -> b1 <= i < e1 -> b2 <= i < e2 -> (b1, e1) = (b2, e2).
Proof.
  revert from. induction l as [|[b e] r IH]; intros from Ht b1 e1 b2 e2 i I1 I2 H1 H2; [contradiction|].
  cbn [tiles] in Ht. destruct Ht as [-> [Ha [Hb [Hc Hr]]]].
  assert (Hlow : forall b' e', In (b', e') r -> e <= b').
  { clear -Hr. revert e Hr. induction r as [|[b0 e0] r IHr]; intros e Hr b' e' Hin; [contradiction|].
    cbn [tiles] in Hr. destruct Hr as [-> [Ha [Hb [Hc Hr]]]]. destruct Hin as [Hin|Hin].
    - injection Hin as <- <-. lia.
    - specialize (IHr e0 Hr b' e' Hin). lia. }
  destruct I1 as [I1|I1], I2 as [I2|I2].
  - congruence.
  - injection I1 as <- <-. specialize (Hlow b2 e2 I2). lia.
  - injection I2 as <- <-. specialize (Hlow b1 e1 I1). lia.
  - exact (IH e Hr b1 e1 b2 e2 i I1 I2 H1 H2).
Qed.

(* the chunked overload takes the fast path exactly when the indexed test, applied to the number of chunks,
   would: size() == 1 || chunksize >= elements  <->  size() == 1 || #chunks <= 1 *)
Lemma chunks_from_length fuel : forall begin elements chunksize,
  1 <= chunksize -> 0 <= begin -> elements - begin <= Z.of_nat fuel ->
  (Z.of_nat (length (chunks_from fuel begin elements chunksize)) <= 1 <-> elements <= begin + chunksize).
Proof.
  induction fuel as [|f IH]; intros b el cs Hcs Hb Hf; cbn [chunks_from].
  - cbn [length]. lia.
  - unfold src_chunk_continue, src_chunk_next. destruct (Z.ltb_spec b el) as [Hlt|Hge]; [|cbn [length]; lia].
    cbn [length]. destruct (Z.le_gt_cases el (b + cs)) as [Hle|Hgt].
    + rewrite chunks_from_done by lia. cbn [length]. lia.
    + destruct f as [|f']; [lia|].
      cbn [chunks_from]. unfold src_chunk_continue. destruct (Z.ltb_spec (b + cs) el); [|lia]. cbn [length]. lia.
Qed.

Lemma s_chunked_inline_consistent size elements chunksize :
  1 <= chunksize -> 0 <= elements ->
  chunked_inline size elements chunksize = indexed_inline size (Z.of_nat (length (chunks elements chunksize))).
Proof.
  intros Hc He. unfold chunked_inline, indexed_inline, src_chunked_inline, src_indexed_inline.
  destruct (Z.eqb size 1); [reflexivity|]. cbn [orb].
  pose proof (chunks_from_length (Z.to_nat elements) src_chunk_begin elements chunksize Hc) as H.
  unfold src_chunk_begin in *. specialize (H ltac:(lia) ltac:(lia)). fold (chunks elements chunksize) in H.
  unfold chunks, src_chunk_begin in *.
  destruct (Z.geb_spec chunksize elements), (Z.leb_spec (Z.of_nat (length (chunks_from (Z.to_nat elements) 0 elements chunksize))) 1); try reflexivity; lia.
Qed.
