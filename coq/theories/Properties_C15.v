(* C15 -- Serialization round-trips; truncated / corrupted streams are rejected.
   Only statements + `exact` + Print Assumptions live here. Model: C15_Defs (a combinator language of wire formats with a
   generic reader/writer; the decisions and arithmetic of the readers are imported from the kernels translated from
   core/hash.h, tensor/stream.h, tensor/dims.h, configurable.cpp, parameter.cpp on every run). *)
From Coq Require Import List ZArith NArith Bool.
From Coq Require String.
From LNGen Require Import Src_stream Src_c15_fields.
From LN Require Import C15_Defs C15_Proofs C15_Statements C15_Dest_Defs C15_Dest C15_Fields_Defs C15_Fields.
Import ListNotations.
Local Open Scope N_scope.

(* ---- generic: for EVERY format built from the combinators (hence every wire format of the library below) ------- *)
(* reading back what was written yields the same value and leaves the rest of the stream untouched *)
Theorem C15_codec_roundtrip : forall f v rest, wt f v -> dec f (enc f v ++ rest) = Some (v, rest).
Proof. exact codec_roundtrip. Qed.
Print Assumptions C15_codec_roundtrip.

(* every strict prefix of a written stream is rejected *)
Theorem C15_codec_prefix_rejected : forall f v p,
  wt f v -> (exists q, q <> [] /\ enc f v = p ++ q) -> dec f p = None.
Proof. exact codec_prefix_rejected. Qed.
Print Assumptions C15_codec_prefix_rejected.

(* whatever the reader accepts is byte for byte the encoding of what it returns (no second spelling of a value) *)
Theorem C15_codec_accept_exact : forall f bs v r,
  Forall (fun b => b < 256) bs -> dec f bs = Some (v, r) -> bs = enc f v ++ r.
Proof. exact codec_accept_exact. Qed.
Print Assumptions C15_codec_accept_exact.

(* the wire formats of the library are such formats: parameter, configurable, feature, learner, linear model,
   weak learners, gradient boosting model, factory objects -- round trip and prefix rejection for all of them *)
Theorem C15_formats_sound : forall (e : env) (wl : list (bytes * N)) (ids : list bytes) (s : tspec) (f : fmt),
  In f [tensor_fmt s; string_fmt; param_fmt; config_fmt (e_version e); feature_fmt (e_ftypes e); learner_fmt e;
        linear_fmt e; affine_fmt e; stump_fmt e; hinge_fmt e; table_fmt e; dtree_fmt e;
        object_fmt (wlearner_table e wl); gboost_fmt e wl; plain_object_fmt (e_version e) ids] ->
  forall v, wt f v ->
    (forall rest, dec f (enc f v ++ rest) = Some (v, rest)) /\
    (forall p q, q <> [] -> enc f v = p ++ q -> dec f p = None).
Proof. exact s_formats_sound. Qed.
Print Assumptions C15_formats_sound.

(* ---- tensors: all ranks, all scalar widths 1..8, signed or not -------------------------------------------------- *)
(* tensor_ok: 0 < width <= 8, dims has `rank` entries in [0, 2^31), #elems = product of dims, elems fit the width *)
Theorem C15_tensor_roundtrip : forall s dims elems rest,
  tensor_ok s dims elems ->
  dec (tensor_fmt s) (tensor_stream s dims elems ++ rest) = Some (mk_tensor s dims elems, rest) /\
  enc (tensor_fmt s) (mk_tensor s dims elems) = tensor_stream s dims elems.
Proof. exact s_tensor_roundtrip_enc. Qed.
Print Assumptions C15_tensor_roundtrip.

Theorem C15_tensor_prefix_rejected : forall s dims elems p q,
  tensor_ok s dims elems -> q <> [] -> tensor_stream s dims elems = p ++ q -> dec (tensor_fmt s) p = None.
Proof. exact s_tensor_prefix_rejected'. Qed.
Print Assumptions C15_tensor_prefix_rejected.

(* version, rank, sizeof(scalar) or the stored hash replaced by any other value: rejected *)
Theorem C15_header_corruption_rejected : forall s dims elems ver rk sz h rest,
  tensor_ok s dims elems ->
  ver < 2 ^ 32 -> rk < 2 ^ 32 -> sz < 2 ^ 32 -> h < 2 ^ 64 ->
  (ver, rk, sz, h) <> (Z.to_N src_hash_version, N.of_nat (t_rank s), N.of_nat (t_width s),
                       hash_elems (t_width s) (t_signed s) elems) ->
  dec (tensor_fmt s) (tensor_bytes s (mk_hdr ver rk dims sz h) elems ++ rest) = None.
Proof. exact s_header_corruption. Qed.
Print Assumptions C15_header_corruption_rejected.

(* dimensions replaced by others announcing more elements than present, or a negative count: rejected *)
Theorem C15_dims_corruption_rejected : forall s dims elems dims',
  tensor_ok s dims elems ->
  length dims' = t_rank s -> Forall (fun d => d < 2 ^ 32) dims' ->
  (Z.of_nat (length elems) < dsize (map (sint 4) dims') \/ dsize (map (sint 4) dims') < 0)%Z ->
  dec (tensor_fmt s) (tensor_bytes s (mk_header s dims' (hash_elems (t_width s) (t_signed s) elems)) elems) = None.
Proof. exact s_dims_corruption_larger. Qed.
Print Assumptions C15_dims_corruption_rejected.

(* payload replaced by other elements: accepted exactly when the 64-bit hashes collide *)
Theorem C15_payload_corruption_iff_collision : forall s dims elems elems' rest,
  tensor_ok s dims elems -> length elems' = length elems ->
  Forall (fun x => x < 256 ^ N.of_nat (t_width s)) elems' ->
  dec (tensor_fmt s) (tensor_bytes s (mk_header s dims (hash_elems (t_width s) (t_signed s) elems)) elems' ++ rest) =
  if hash_elems (t_width s) (t_signed s) elems =? hash_elems (t_width s) (t_signed s) elems'
  then Some (raw_tensor (mk_header s dims (hash_elems (t_width s) (t_signed s) elems)) elems', rest) else None.
Proof. exact s_payload_corruption_iff. Qed.
Print Assumptions C15_payload_corruption_iff_collision.

(* the last element altered (any bytes of it): always rejected *)
Theorem C15_payload_last_element : forall s dims pre x y rest,
  tensor_ok s dims (pre ++ [x]) -> y < 256 ^ N.of_nat (t_width s) -> x <> y ->
  dec (tensor_fmt s)
      (tensor_bytes s (mk_header s dims (hash_elems (t_width s) (t_signed s) (pre ++ [x]))) (pre ++ [y]) ++ rest) = None.
Proof. exact s_payload_last_element. Qed.
Print Assumptions C15_payload_last_element.

(* an altered element at any position changes the running hash right after it (partial claim for inner positions) *)
Theorem C15_payload_partial : forall w sgn pre x y,
  (w <= 8)%nat -> x < 256 ^ N.of_nat w -> y < 256 ^ N.of_nat w -> x <> y ->
  hash_elems w sgn (pre ++ [x]) <> hash_elems w sgn (pre ++ [y]).
Proof. exact hash_state_differs. Qed.
Print Assumptions C15_payload_partial.

(* ---- the unconditional claims are false of the faithful model (and of the implementation: replayed by the harness) *)
(* C15_payload_full_statement (C15_Statements): every altered payload of the same length is rejected.
   two uint64/double payloads that differ in ONE byte (0x5c -> 0x36, first payload byte) have the same hash: *)
Theorem C15_payload_refuted : ~ C15_payload_full_statement.
Proof. exact s_payload_refuted. Qed.
Print Assumptions C15_payload_refuted.

(* the dimensions are not covered by the hash: an EMPTY tensor whose (corrupted) dimensions still multiply to zero
   is accepted with the other shape *)
Theorem C15_dims_corruption_refuted :
  exists s dims dims', tensor_ok s dims [] /\ dims' <> dims /\
    accepts (tensor_fmt s) (tensor_bytes s (mk_header s dims' (hash_elems (t_width s) (t_signed s) [])) []) = true.
Proof. exact s_dims_refuted. Qed.
Print Assumptions C15_dims_corruption_refuted.

(* ---- non-vacuity: streams written by the real library are accepted, consumed and reproduced by the model ------- *)
(* real_* : byte streams captured from the harness (C15_Statements) *)
Example C15_nonvacuous_tensor :
  tensor_ok i16_1 [3] [0xccaf; 0x5252; 0x7f14] /\
  tensor_stream i16_1 [3] [0xccaf; 0x5252; 0x7f14] = real_tensor_i16 /\
  reencodes (tensor_fmt i16_1) real_tensor_i16 = Some true /\
  prefix_verdicts (tensor_fmt i16_1) real_tensor_i16 = repeat false 30.
Proof. exact s_nonvacuous_tensor. Qed.

Example C15_nonvacuous_formats :
  reencodes param_fmt real_param_enum = Some true /\ reencodes param_fmt real_param_int = Some true /\
  reencodes (feature_fmt [[115; 99; 108; 97; 115; 115]]) real_feature = Some true /\
  prefix_verdicts param_fmt real_param_int = repeat false 47 /\
  wt param_fmt (VP (VP (VN 5) (mk_string [110])) (mk_string [118; 97])) /\
  wt (config_fmt (0, 0, 1)%Z) (VP (VP (VN 0) (VP (VN 0) (VN 1)))
                                  (mk_vector [VP (VP (VN 5) (mk_string [110])) (mk_string [118; 97])])).
Proof. exact s_nonvacuous_formats. Qed.

(* ==== extension: STATEFUL readers (C15_Dest_Defs / C15_Dest) ===================================================== *)
(* nano::read(stream, destination) mutates an existing object: [rd p f d bs] is the state of the destination d after the
   call and the rest of the stream if it is still good; [read_into] is its view for a caller that checks the stream;
   [erase f] is the pure format of C15_Defs. [faithful p]: the reader returns early exactly when the size field could not be
   read, and resizes the tensor unconditionally -- the decisions of the current source (translated on every run): *)
Theorem C15_dest_source_policy : forall junk,
  (forall failed n, p_str_exit (src_policy junk) failed n = failed) /\
  (forall failed n, p_vec_exit (src_policy junk) failed n = failed) /\
  (forall a b, p_resize_when (src_policy junk) a b = true).
Proof. exact src_policy_faithful. Qed.
Print Assumptions C15_dest_source_policy.

(* (1) for EVERY format, EVERY previous state of the destination and EVERY stream: the stateful reader succeeds exactly when
   the pure decoder does, leaves the same rest, and the destination then IS the decoded value (no stale state survives a
   successful read); in particular the outcome is the same for any two destinations *)
Theorem C15_dest_independent : forall p,
  (forall failed n, p_str_exit p failed n = failed) /\ (forall failed n, p_vec_exit p failed n = failed) /\
  (forall a b, p_resize_when p a b = true) ->
  forall f d bs,
    read_into p f d bs = dec (erase f) bs /\
    (forall d' rest, read_into p f d bs = Some (d', rest) <-> dec (erase f) bs = Some (d', rest)) /\
    (forall d2, read_into p f d2 bs = read_into p f d bs).
Proof. exact p_dest_independent. Qed.
Print Assumptions C15_dest_independent.

(* the readers of the library (tensor, string, parameter, configurable, feature, learner, linear, weak learners, factory
   objects, gboost) written with their destination handling erase to the formats of C15_formats_sound, and with the
   decisions of the current source each of them is destination independent *)
Theorem C15_dest_formats : forall junk proto e wl ids s df f,
  In (df, f) (dest_formats proto e wl ids s) ->
  erase df = f /\ forall d bs, read_into (src_policy junk) df d bs = dec f bs.
Proof. exact p_dest_formats. Qed.
Print Assumptions C15_dest_formats.

(* reading what was written into ANY used object makes it the written value *)
Theorem C15_dest_roundtrip : forall p,
  (forall failed n, p_str_exit p failed n = failed) /\ (forall failed n, p_vec_exit p failed n = failed) /\
  (forall a b, p_resize_when p a b = true) ->
  forall f v d rest, wt (erase f) v -> read_into p f d (enc (erase f) v ++ rest) = Some (v, rest).
Proof. exact dest_roundtrip. Qed.
Print Assumptions C15_dest_roundtrip.

(* (2) the two seeded regressions as models: NOT destination independent.
   C15/4 (`|| size == 0U` in the early exit of the string reader): the empty string read over "abc" reports success and
   leaves "abc"; C15/5 (tensor.resize(dims) skipped when the element count is unchanged): a 3x2 tensor read into a 2x3
   destination reports success and keeps the shape 2x3. The current source yields the decoded value on both. *)
Theorem C15_dest_early_exit_refuted : forall junk,
  exists f d bs v d',
    dec (erase f) bs = Some (v, []) /\ read_into (early_exit_policy junk) f d bs = Some (d', []) /\ d' <> v /\
    read_into (src_policy junk) f d bs = Some (v, []).
Proof. exact early_exit_refuted. Qed.
Print Assumptions C15_dest_early_exit_refuted.

Theorem C15_dest_skip_resize_refuted : forall junk,
  exists s d bs v d',
    dec (tensor_fmt s) bs = Some (v, []) /\ read_into (skip_resize_policy junk) (D_tensor s) d bs = Some (d', []) /\
    d' <> v /\ state_dims d' = state_dims d /\ state_elems d' = state_elems v /\
    read_into (src_policy junk) (D_tensor s) d bs = Some (v, []).
Proof. exact skip_resize_refuted. Qed.
Print Assumptions C15_dest_skip_resize_refuted.

(* (3) failure is reported but NOT atomic (what the code does; the property only demands that failure is reported):
   a truncated stream leaves the destination half-written -- neither the old object nor the written one *)
Theorem C15_dest_failure_not_atomic :
  (forall junk, exists d bs suffix v d',
      rd (src_policy junk) d_string d bs = (d', None) /\ read_into (src_policy junk) d_string d bs = None /\
      dec string_fmt (bs ++ suffix) = Some (v, []) /\ d' <> d /\ d' <> v /\
      d' = mk_string [120; 121; 99; 100]) /\
  (exists s d bs suffix v d',
      rd (src_policy aa_junk) (D_tensor s) d bs = (d', None) /\
      dec (tensor_fmt s) (bs ++ suffix) = Some (v, []) /\ d' <> d /\ d' <> v /\
      state_dims d' = state_dims v /\ state_elems d' = [7; 0xAA; 0xAA]).
Proof. exact failure_not_atomic. Qed.
Print Assumptions C15_dest_failure_not_atomic.

(* non-vacuity: the hypotheses of (1) hold for the source policy; a real feature stream (captured from the harness) read
   into a destination holding the real enum parameter / another feature gives the decoded feature *)
Example C15_dest_nonvacuous :
  ((forall failed n, p_str_exit (src_policy zero_junk) failed n = failed) /\
   (forall failed n, p_vec_exit (src_policy zero_junk) failed n = failed) /\
   (forall a b, p_resize_when (src_policy zero_junk) a b = true)) /\
  wt (erase d_param) (VP (VP (VN 5) (mk_string [110])) (mk_string [118; 97])) /\
  reuse_result (src_policy zero_junk) (d_feature [[115; 99; 108; 97; 115; 115]]) real_param_enum real_feature
    = Some (real_feature, []) /\
  reuse_result (src_policy zero_junk) d_param real_param_enum real_param_int = Some (real_param_int, []) /\
  reuse_result (src_policy zero_junk) (D_tensor i16_1) real_tensor_i16 real_tensor_i16 = Some (real_tensor_i16, []).
Proof. exact p_dest_nonvacuous. Qed.

(* ==== extension (b): the field sequences of the formats come from the source ======================================= *)
(* coq/generated/Src_c15_fields.v (tools/checks/c15_fields.py, regenerated on every run) lists for every write/read pair of
   the serialized classes the `::nano::write/read(stream, X)` calls in source order with the wire type of X.
   [src_fields u] = Some (write tokens, read tokens); [tokens sch] prints a schema of the model; [seq_fmt] interprets a
   schema as a format term: the source sequences ARE the model's schemas, the model's format terms ARE the interpretations
   of these schemas (same order, same widths), every writer emits exactly what its reader consumes (the parameter range
   writers additionally emit the (type, name) header parameter_t::read has already consumed), nothing is unresolved *)
Import String.
Theorem C15_fields_as_assumed : forall (e : env) (wl : list (bytes * N)) (s : tspec),
  (* what the source says *)
  (src_fields "feature"%string = Some (tokens sch_feature, tokens sch_feature) /\
   src_fields "configurable"%string = Some (tokens (sch_version ++ sch_config_rest), tokens (sch_version ++ sch_config_rest)) /\
   src_fields "learner"%string = Some (tokens sch_learner, tokens sch_learner) /\
   src_fields "linear"%string = Some (tokens sch_linear, tokens sch_linear) /\
   src_fields "gboost"%string = Some (tokens sch_gboost, tokens sch_gboost) /\
   src_fields "single"%string = Some (tokens sch_single, tokens sch_single) /\
   src_fields "stump"%string = Some (tokens sch_stump, tokens sch_stump) /\
   src_fields "hinge"%string = Some (tokens sch_hinge, tokens sch_hinge) /\
   src_fields "table"%string = Some (tokens sch_table, tokens sch_table) /\
   src_fields "dtree"%string = Some (tokens sch_dtree, tokens sch_dtree) /\
   src_fields "dtree_node"%string = Some (tokens sch_node, tokens sch_node) /\
   src_fields "tensor"%string = Some (tokens (sch_tensor_hdr 0) ++ ["payload"%string], tokens (sch_tensor_hdr 0) ++ ["payload"%string]) /\
   src_fields "param_range"%string = Some (tokens (sch_param_hdr ++ sch_range), tokens sch_range) /\
   src_fields "param_pair_range"%string = Some (tokens (sch_param_hdr ++ sch_prange), tokens sch_prange) /\
   src_fields "param_header"%string = Some (tokens sch_param_hdr, tokens sch_param_hdr) /\
   src_fields "param_none"%string = Some (ptokens "-1"%string [], ptokens "-1"%string []) /\
   src_fields "param_enum"%string = Some (ptokens "0"%string sch_penum, ptokens "0"%string sch_penum) /\
   src_fields "param_irange"%string = Some (rtokens "1"%string "range_t"%string, rtokens "1"%string "range_t"%string) /\
   src_fields "param_frange"%string = Some (rtokens "2"%string "range_t"%string, rtokens "2"%string "range_t"%string) /\
   src_fields "param_iprange"%string = Some (rtokens "3"%string "pair_range_t"%string, rtokens "3"%string "pair_range_t"%string) /\
   src_fields "param_fprange"%string = Some (rtokens "4"%string "pair_range_t"%string, rtokens "4"%string "pair_range_t"%string) /\
   src_fields "param_string"%string = Some (ptokens "5"%string sch_pstring, ptokens "5"%string sch_pstring)) /\
  (* what the model's format terms are *)
  ((exists p, feature_fmt (e_ftypes e) = F_filter (seq_fmt e wl sch_feature) p) /\
   config_fmt (e_version e) =
     F_pair (F_filter (seq_fmt e wl sch_version) (version_ok (e_version e))) (seq_fmt e wl sch_config_rest) /\
   learner_fmt e = seq_fmt e wl sch_learner /\
   (exists p, linear_fmt e = F_filter (seq_fmt e wl sch_linear) p) /\
   gboost_fmt e wl = seq_fmt e wl sch_gboost /\
   single_fmt e = seq_fmt e wl sch_single /\ stump_fmt e = seq_fmt e wl sch_stump /\ hinge_fmt e = seq_fmt e wl sch_hinge /\
   table_fmt e = seq_fmt e wl sch_table /\ dtree_fmt e = seq_fmt e wl sch_dtree /\
   dtree_node_fmt = seq_fmt e wl sch_node /\
   hdr_fmt s = seq_fmt e wl (sch_tensor_hdr (t_rank s)) /\
   (forall hd, param_type hd = 1%Z \/ param_type hd = 2%Z -> param_body hd = seq_fmt e wl sch_range) /\
   (forall hd, param_type hd = 3%Z \/ param_type hd = 4%Z -> param_body hd = seq_fmt e wl sch_prange) /\
   (exists g, param_fmt = F_dep (seq_fmt e wl sch_param_hdr) g) /\
   (forall hd, param_type hd = (-1)%Z -> param_body hd = seq_fmt e wl []) /\
   (forall hd, param_type hd = 0%Z -> param_body hd = seq_fmt e wl sch_penum) /\
   (forall hd, param_type hd = 5%Z -> param_body hd = seq_fmt e wl sch_pstring) /\
   (forall hd, (param_type hd < -1 \/ 5 < param_type hd)%Z -> param_body hd = F_fail)) /\
  (* every writer emits what its reader consumes, nothing is unresolved *)
  (forall u w r, In (u, (w, r)) src_c15_fields ->
     (forall t, In t (w ++ r)%list -> String.prefix "?"%string t = false) /\
     (if is_range_unit u then w = (tokens sch_param_hdr ++ r)%list else w = r)) /\
  (* ... and names the same members in the same order *)
  (forall u w r, In (u, (w, r)) src_c15_names -> names_agree (if is_range_unit u then skipn 2 w else w) r = true).
Proof. exact fields_as_assumed. Qed.
Print Assumptions C15_fields_as_assumed.

Example C15_fields_nonvacuous :
  List.length src_c15_fields = 22%nat /\ In ("gboost"%string, (tokens sch_gboost, tokens sch_gboost)) src_c15_fields /\
  In ("gboost"%string, ([""%string; "m_bias"%string; "m_wlearners"%string; "m_prototypes"%string],
                        [""%string; "m_bias"%string; "m_wlearners"%string; "m_prototypes"%string])) src_c15_names /\
  names_agree [""%string; "m_bias"%string; "m_prototypes"%string; "m_wlearners"%string]
              [""%string; "m_bias"%string; "m_wlearners"%string; "m_prototypes"%string] = false.
Proof. exact fields_nonvacuous. Qed.
