(* C15 -- Serialization round-trips; truncated / corrupted streams are rejected.
   Only statements + `exact` + Print Assumptions live here. Model: C15_Defs (a combinator language of wire formats with a
   generic reader/writer; the decisions and arithmetic of the readers are imported from the kernels translated from
   core/hash.h, tensor/stream.h, tensor/dims.h, configurable.cpp, parameter.cpp on every run). *)
From Coq Require Import List ZArith NArith Bool.
From LNGen Require Import Src_stream.
From LN Require Import C15_Defs C15_Proofs C15_Statements.
Import ListNotations.
Local Open Scope N_scope.

(* ---- generic: for EVERY format built from the combinators (hence every wire format of the library below) ------- *)
(* reading back what was written yields the same value and leaves the rest of the stream untouched *)
Theorem C15_codec_roundtrip : forall f v rest, wt f v -> dec f (enc f v ++ rest) = Some (v, rest).
Proof. exact codec_roundtrip. Qed.
Print Assumptions C15_codec_roundtrip.

(* every strict prefix of a written stream is rejected *)
Theorem C15_codec_prefix_rejected : forall f v p,
  wt f v -> (exists q, q <> [] /\ enc f v = p ++ q) -> dec f p = None.
Proof. exact codec_prefix_rejected. Qed.
Print Assumptions C15_codec_prefix_rejected.

(* whatever the reader accepts is byte for byte the encoding of what it returns (no second spelling of a value) *)
Theorem C15_codec_accept_exact : forall f bs v r,
  Forall (fun b => b < 256) bs -> dec f bs = Some (v, r) -> bs = enc f v ++ r.
Proof. exact codec_accept_exact. Qed.
Print Assumptions C15_codec_accept_exact.

(* the wire formats of the library are such formats: parameter, configurable, feature, learner, linear model,
   weak learners, gradient boosting model, factory objects -- round trip and prefix rejection for all of them *)
Theorem C15_formats_sound : forall (e : env) (wl : list (bytes * N)) (ids : list bytes) (s : tspec) (f : fmt),
  In f [tensor_fmt s; string_fmt; param_fmt; config_fmt (e_version e); feature_fmt (e_ftypes e); learner_fmt e;
        linear_fmt e; affine_fmt e; stump_fmt e; hinge_fmt e; table_fmt e; dtree_fmt e;
        object_fmt (wlearner_table e wl); gboost_fmt e wl; plain_object_fmt (e_version e) ids] ->
  forall v, wt f v ->
    (forall rest, dec f (enc f v ++ rest) = Some (v, rest)) /\
    (forall p q, q <> [] -> enc f v = p ++ q -> dec f p = None).
Proof. exact s_formats_sound. Qed.
Print Assumptions C15_formats_sound.

(* ---- tensors: all ranks, all scalar widths 1..8, signed or not -------------------------------------------------- *)
(* tensor_ok: 0 < width <= 8, dims has `rank` entries in [0, 2^31), #elems = product of dims, elems fit the width *)
Theorem C15_tensor_roundtrip : forall s dims elems rest,
  tensor_ok s dims elems ->
  dec (tensor_fmt s) (tensor_stream s dims elems ++ rest) = Some (mk_tensor s dims elems, rest) /\
  enc (tensor_fmt s) (mk_tensor s dims elems) = tensor_stream s dims elems.
Proof. exact s_tensor_roundtrip_enc. Qed.
Print Assumptions C15_tensor_roundtrip.

Theorem C15_tensor_prefix_rejected : forall s dims elems p q,
  tensor_ok s dims elems -> q <> [] -> tensor_stream s dims elems = p ++ q -> dec (tensor_fmt s) p = None.
Proof. exact s_tensor_prefix_rejected'. Qed.
Print Assumptions C15_tensor_prefix_rejected.

(* version, rank, sizeof(scalar) or the stored hash replaced by any other value: rejected *)
Theorem C15_header_corruption_rejected : forall s dims elems ver rk sz h rest,
  tensor_ok s dims elems ->
  ver < 2 ^ 32 -> rk < 2 ^ 32 -> sz < 2 ^ 32 -> h < 2 ^ 64 ->
  (ver, rk, sz, h) <> (Z.to_N src_hash_version, N.of_nat (t_rank s), N.of_nat (t_width s),
                       hash_elems (t_width s) (t_signed s) elems) ->
  dec (tensor_fmt s) (tensor_bytes s (mk_hdr ver rk dims sz h) elems ++ rest) = None.
Proof. exact s_header_corruption. Qed.
Print Assumptions C15_header_corruption_rejected.

(* dimensions replaced by others announcing more elements than present, or a negative count: rejected *)
Theorem C15_dims_corruption_rejected : forall s dims elems dims',
  tensor_ok s dims elems ->
  length dims' = t_rank s -> Forall (fun d => d < 2 ^ 32) dims' ->
  (Z.of_nat (length elems) < dsize (map (sint 4) dims') \/ dsize (map (sint 4) dims') < 0)%Z ->
  dec (tensor_fmt s) (tensor_bytes s (mk_header s dims' (hash_elems (t_width s) (t_signed s) elems)) elems) = None.
Proof. exact s_dims_corruption_larger. Qed.
Print Assumptions C15_dims_corruption_rejected.

(* payload replaced by other elements: accepted exactly when the 64-bit hashes collide *)
Theorem C15_payload_corruption_iff_collision : forall s dims elems elems' rest,
  tensor_ok s dims elems -> length elems' = length elems ->
  Forall (fun x => x < 256 ^ N.of_nat (t_width s)) elems' ->
  dec (tensor_fmt s) (tensor_bytes s (mk_header s dims (hash_elems (t_width s) (t_signed s) elems)) elems' ++ rest) =
  if hash_elems (t_width s) (t_signed s) elems =? hash_elems (t_width s) (t_signed s) elems'
  then Some (raw_tensor (mk_header s dims (hash_elems (t_width s) (t_signed s) elems)) elems', rest) else None.
Proof. exact s_payload_corruption_iff. Qed.
Print Assumptions C15_payload_corruption_iff_collision.

(* the last element altered (any bytes of it): always rejected *)
Theorem C15_payload_last_element : forall s dims pre x y rest,
  tensor_ok s dims (pre ++ [x]) -> y < 256 ^ N.of_nat (t_width s) -> x <> y ->
  dec (tensor_fmt s)
      (tensor_bytes s (mk_header s dims (hash_elems (t_width s) (t_signed s) (pre ++ [x]))) (pre ++ [y]) ++ rest) = None.
Proof. exact s_payload_last_element. Qed.
Print Assumptions C15_payload_last_element.

(* an altered element at any position changes the running hash right after it (partial claim for inner positions) *)
Theorem C15_payload_partial : forall w sgn pre x y,
  (w <= 8)%nat -> x < 256 ^ N.of_nat w -> y < 256 ^ N.of_nat w -> x <> y ->
  hash_elems w sgn (pre ++ [x]) <> hash_elems w sgn (pre ++ [y]).
Proof. exact hash_state_differs. Qed.
Print Assumptions C15_payload_partial.

(* ---- the unconditional claims are false of the faithful model (and of the implementation: replayed by the harness) *)
(* C15_payload_full_statement (C15_Statements): every altered payload of the same length is rejected.
   two uint64/double payloads that differ in ONE byte (0x5c -> 0x36, first payload byte) have the same hash: *)
Theorem C15_payload_refuted : ~ C15_payload_full_statement.
Proof. exact s_payload_refuted. Qed.
Print Assumptions C15_payload_refuted.

(* the dimensions are not covered by the hash: an EMPTY tensor whose (corrupted) dimensions still multiply to zero
   is accepted with the other shape *)
Theorem C15_dims_corruption_refuted :
  exists s dims dims', tensor_ok s dims [] /\ dims' <> dims /\
    accepts (tensor_fmt s) (tensor_bytes s (mk_header s dims' (hash_elems (t_width s) (t_signed s) [])) []) = true.
Proof. exact s_dims_refuted. Qed.
Print Assumptions C15_dims_corruption_refuted.

(* ---- non-vacuity: streams written by the real library are accepted, consumed and reproduced by the model ------- *)
(* real_* : byte streams captured from the harness (C15_Statements) *)
Example C15_nonvacuous_tensor :
  tensor_ok i16_1 [3] [0xccaf; 0x5252; 0x7f14] /\
  tensor_stream i16_1 [3] [0xccaf; 0x5252; 0x7f14] = real_tensor_i16 /\
  reencodes (tensor_fmt i16_1) real_tensor_i16 = Some true /\
  prefix_verdicts (tensor_fmt i16_1) real_tensor_i16 = repeat false 30.
Proof. exact s_nonvacuous_tensor. Qed.

Example C15_nonvacuous_formats :
  reencodes param_fmt real_param_enum = Some true /\ reencodes param_fmt real_param_int = Some true /\
  reencodes (feature_fmt [[115; 99; 108; 97; 115; 115]]) real_feature = Some true /\
  prefix_verdicts param_fmt real_param_int = repeat false 47 /\
  wt param_fmt (VP (VP (VN 5) (mk_string [110])) (mk_string [118; 97])) /\
  wt (config_fmt (0, 0, 1)%Z) (VP (VP (VN 0) (VP (VN 0) (VN 1)))
                                  (mk_vector [VP (VP (VN 5) (mk_string [110])) (mk_string [118; 97])])).
Proof. exact s_nonvacuous_formats. Qed.
