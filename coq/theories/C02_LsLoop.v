(* C02 (extension) -- proofs about the loop of the line-search solvers (model: C02_LsLoop_Defs.v), for EVERY oracle
   (objective, direction rule, lsearch0, dot product), every configuration with lsearchk::max_iterations >= 1.
   Composes C02_Proofs (done_step, loop condition kernels, binary64 order facts through Flocq) with C07's theorems about
   ls_get (evaluation budget, success = last probe, success => Armijo for backtrack / lemarechal / fletcher). *)
From Coq Require Import ZArith List Bool Reals Floats Lra Lia.
From Flocq Require Import Core BinarySingleNaN PrimFloat.
From LNGen Require Import Src_c02 Src_c02ls.
From LN Require Import C02_Defs C02_Proofs C02_LsLoop_Defs.
From LN Require C07_Defs C07_Proofs C07_Budget C07_Real C07_CG.
Import ListNotations.
Local Open Scope Z_scope.

Local Notation ls_get := C07_Defs.ls_get.
Local Notation rs := C07_Defs.rs.
Local Notation rt := C07_Defs.rt.
Local Notation okr := C07_Defs.ok.
Local Notation cnt := C07_Defs.cnt.
Local Notation trace := C07_Defs.trace.
Local Notation ls_bound := C07_Budget.ls_bound.

(* ------------------------------------------------------------------------------------------------------------- *)
(* 1. translated kernels of the solver bodies                                                                    *)
(* ------------------------------------------------------------------------------------------------------------- *)
Lemma loop_cond_spec b fc gc m : loop_cond b fc gc m = (fc + gc <? m).
Proof. destruct b; reflexivity. Qed.

Lemma ret_current_spec b v : ret_current b v = match b with BGd => true | _ => v end.
Proof. destruct b, v; reflexivity. Qed.

Lemma bump_spec n withg : forall fc gc,
  bump n withg (fc, gc) = (fc + Z.of_nat n, gc + (if withg then Z.of_nat n else 0)).
Proof.
  induction n as [|k IH]; intros fc gc.
  - simpl. destruct withg; f_equal; lia.
  - cbn [bump fst snd]. unfold eval_counters. rewrite k_fn_fcalls, k_fn_gcalls, IH.
    destruct withg; simpl Z.eqb; cbv iota; f_equal; lia.
Qed.

Lemma done_step_valid s fc gc i c : valid (fst (done_step s fc gc i c)) = valid s.
Proof. rewrite done_step_spec. destruct (c || negb (i && valid s)); reflexivity. Qed.

(* ------------------------------------------------------------------------------------------------------------- *)
(* 2. one pass through the loop body, flattened                                                                  *)
(* ------------------------------------------------------------------------------------------------------------- *)
Section Iter.
  Variable orc : oracles.
  Variable cfg : lsconf.

  Definition it_d (st : lsrun) : point := direction orc cfg (lr_iters st) (lr_c st) (lr_p st).
  Definition it_tr0 (st : lsrun) : option PrimFloat.float := o_trial orc (lr_iters st) (lr_last st) (lr_c st) (it_d st).
  Definition it_n0 (st : lsrun) : Z := match it_tr0 st with Some _ => 1 | None => 0 end.
  Definition it_ne0 (st : lsrun) : Z := lr_ne st + it_n0 st.
  Definition it_f0 (st : lsrun) : option PrimFloat.float :=
    match it_tr0 st with
    | Some s => Some (fst (o_eval orc (lr_ne st) (axpy (sx (lr_c st)) s (it_d st))))
    | None => None
    end.
  Definition it_t0 (st : lsrun) : PrimFloat.float := o_t0 orc (lr_iters st) (lr_last st) (lr_c st) (it_d st) (it_f0 st).
  Definition it_p0 (st : lsrun) : C07_Defs.probe :=
    C07_Defs.mkP (valid (lr_c st)) (sfx (lr_c st)) (o_dot orc (sgx (lr_c st)) (it_d st)).
  Definition it_phi (st : lsrun) : Z -> PrimFloat.float -> C07_Defs.probe := ls_probe orc (it_ne0 st) (lr_c st) (it_d st).
  Definition it_r (st : lsrun) : C07_Defs.result := ls_get (it_phi st) (lc_prm cfg) (it_p0 st) (lc_alg cfg) (it_t0 st).
  Definition it_n (st : lsrun) : Z := Z.of_nat (Z.to_nat (cnt (rs (it_r st)))).
  Definition it_fc1 (st : lsrun) : Z := lr_fc st + it_n0 st + it_n st.
  Definition it_gc1 (st : lsrun) : Z := lr_gc st + it_n st.
  Definition it_c1 (st : lsrun) : sstate :=
    ls_after orc (it_ne0 st) (lr_c st) (it_d st) (rs (it_r st)) (it_fc1 st) (it_gc1 st).
  Definition it_conv (st : lsrun) : bool := PrimFloat.ltb (gradient_test (it_c1 st)) (lc_eps cfg).
  Definition it_done (st : lsrun) : sstate * bool :=
    done_step (it_c1 st) (it_fc1 st) (it_gc1 st) (okr (it_r st)) (it_conv st).

  Lemma ls_iter_spec st :
    ls_iter orc cfg st =
    (mkLR (fst (it_done st)) (lr_c st) (it_fc1 st) (it_gc1 st) (it_ne0 st + it_n st) (rt (it_r st)) (lr_iters st + 1)
          (okr (it_r st))
          (lr_irreg st || (okr (it_r st) && negb (step_regular (lc_prm cfg) (it_p0 st) (rt (it_r st)))))
          (lr_exit st),
     snd (it_done st)).
  Proof.
    unfold ls_iter, it_done, it_conv, it_c1, it_gc1, it_fc1, it_n, it_r, it_phi, it_p0, it_t0, it_f0, it_ne0, it_n0, it_tr0, it_d.
    destruct (o_trial orc (lr_iters st) (lr_last st) (lr_c st) (direction orc cfg (lr_iters st) (lr_c st) (lr_p st))) as [s|].
    - rewrite (bump_spec 1 false). cbv iota. rewrite bump_spec. cbv iota.
      replace (lr_gc st + 0) with (lr_gc st) by lia.
      change (Z.of_nat 1) with 1.
      match goal with |- (let '(c2, stop) := ?e in _) = _ => destruct e as [c2 stop] end.
      reflexivity.
    - rewrite (bump_spec 0 false). cbv iota. rewrite bump_spec. cbv iota.
      change (Z.of_nat 0) with 0.
      replace (lr_gc st + 0) with (lr_gc st) by lia.
      replace (lr_fc st + 0) with (lr_fc st) by lia.
      replace (lr_ne st + 0) with (lr_ne st) by lia.
      match goal with |- (let '(c2, stop) := ?e in _) = _ => destruct e as [c2 stop] end.
      reflexivity.
  Qed.
End Iter.

(* ------------------------------------------------------------------------------------------------------------- *)
(* 3. invariants of the loop                                                                                     *)
(* ------------------------------------------------------------------------------------------------------------- *)
Section Run.
  Variable orc : oracles.
  Variable cfg : lsconf.
  Hypothesis Hmaxit : 0 < C07_Defs.maxit (lc_prm cfg).

  Local Notation prm := (lc_prm cfg).
  Local Notation alg := (lc_alg cfg).
  Local Notation eps := (lc_eps cfg).
  Local Notation maxev := (lc_maxev cfg).
  Local Notation LB := (ls_bound (lc_alg cfg) (C07_Defs.maxit (lc_prm cfg))).

  (* the triple of a state is an answer of the oracle to one of the first ne evaluations, at the state's point *)
  Definition evaluated (ne : Z) (s : sstate) : Prop :=
    exists k, 0 <= k < ne /\ o_eval orc k (sx s) = (sfx s, sgx s).

  Lemma evaluated_mono ne ne' s : ne <= ne' -> evaluated ne s -> evaluated ne' s.
  Proof. intros L (k & K & E). exists k. split; [lia|exact E]. Qed.

  Lemma it_n0_bounds st : 0 <= it_n0 orc cfg st <= 1.
  Proof. unfold it_n0. destruct (it_tr0 orc cfg st); lia. Qed.

  Lemma it_cnt_bounds st : 0 <= cnt (rs (it_r orc cfg st)) <= LB.
  Proof. unfold it_r. apply C07_Budget.ls_get_cnt. exact Hmaxit. Qed.

  Lemma it_n_cnt st : it_n orc cfg st = cnt (rs (it_r orc cfg st)).
  Proof. unfold it_n. pose proof (it_cnt_bounds st). rewrite Z2Nat.id; lia. Qed.

  Lemma it_n_bounds st : 0 <= it_n orc cfg st <= LB.
  Proof. rewrite it_n_cnt. apply it_cnt_bounds. Qed.

  (* a successful line search: at least one probe, the new state is the valid answer of the last probe, requested at
     the returned step *)
  Lemma it_ok_probe st : okr (it_r orc cfg st) = true ->
    1 <= it_n orc cfg st /\ valid (it_c1 orc cfg st) = true /\
    C07_Defs.pf (C07_Defs.cur (rs (it_r orc cfg st))) = sfx (it_c1 orc cfg st) /\
    PrimFloat.ltb (C07_Defs.pg (it_p0 orc cfg st)) PrimFloat.zero = true.
  Proof.
    intros H.
    assert (D : PrimFloat.ltb (C07_Defs.pg (it_p0 orc cfg st)) PrimFloat.zero = true).
    { destruct (PrimFloat.ltb (C07_Defs.pg (it_p0 orc cfg st)) PrimFloat.zero) eqn:E; [reflexivity|].
      unfold it_r in H. rewrite (C07_Proofs.ls_get_refuses _ _ _ _ _ E) in H. discriminate H. }
    pose proof (C07_Proofs.ls_get_valid _ _ _ _ _ H) as V.
    destruct (C07_Proofs.ls_get_ok _ _ _ _ _ Hmaxit H) as [[[Hc Hw] [Hn Hs]] _].
    fold (it_r orc cfg st) in V, Hc, Hw, Hn, Hs.
    destruct (Hs V) as [rest E]. rewrite E in Hc, Hw. cbn [length] in Hc.
    rewrite it_n_cnt, Hc.
    unfold it_c1, ls_after. rewrite E, Hc.
    replace (it_ne0 orc cfg st + Z.of_nat (S (length rest)) - 1) with (it_ne0 orc cfg st + Z.of_nat (length rest)) by lia.
    rewrite Hw in V |- *. unfold it_phi, ls_probe in V |- *.
    destruct (o_eval orc (it_ne0 orc cfg st + Z.of_nat (length rest))
                     (axpy (sx (lr_c st)) (rt (it_r orc cfg st)) (it_d orc cfg st))) as [f g].
    cbn [C07_Defs.pv C07_Defs.pf] in V |- *.
    repeat split; try lia; try assumption.
  Qed.

  Lemma it_c1_calls st : sfcalls (it_c1 orc cfg st) = (if match trace (rs (it_r orc cfg st)) with [] => true | _ => false end
                                                       then sfcalls (lr_c st) else it_fc1 orc cfg st) /\
                         sgcalls (it_c1 orc cfg st) = (if match trace (rs (it_r orc cfg st)) with [] => true | _ => false end
                                                       then sgcalls (lr_c st) else it_gc1 orc cfg st).
  Proof.
    unfold it_c1, ls_after. destruct (trace (rs (it_r orc cfg st))) as [|t rest]; [split; reflexivity|].
    destruct (o_eval orc _ _) as [f g]. split; reflexivity.
  Qed.

  Lemma it_c1_evaluated st : 1 <= lr_ne st -> evaluated (lr_ne st) (lr_c st) ->
    evaluated (it_ne0 orc cfg st + it_n orc cfg st) (it_c1 orc cfg st).
  Proof.
    intros N E. pose proof (it_n0_bounds st) as B0. pose proof (it_cnt_bounds st) as B1.
    unfold it_c1, ls_after. destruct (trace (rs (it_r orc cfg st))) as [|t rest].
    - eapply evaluated_mono; [|exact E]. rewrite it_n_cnt. unfold it_ne0. lia.
    - destruct (o_eval orc (it_ne0 orc cfg st + cnt (rs (it_r orc cfg st)) - 1) (axpy (sx (lr_c st)) t (it_d orc cfg st))) as [f g] eqn:EV.
      exists (it_ne0 orc cfg st + cnt (rs (it_r orc cfg st)) - 1). split.
      + rewrite it_n_cnt. unfold it_ne0. lia.
      + cbn [sx sfx sgx set_calls set_point]. exact EV.
  Qed.

  Lemma it_c1_status st : sstatus (it_c1 orc cfg st) = sstatus (lr_c st).
  Proof.
    unfold it_c1, ls_after. destruct (trace (rs (it_r orc cfg st))) as [|t rest]; [reflexivity|].
    destruct (o_eval orc _ _) as [f g]. reflexivity.
  Qed.

  Definition stopped (r : lsrun) : Prop :=
    (sstatus (lr_c r) = ST_CONVERGED /\ valid (lr_c r) = true /\ PrimFloat.ltb (gradient_test (lr_c r)) eps = true /\
     lr_ok r = true) \/
    (sstatus (lr_c r) = ST_FAILED /\ (lr_ok r = false \/ valid (lr_c r) = false)).
  Definition pgood (r : lsrun) : Prop := valid (lr_p r) = true /\ sstatus (lr_p r) = ST_MAX_ITERS.
  Definition going (r : lsrun) : Prop :=
    valid (lr_c r) = true /\ sstatus (lr_c r) = ST_MAX_ITERS /\ lr_ok r = true /\ pgood r.

  (* counters, evaluation indices, honesty *)
  Definition common (r : lsrun) : Prop :=
    lr_ne r = lr_fc r /\ 1 <= lr_ne r /\ 0 <= lr_iters r /\
    2 <= lr_fc r + lr_gc r <= Z.max 2 (maxev - 1 + (2 * LB + 1)) /\
    evaluated (lr_ne r) (lr_c r) /\ evaluated (lr_ne r) (lr_p r) /\
    sfcalls (lr_c r) = lr_fc r /\ sgcalls (lr_c r) = lr_gc r /\
    sfcalls (lr_p r) <= lr_fc r /\ sgcalls (lr_p r) <= lr_gc r.

  Definition inv (st : lsrun) : Prop :=
    common st /\ going st /\ 2 + 2 * lr_iters st <= lr_fc st + lr_gc st.

  Definition fin (r : lsrun) : Prop :=
    common r /\ 2 * lr_iters r <= lr_fc r + lr_gc r /\
    ((lr_exit r = EX_INIT /\ lr_iters r = 0 /\ lr_ok r = true /\ stopped r) \/
     (lr_exit r = EX_DONE /\ stopped r /\ pgood r) \/
     (lr_exit r = EX_BUDGET /\ going r /\ ~ (lr_fc r + lr_gc r < maxev)) \/
     (lr_exit r = EX_FUEL /\ going r)).

  Lemma set_exit_fields r e :
    lr_c (set_exit r e) = lr_c r /\ lr_p (set_exit r e) = lr_p r /\ lr_fc (set_exit r e) = lr_fc r /\
    lr_gc (set_exit r e) = lr_gc r /\ lr_ne (set_exit r e) = lr_ne r /\ lr_iters (set_exit r e) = lr_iters r /\
    lr_ok (set_exit r e) = lr_ok r /\ lr_irreg (set_exit r e) = lr_irreg r /\ lr_exit (set_exit r e) = e /\
    lr_last (set_exit r e) = lr_last r.
  Proof. repeat split. Qed.

  (* one pass: from the invariant and a true loop condition, either done() stops (final facts) or the invariant holds again *)
  Lemma iter_step st : inv st -> lr_fc st + lr_gc st < maxev ->
    let st' := fst (ls_iter orc cfg st) in
    (snd (ls_iter orc cfg st) = true -> fin (set_exit st' EX_DONE)) /\
    (snd (ls_iter orc cfg st) = false -> inv st' /\ lr_fc st + lr_gc st + 2 <= lr_fc st' + lr_gc st').
  Proof.
    intros (C & G & I) L. rewrite ls_iter_spec. cbn [fst snd].
    destruct C as (Cne & Cne1 & Cit & Cb & Cec & Cep & Cfc & Cgc & Cpf & Cpg).
    destruct G as (Gv & Gs & Gok & Gpv & Gps).
    pose proof (it_n0_bounds st) as B0. pose proof (it_n_bounds st) as B1.
    pose proof (it_c1_evaluated st Cne1 Cec) as EV1.
    pose proof (it_c1_status st) as S1.
    pose proof (done_decision (it_c1 orc cfg st) (it_fc1 orc cfg st) (it_gc1 orc cfg st) (okr (it_r orc cfg st)) (it_conv orc cfg st))
      as (Dstop & Dgo & Dst & Dfc & Dgc & Dx & Dfx & Dgx).
    fold (it_done orc cfg st) in Dstop, Dgo, Dst, Dfc, Dgc, Dx, Dfx, Dgx.
    assert (VD : valid (fst (it_done orc cfg st)) = valid (it_c1 orc cfg st)).
    { unfold it_done. apply done_step_valid. }
    assert (GT : gradient_test (fst (it_done orc cfg st)) = gradient_test (it_c1 orc cfg st)).
    { unfold gradient_test. rewrite Dgx, Dfx. reflexivity. }
    assert (EVD : evaluated (it_ne0 orc cfg st + it_n orc cfg st) (fst (it_done orc cfg st))).
    { destruct EV1 as (k & K & E). exists k. split; [exact K|]. rewrite Dx, Dfx, Dgx. exact E. }
    assert (COMMON : common (mkLR (fst (it_done orc cfg st)) (lr_c st) (it_fc1 orc cfg st) (it_gc1 orc cfg st)
                                  (it_ne0 orc cfg st + it_n orc cfg st) (rt (it_r orc cfg st)) (lr_iters st + 1)
                                  (okr (it_r orc cfg st))
                                  (lr_irreg st || (okr (it_r orc cfg st) && negb (step_regular prm (it_p0 orc cfg st) (rt (it_r orc cfg st)))))
                                  (lr_exit st))).
    { unfold common. cbn [lr_c lr_p lr_fc lr_gc lr_ne lr_iters].
      unfold it_fc1, it_gc1, it_ne0 in *.
      repeat split; try lia.
      - exact EVD.
      - eapply evaluated_mono; [|exact Cec]. lia. }
    split.
    - intros STOP. unfold fin.
      destruct (set_exit_fields (mkLR (fst (it_done orc cfg st)) (lr_c st) (it_fc1 orc cfg st) (it_gc1 orc cfg st)
                                  (it_ne0 orc cfg st + it_n orc cfg st) (rt (it_r orc cfg st)) (lr_iters st + 1)
                                  (okr (it_r orc cfg st))
                                  (lr_irreg st || (okr (it_r orc cfg st) && negb (step_regular prm (it_p0 orc cfg st) (rt (it_r orc cfg st)))))
                                  (lr_exit st)) EX_DONE) as (F1 & F2 & F3 & F4 & F5 & F6 & F7 & F8 & F9 & F10).
      unfold common, stopped, pgood. rewrite F1, F2, F3, F4, F5, F6, F7, F9.
      split; [exact COMMON|]. cbn [lr_c lr_p lr_fc lr_gc lr_ne lr_iters lr_ok].
      split; [unfold it_fc1, it_gc1; lia|].
      right. left. split; [reflexivity|]. split; [|split; assumption].
      specialize (Dst STOP). rewrite STOP in Dstop. rewrite VD, GT.
      destruct (it_conv orc cfg st) eqn:CV, (okr (it_r orc cfg st)) eqn:OK, (valid (it_c1 orc cfg st)) eqn:V1;
        cbn [andb] in Dst; cbn in Dstop; try discriminate Dstop;
        try (left; repeat split; assumption);
        right; (split; [exact Dst|]); try (left; reflexivity); right; reflexivity.
    - intros GO. destruct (Dgo GO) as (Ds & Dv & Dok & Dcv).
      destruct (it_ok_probe st Dok) as (N1 & _).
      split; [|cbn [lr_fc lr_gc]; unfold it_fc1, it_gc1; lia].
      unfold inv. split; [exact COMMON|]. cbn [lr_c lr_p lr_fc lr_gc lr_ne lr_iters lr_ok].
      split; [|unfold it_fc1, it_gc1; lia].
      unfold going, pgood. cbn [lr_c lr_p lr_ok].
      rewrite VD. repeat split; try assumption. rewrite Ds, S1. exact Gs.
  Qed.

  Lemma loop_run : forall fuel st, inv st ->
    fin (ls_loop orc cfg fuel st) /\
    (Z.max 0 (maxev - (lr_fc st + lr_gc st)) < Z.of_nat fuel -> lr_exit (ls_loop orc cfg fuel st) <> EX_FUEL).
  Proof.
    induction fuel as [|k IH]; intros st I.
    - cbn [ls_loop]. split; [|intros L; cbn in L; lia].
      destruct I as (C & G & J). unfold fin.
      destruct (set_exit_fields st EX_FUEL) as (F1 & F2 & F3 & F4 & F5 & F6 & F7 & F8 & F9 & F10).
      unfold common, going, pgood in *. rewrite F1, F2, F3, F4, F5, F6, F7, F9.
      split; [exact C|]. split; [lia|]. right. right. right. split; [reflexivity|exact G].
    - cbn [ls_loop]. rewrite loop_cond_spec.
      destruct (lr_fc st + lr_gc st <? maxev) eqn:L.
      + apply Z.ltb_lt in L. pose proof (iter_step st I L) as (ST & GO).
        destruct (ls_iter orc cfg st) as [st' stop] eqn:E. cbn [fst snd] in ST, GO.
        destruct stop.
        * split; [apply ST; reflexivity|]. intros _. cbn. discriminate.
        * destruct (GO eq_refl) as (I' & INC). destruct (IH st' I') as (F & NF).
          split; [exact F|]. intros M. apply NF. lia.
      + apply Z.ltb_ge in L. split.
        * destruct I as (C & G & J). unfold fin.
          destruct (set_exit_fields st EX_BUDGET) as (F1 & F2 & F3 & F4 & F5 & F6 & F7 & F8 & F9 & F10).
          unfold common, going, pgood in *. rewrite F1, F2, F3, F4, F5, F6, F7, F9.
          split; [exact C|]. split; [lia|]. right. right. left. split; [reflexivity|]. split; [exact G|lia].
        * intros _. cbn. discriminate.
  Qed.

  (* the construction of the state and the first done() *)
  Lemma init_run x0 :
    let st := fst (ls_init orc cfg x0) in
    (snd (ls_init orc cfg x0) = true -> fin st) /\ (snd (ls_init orc cfg x0) = false -> inv st) /\ sx (lr_c st) = x0 /\ (sfx (lr_c st), sgx (lr_c st)) = o_eval orc 0 x0 /\ lr_irreg st = false.
  Proof.
    unfold ls_init. destruct (o_eval orc 0 x0) as [f g] eqn:EV.
    unfold eval_counters. rewrite k_fn_fcalls, k_fn_gcalls. simpl Z.eqb. cbv iota. simpl Z.add.
    set (c := mkS x0 f g true ST_MAX_ITERS 1 1 []).
    set (cv := PrimFloat.ltb (gradient_test c) eps).
    pose proof (done_decision c 1 1 true cv) as (Dstop & Dgo & Dst & Dfc & Dgc & Dx & Dfx & Dgx).
    assert (VD : valid (fst (done_step c 1 1 true cv)) = valid c).
    { apply done_step_valid. }
    assert (GT : gradient_test (fst (done_step c 1 1 true cv)) = gradient_test c).
    { unfold gradient_test. rewrite Dgx, Dfx. reflexivity. }
    rewrite (surjective_pairing (done_step c 1 1 true cv)). cbn [fst snd].
    set (c' := fst (done_step c 1 1 true cv)) in *.
    assert (EVc : evaluated 1 c').
    { exists 0. split; [lia|]. rewrite Dx, Dfx, Dgx. exact EV. }
    assert (CM : common (mkLR c' c' 1 1 1 (-1)%float 0 true false EX_INIT)).
    { unfold common. cbn [lr_c lr_p lr_fc lr_gc lr_ne lr_iters]. repeat split; try lia; try assumption. }
    split; [|split; [|split; [|split]]].
    - intros ST. unfold fin. split; [exact CM|]. cbn [lr_c lr_p lr_fc lr_gc lr_ne lr_iters lr_ok lr_exit].
      split; [lia|]. left. repeat split. unfold stopped. cbn [lr_c lr_ok].
      specialize (Dst ST). rewrite ST in Dstop. rewrite VD, GT.
      destruct cv eqn:CV, (valid c) eqn:V1; cbn [andb] in Dst.
      + left. repeat split; assumption.
      + right. split; [exact Dst|right; reflexivity].
      + cbn in Dstop. discriminate.
      + right. split; [exact Dst|right; reflexivity].
    - intros GO. destruct (Dgo GO) as (Ds & Dv & _ & _).
      unfold inv. split; [exact CM|]. cbn [lr_c lr_p lr_fc lr_gc lr_ne lr_iters lr_ok].
      split; [|lia]. unfold going, pgood. cbn [lr_c lr_p lr_ok]. rewrite VD. repeat split; assumption.
    - exact Dx.
    - cbn [lr_c]. rewrite Dfx, Dgx. reflexivity.
    - reflexivity.
  Qed.

  Lemma run_fin fuel x0 :
    fin (ls_solver_run orc cfg fuel x0) /\
    (Z.max 0 (maxev - 2) < Z.of_nat fuel -> lr_exit (ls_solver_run orc cfg fuel x0) <> EX_FUEL).
  Proof.
    unfold ls_solver_run. pose proof (init_run x0) as (ST & GO & _).
    assert (EI : lr_exit (fst (ls_init orc cfg x0)) = EX_INIT).
    { unfold ls_init. destruct (o_eval orc 0 x0) as [f g]. destruct (eval_counters 0 0 true) as [fc gc].
      destruct (done_step _ _ _ _ _) as [c' stop]. reflexivity. }
    destruct (ls_init orc cfg x0) as [st stop]. cbn [fst snd] in ST, GO, EI. destruct stop.
    - split; [apply ST; reflexivity|]. intros _. rewrite EI. discriminate.
    - destruct (loop_run fuel st (GO eq_refl)) as (F & NF). split; [exact F|].
      intros M. apply NF. destruct (GO eq_refl) as ((Cne & _ & _ & Cb & _) & _ & J). lia.
  Qed.
End Run.

(* ------------------------------------------------------------------------------------------------------------- *)
(* 4. the theorems about whole runs                                                                              *)
(* ------------------------------------------------------------------------------------------------------------- *)
Section Theorems.
  Variable orc : oracles.
  Variable cfg : lsconf.
  Hypothesis Hmaxit : 0 < C07_Defs.maxit (lc_prm cfg).

  Local Notation maxev := (lc_maxev cfg).
  Local Notation LB := (ls_bound (lc_alg cfg) (C07_Defs.maxit (lc_prm cfg))).

  Lemma result_cases r :
    (ls_result cfg r = lr_c r /\ (lr_exit r = EX_INIT \/ lc_body cfg = BGd \/ valid (lr_c r) = true)) \/
    (ls_result cfg r = lr_p r /\ lr_exit r <> EX_INIT /\ lc_body cfg <> BGd /\ valid (lr_c r) = false).
  Proof.
    unfold ls_result. destruct (lr_exit r =? EX_INIT) eqn:E.
    - left. split; [reflexivity|left; apply Z.eqb_eq; exact E].
    - rewrite ret_current_spec. apply Z.eqb_neq in E.
      destruct (lc_body cfg) eqn:B; try (left; split; [reflexivity|right; left; reflexivity]);
        (destruct (valid (lr_c r)) eqn:V; [left; split; [reflexivity|right; right; reflexivity]|
                                           right; repeat split; try assumption; discriminate]).
  Qed.

  (* (1) termination within the budget *)
  Lemma lsloop_budget fuel x0 :
    let r := ls_solver_run orc cfg fuel x0 in
    (Z.max 0 (maxev - 2) < Z.of_nat fuel -> lr_exit r <> EX_FUEL) /\
    2 <= lr_fc r + lr_gc r <= Z.max 2 (maxev - 1 + (2 * LB + 1)) /\
    0 <= lr_iters r /\ 2 * lr_iters r <= lr_fc r + lr_gc r /\
    lr_ne r = lr_fc r /\
    sfcalls (ls_result cfg r) <= lr_fc r /\ sgcalls (ls_result cfg r) <= lr_gc r.
  Proof.
    intros r. destruct (run_fin orc cfg Hmaxit fuel x0) as (F & NF). fold r in F, NF.
    destruct F as ((Cne & Cne1 & Cit & Cb & Cec & Cep & Cfc & Cgc & Cpf & Cpg) & J & _).
    split; [exact NF|]. split; [exact Cb|]. split; [exact Cit|]. split; [exact J|]. split; [exact Cne|].
    destruct (result_cases r) as [(E & _)|(E & _)]; rewrite E; lia.
  Qed.

  Lemma ls_fuel_enough : Z.max 0 (maxev - 2) < Z.of_nat (ls_fuel cfg).
  Proof. unfold ls_fuel. rewrite Nat2Z.inj_succ. pose proof (Zle_0_nat (Z.to_nat maxev)). destruct (Z_le_gt_dec maxev 0); [|rewrite Z2Nat.id by lia]; lia. Qed.

  (* (2) the returned triple is an answer of the oracle at the returned point *)
  Lemma lsloop_honest fuel x0 :
    let r := ls_solver_run orc cfg fuel x0 in
    let s := ls_result cfg r in
    exists k, 0 <= k < lr_ne r /\ o_eval orc k (sx s) = (sfx s, sgx s).
  Proof.
    intros r s. destruct (run_fin orc cfg Hmaxit fuel x0) as (F & _). fold r in F.
    destruct F as ((Cne & Cne1 & Cit & Cb & Cec & Cep & _) & _).
    subst s. destruct (result_cases r) as [(E & _)|(E & _)]; rewrite E; assumption.
  Qed.

  (* (4) status facts *)
  Lemma lsloop_status fuel x0 :
    let r := ls_solver_run orc cfg fuel x0 in
    let s := ls_result cfg r in
    status_ok (sstatus s) /\
    (sstatus s = ST_CONVERGED -> valid s = true /\ PrimFloat.ltb (gradient_test s) (lc_eps cfg) = true /\ lr_ok r = true) /\
    (sstatus s = ST_FAILED -> s = lr_c r /\ (lr_ok r = false \/ valid s = false)) /\
    (sstatus s = ST_MAX_ITERS ->
       valid s = true /\
       (lr_exit r = EX_BUDGET \/ lr_exit r = EX_FUEL \/ (lc_body cfg <> BGd /\ valid (lr_c r) = false /\ s = lr_p r))) /\
    (lc_body cfg <> BGd -> lr_exit r <> EX_INIT -> valid s = true).
  Proof.
    intros r s. destruct (run_fin orc cfg Hmaxit fuel x0) as (F & _). fold r in F.
    destruct F as (_ & _ & K). subst s. unfold status_ok, stopped, going, pgood in *.
    destruct (result_cases r) as [(E & W)|(E & W1 & W2 & W3)]; rewrite E.
    - destruct K as [(X & _ & _ & S)|[(X & S & P)|[(X & (G1 & G2 & G3 & G4 & G5) & _)|(X & (G1 & G2 & G3 & G4 & G5))]]].
      + destruct S as [(S1 & S2 & S3 & S4)|(S1 & S2)]; rewrite S1; unfold ST_CONVERGED, ST_FAILED, ST_MAX_ITERS;
          repeat split; auto; try discriminate; try (intros; congruence).
      + destruct S as [(S1 & S2 & S3 & S4)|(S1 & S2)]; rewrite S1; unfold ST_CONVERGED, ST_FAILED, ST_MAX_ITERS;
          repeat split; auto; try discriminate; try (intros; congruence).
        intros NB NI. destruct W as [W|[W|W]]; [congruence|congruence|exact W].
      + rewrite G2. unfold ST_CONVERGED, ST_FAILED, ST_MAX_ITERS; repeat split; auto; try discriminate.
      + rewrite G2. unfold ST_CONVERGED, ST_FAILED, ST_MAX_ITERS; repeat split; auto; try discriminate.
    - (* pstate is returned: cstate is invalid, hence done() stopped inside the loop *)
      destruct K as [(X & _)|[(X & S & (P1 & P2))|[(X & (G1 & _) & _)|(X & (G1 & _))]]]; try congruence.
      rewrite P2. unfold ST_CONVERGED, ST_FAILED, ST_MAX_ITERS; repeat split; auto; try discriminate.
  Qed.
End Theorems.

(* ------------------------------------------------------------------------------------------------------------- *)
(* 5. binary64: state.cpp's Armijo test with a non-negative step, c1 > 0 and a descent direction bounds the new    *)
(*    value by the old one (monotonicity of rounding, Flocq)                                                     *)
(* ------------------------------------------------------------------------------------------------------------- *)
Section ArmijoFloat.
  Local Open Scope R_scope.
  Local Notation pfin := Coq.Floats.PrimFloat.is_finite.
  Local Notation R_of := C07_Real.R_of.
  Local Notation rnd := C07_Real.rnd.

  Lemma mul_finite_inv x y : pfin (PrimFloat.mul x y) = true -> pfin x = true /\ pfin y = true.
  Proof.
    rewrite !is_finite_equiv, mul_equiv. intros F.
    pose proof (Bmult_correct prec emax Hprec Hmax mode_NE (Prim2B x) (Prim2B y)) as C.
    destruct (Rlt_bool _ _) in C.
    - destruct C as (_ & C & _). rewrite C in F. apply andb_true_iff in F. exact F.
    - apply C07_Real.overflow_not_finite in C. rewrite C in F. discriminate.
  Qed.

  Lemma add_finite_inv x y : pfin (PrimFloat.add x y) = true -> pfin x = true /\ pfin y = true.
  Proof.
    rewrite !is_finite_equiv, add_equiv.
    destruct (Prim2B x) as [sx|sx| |sx mx ex Hx], (Prim2B y) as [sy|sy| |sy my ey Hy]; simpl; intros F;
      try discriminate; try (split; reflexivity).
    destruct sx, sy; simpl in F; discriminate.
  Qed.

  Lemma R_of_zero : R_of PrimFloat.zero = 0.
  Proof. unfold C07_Real.R_of. rewrite zero_equiv, Prim2B_B2Prim. reflexivity. Qed.

  Lemma rnd_id x : pfin x = true -> rnd (R_of x) = R_of x.
  Proof.
    intros _. unfold C07_Real.rnd, C07_Real.R_of. apply round_generic; auto with typeclass_instances.
    apply (generic_format_B2R prec emax).
  Qed.

  Lemma rnd_le a b : a <= b -> rnd a <= rnd b.
  Proof.
    intros L. unfold C07_Real.rnd. pose proof (fexp_correct prec emax Hprec) as VE.
    apply round_le; auto with typeclass_instances.
  Qed.

  Lemma rnd_0 : rnd 0 = 0.
  Proof. unfold C07_Real.rnd. apply round_0. auto with typeclass_instances. Qed.

  Lemma armijo_decrease_fin fx f0 t c1 dg :
    pfin fx = true -> pfin f0 = true ->
    pfin (PrimFloat.add f0 (PrimFloat.mul (PrimFloat.mul t c1) dg)) = true ->
    PrimFloat.ltb PrimFloat.zero c1 = true -> PrimFloat.ltb t PrimFloat.zero = false ->
    PrimFloat.ltb dg PrimFloat.zero = true ->
    PrimFloat.leb fx (PrimFloat.add f0 (PrimFloat.mul (PrimFloat.mul t c1) dg)) = true ->
    PrimFloat.leb fx f0 = true.
  Proof.
    intros Ffx Ff0 FS C T G H.
    destruct (add_finite_inv _ _ FS) as [_ FP]. destruct (mul_finite_inv _ _ FP) as [FA FG].
    destruct (mul_finite_inv _ _ FA) as [FT FC].
    assert (FZ : pfin PrimFloat.zero = true) by reflexivity.
    apply fin_leb; auto.
    pose proof (C07_Real.leb_real _ _ Ffx FS H) as HR.
    rewrite (C07_Real.add_real _ _ Ff0 FP FS), (C07_Real.mul_real _ _ FP), (C07_Real.mul_real _ _ FA) in HR.
    apply (fin_ltb _ _ FZ FC) in C. apply (fin_ltb _ _ FG FZ) in G.
    assert (T' : 0 <= R_of t).
    { destruct (Rle_or_lt 0 (R_of t)) as [L|L]; [exact L|]. exfalso.
      assert (X : PrimFloat.ltb t PrimFloat.zero = true) by (apply (fin_ltb _ _ FT FZ); unfold FR; fold (R_of t); rewrite <- R_of_zero in L; exact L).
      congruence. }
    unfold FR in C, G. fold (R_of c1) (R_of PrimFloat.zero) (R_of dg) in C, G. rewrite R_of_zero in C, G.
    unfold FR. fold (R_of fx) (R_of f0).
    assert (A : 0 <= rnd (R_of t * R_of c1)).
    { rewrite <- rnd_0. apply rnd_le. apply Rmult_le_pos; lra. }
    assert (P : rnd (rnd (R_of t * R_of c1) * R_of dg) <= 0).
    { rewrite <- rnd_0. apply rnd_le.
      replace 0 with (rnd (R_of t * R_of c1) * 0) by ring. apply Rmult_le_compat_l; lra. }
    assert (S : rnd (R_of f0 + rnd (rnd (R_of t * R_of c1) * R_of dg)) <= R_of f0).
    { rewrite <- (rnd_id f0 Ff0) at 2. apply rnd_le. lra. }
    lra.
  Qed.
End ArmijoFloat.

(* ------------------------------------------------------------------------------------------------------------- *)
(* 6. (3) monotone decrease with an Armijo-type line search                                                      *)
(* ------------------------------------------------------------------------------------------------------------- *)
Section Decrease.
  Variable orc : oracles.
  Variable cfg : lsconf.
  Hypothesis Hmaxit : 0 < C07_Defs.maxit (lc_prm cfg).
  Hypothesis Harm : armijo_type (lc_alg cfg) = true.
  Hypothesis Hc1 : PrimFloat.ltb PrimFloat.zero (C07_Defs.c1 (lc_prm cfg)) = true.
  Local Notation pfin := Coq.Floats.PrimFloat.is_finite.
  Local Notation prm := (lc_prm cfg).

  (* one accepted line search: the new value is not larger than the old one, in binary64 *)
  Lemma step_decrease st :
    okr (it_r orc cfg st) = true ->
    step_regular prm (it_p0 orc cfg st) (rt (it_r orc cfg st)) = true ->
    pfin (sfx (lr_c st)) = true ->
    PrimFloat.leb (sfx (it_c1 orc cfg st)) (sfx (lr_c st)) = true.
  Proof.
    intros OK REG F0.
    destruct (it_ok_probe orc cfg Hmaxit st OK) as (_ & V1 & PF & DG).
    destruct (C07_Proofs.ls_get_ok _ _ _ _ _ Hmaxit OK) as [_ ADV].
    fold (it_r orc cfg st) in ADV.
    assert (ARM : C07_Defs.armijo prm (it_p0 orc cfg st) (rs (it_r orc cfg st)) (rt (it_r orc cfg st)) = true).
    { unfold C07_Proofs.advertised in ADV. destruct (lc_alg cfg); try discriminate Harm; tauto. }
    unfold C07_Defs.armijo in ARM. rewrite C07_Proofs.has_armijo_spec, PF in ARM.
    unfold step_regular in REG. apply andb_true_iff in REG. destruct REG as [TN FS].
    apply negb_true_iff in TN.
    destruct (valid_parts _ V1) as (F1 & _).
    change (C07_Defs.pf (it_p0 orc cfg st)) with (sfx (lr_c st)) in ARM, FS.
    eapply armijo_decrease_fin; eauto.
  Qed.

  Variable x0 : point.
  Local Notation f0 := (fst (o_eval orc 0 x0)).

  Definition dinv (st : lsrun) : Prop :=
    pfin f0 = true /\
    (lr_irreg st = false -> PrimFloat.leb (sfx (lr_c st)) f0 = true /\ PrimFloat.leb (sfx (lr_p st)) f0 = true).

  Definition dfin (r : lsrun) : Prop :=
    lr_irreg r = false ->
    (valid (lr_p r) = true -> PrimFloat.leb (sfx (lr_p r)) f0 = true) /\
    (lr_ok r = true -> valid (lr_c r) = true -> PrimFloat.leb (sfx (lr_c r)) f0 = true).

  Lemma valid_fin s : valid s = true -> pfin (sfx s) = true.
  Proof. intros V. destruct (valid_parts _ V) as (F & _). exact F. Qed.

  Lemma dloop : forall fuel st, inv orc cfg st -> dinv st -> dfin (ls_loop orc cfg fuel st).
  Proof.
    induction fuel as [|k IH]; intros st I D.
    - cbn [ls_loop]. unfold dfin. destruct (set_exit_fields st EX_FUEL) as (F1 & F2 & F3 & F4 & F5 & F6 & F7 & F8 & F9 & F10).
      rewrite F1, F2, F7, F8. intros IR. destruct D as (_ & D). destruct (D IR). split; auto.
    - cbn [ls_loop]. rewrite loop_cond_spec.
      destruct (lr_fc st + lr_gc st <? lc_maxev cfg) eqn:L.
      + apply Z.ltb_lt in L. pose proof (iter_step orc cfg Hmaxit st I L) as (ST & GO).
        pose proof (ls_iter_spec orc cfg st) as SP.
        destruct I as (C & (Gv & Gs & Gok & Gpv & Gps) & J).
        pose proof (done_decision (it_c1 orc cfg st) (it_fc1 orc cfg st) (it_gc1 orc cfg st) (okr (it_r orc cfg st)) (it_conv orc cfg st))
          as (Dstop & Dgo & Dst & Dfc & Dgc & Dx & Dfx & Dgx).
        fold (it_done orc cfg st) in Dstop, Dgo, Dst, Dfc, Dgc, Dx, Dfx, Dgx.
        assert (VD : valid (fst (it_done orc cfg st)) = valid (it_c1 orc cfg st)).
        { unfold it_done. apply done_step_valid. }
        destruct D as (FF & D).
        (* the facts about the pass, whatever done() answers *)
        assert (STEP : lr_irreg st || (okr (it_r orc cfg st) && negb (step_regular prm (it_p0 orc cfg st) (rt (it_r orc cfg st)))) = false ->
                       PrimFloat.leb (sfx (lr_c st)) f0 = true /\
                       (okr (it_r orc cfg st) = true -> valid (it_c1 orc cfg st) = true ->
                        PrimFloat.leb (sfx (it_c1 orc cfg st)) f0 = true)).
        { intros IR. apply orb_false_iff in IR. destruct IR as (IR & RG). destruct (D IR) as (Lc & Lp).
          split; [exact Lc|]. intros OK V1. rewrite OK in RG. cbn [andb] in RG. apply negb_false_iff in RG.
          pose proof (step_decrease st OK RG (valid_fin _ Gv)) as SD.
          eapply fin_leb_trans; [apply valid_fin; exact V1|apply valid_fin; exact Gv|exact FF|exact SD|exact Lc]. }
        destruct (ls_iter orc cfg st) as [st' stop] eqn:E. cbn [fst snd] in ST, GO.
        injection SP as SP1 SP2. destruct stop.
        * unfold dfin. destruct (set_exit_fields st' EX_DONE) as (F1 & F2 & F3 & F4 & F5 & F6 & F7 & F8 & F9 & F10).
          rewrite F1, F2, F7, F8. subst st'. cbn [lr_c lr_p lr_ok lr_irreg]. intros IR.
          destruct (STEP IR) as (Lc & L1). split; [intros _; exact Lc|].
          intros OK V. rewrite Dfx. apply L1; [exact OK|]. rewrite <- VD. exact V.
        * destruct (GO eq_refl) as (I' & _). apply IH; [exact I'|].
          unfold dinv. split; [exact FF|]. subst st'. cbn [lr_c lr_p lr_irreg]. intros IR.
          destruct (STEP IR) as (Lc & L1). split; [|exact Lc].
          rewrite Dfx. rewrite <- SP2 in Dgo. destruct (Dgo eq_refl) as (_ & V1 & OK & _). apply L1; assumption.
      + unfold dfin. destruct (set_exit_fields st EX_BUDGET) as (F1 & F2 & F3 & F4 & F5 & F6 & F7 & F8 & F9 & F10).
        rewrite F1, F2, F7, F8. intros IR. destruct D as (_ & D). destruct (D IR). split; auto.
  Qed.

  Lemma drun fuel : dfin (ls_solver_run orc cfg fuel x0).
  Proof.
    unfold ls_solver_run. pose proof (init_run orc cfg x0) as (ST & GO & EX & EF & IR0).
    destruct (ls_init orc cfg x0) as [st stop] eqn:E. cbn [fst snd] in *.
    assert (PC : lr_p st = lr_c st).
    { unfold ls_init in E. destruct (o_eval orc 0 x0) as [f g]. destruct (eval_counters 0 0 true) as [fc gc].
      destruct (done_step _ _ _ _ _) as [c' s']. injection E as E1 E2. subst st. reflexivity. }
    assert (F0 : sfx (lr_c st) = f0) by (rewrite <- EF; reflexivity).
    destruct stop.
    - unfold dfin. intros _. rewrite PC, F0. split.
      + intros V. apply fin_leb_refl. rewrite <- F0. apply valid_fin. exact V.
      + intros _ V. apply fin_leb_refl. rewrite <- F0. apply valid_fin. exact V.
    - pose proof (GO eq_refl) as I. apply dloop; [exact I|].
      destruct I as (_ & (Gv & _) & _). unfold dinv. rewrite PC, F0.
      assert (FF : pfin f0 = true) by (rewrite <- F0; apply valid_fin; exact Gv).
      split; [exact FF|]. intros _. split; apply fin_leb_refl; exact FF.
  Qed.

  (* the returned value is not larger than the starting value unless the run failed (after repo commit 85997bc a failed line
     search can no longer end in `converged`) *)
  Lemma lsloop_not_worse fuel :
    let r := ls_solver_run orc cfg fuel x0 in
    let s := ls_result cfg r in
    lr_irreg r = false -> sstatus s <> ST_FAILED ->
    PrimFloat.leb (sfx s) f0 = true.
  Proof.
    intros r s IR NF. pose proof (drun fuel) as D. fold r in D. destruct (D IR) as (Dp & Dc).
    pose proof (lsloop_status orc cfg Hmaxit fuel x0) as (SO & SC & _ & SM & _). fold r in SO, SC, SM. fold s in SO, SC, SM.
    destruct (run_fin orc cfg Hmaxit fuel x0) as ((_ & _ & K) & _). fold r in K.
    assert (ST : sstatus s = ST_MAX_ITERS \/ sstatus s = ST_CONVERGED) by (destruct SO as [X|[X|X]]; auto; contradiction).
    subst s. destruct (result_cases cfg r) as [(E & W)|(E & W)]; rewrite E in *.
    - destruct ST as [S|S].
      + destruct (SM S) as (V & X). apply Dc; [|exact V].
        unfold going, stopped in K.
        destruct K as [(X1 & _ & _ & [(S1 & _)|(S1 & _)])|[(X1 & [(S1 & _)|(S1 & _)] & _)|[(X1 & (_ & _ & G3 & _) & _)|(X1 & (_ & _ & G3 & _))]]];
          try exact G3; rewrite S1 in S; discriminate S.
      + destruct (SC S) as (V & _ & OK). apply Dc; assumption.
    - destruct ST as [S|S].
      + destruct (SM S) as (V & _). apply Dp. exact V.
      + destruct (SC S) as (V & _). apply Dp. exact V.
  Qed.
End Decrease.

(* ------------------------------------------------------------------------------------------------------------- *)
(* 7. the per-pass statements in terms of ls_iter itself                                                         *)
(* ------------------------------------------------------------------------------------------------------------- *)
Section PerPass.
  Variable orc : oracles.
  Variable cfg : lsconf.
  Hypothesis Hmaxit : 0 < C07_Defs.maxit (lc_prm cfg).
  Local Notation pfin := Coq.Floats.PrimFloat.is_finite.

  Lemma iter_fields st :
    let st' := fst (ls_iter orc cfg st) in
    lr_ok st' = okr (it_r orc cfg st) /\ sfx (lr_c st') = sfx (it_c1 orc cfg st) /\
    lr_irreg st' = (lr_irreg st || (okr (it_r orc cfg st) && negb (step_regular (lc_prm cfg) (it_p0 orc cfg st) (rt (it_r orc cfg st))))) /\
    lr_p st' = lr_c st /\ lr_last st' = rt (it_r orc cfg st).
  Proof.
    rewrite ls_iter_spec. cbn [fst lr_ok lr_c lr_irreg lr_p lr_last].
    pose proof (done_decision (it_c1 orc cfg st) (it_fc1 orc cfg st) (it_gc1 orc cfg st) (okr (it_r orc cfg st)) (it_conv orc cfg st))
      as (_ & _ & _ & _ & _ & _ & Dfx & _).
    repeat split. exact Dfx.
  Qed.

  (* every accepted iterate of an Armijo-type search: f_{k+1} <= f_k in binary64 *)
  Lemma iter_decrease st :
    armijo_type (lc_alg cfg) = true -> PrimFloat.ltb PrimFloat.zero (C07_Defs.c1 (lc_prm cfg)) = true ->
    let st' := fst (ls_iter orc cfg st) in
    lr_ok st' = true -> lr_irreg st' = false -> pfin (sfx (lr_c st)) = true ->
    PrimFloat.leb (sfx (lr_c st')) (sfx (lr_c st)) = true.
  Proof.
    intros A C st'. destruct (iter_fields st) as (E1 & E2 & E3 & _). fold st' in E1, E2, E3.
    rewrite E1, E2, E3. intros OK IR F. apply orb_false_iff in IR. destruct IR as (_ & IR).
    rewrite OK in IR. cbn [andb] in IR. apply negb_false_iff in IR.
    apply step_decrease; assumption.
  Qed.

  (* CG_DESCENT (the default lsearchk): what an accepted iterate carries -- Armijo, or the approximate Armijo bound
     f_k + epsilon * |f_k| (the slack the property allows for), or "bracketing failed" (no acceptance condition evaluated) *)
  Lemma iter_cg_slack st :
    lc_alg cfg = C07_Defs.CGDescent ->
    let st' := fst (ls_iter orc cfg st) in
    lr_ok st' = true ->
    let f0 := sfx (lr_c st) in
    let f := sfx (lr_c st') in
    let t := lr_last st' in
    PrimFloat.leb f (PrimFloat.add f0 (PrimFloat.mul (PrimFloat.mul t (C07_Defs.c1 (lc_prm cfg))) (C07_Defs.pg (it_p0 orc cfg st)))) = true \/
    PrimFloat.leb f (PrimFloat.add f0 (PrimFloat.mul (C07_Defs.cg_epsilon (lc_prm cfg)) (PrimFloat.abs f0))) = true \/
    exists iv, C07_Defs.rx (it_r orc cfg st) = C07_Defs.XCG iv true.
  Proof.
    intros A st'. destruct (iter_fields st) as (E1 & E2 & _ & _ & E5). fold st' in E1, E2, E5.
    rewrite E1, E2, E5. intros OK.
    destruct (it_ok_probe orc cfg Hmaxit st OK) as (_ & _ & PF & _).
    unfold it_r in OK, PF |- *. rewrite A in OK, PF |- *.
    pose proof (C07_CG.ls_get_cg_cases _ _ _ _ OK) as (_ & iv & br & RX & _ & _ & K).
    cbv zeta in K. rewrite C07_Proofs.has_armijo_spec, C07_Proofs.has_approx_armijo_spec, !PF in K.
    change (C07_Defs.pf (it_p0 orc cfg st)) with (sfx (lr_c st)) in K.
    destruct K as [(_ & _ & K & _)|[(_ & _ & K & _)|(B & _)]].
    - left. exact K.
    - right. left. exact K.
    - right. right. exists iv. rewrite RX, B. reflexivity.
  Qed.
End PerPass.
