(* C01 (stage C01CG) -- the conjugate-gradient direction of the ten cgd solvers (src/solver/cgd.cpp).
   Only statements + `exact` + Print Assumptions live here.  Model: C01CG_Defs (the ten beta formulas as written, which
   formula each solver id returns, the candidate -g + beta pd, the restart test !has_descent(d) || |g.pg| >= orthotest g.g
   -- translated from the source on every run --, the first-iteration branch and the book-keeping), generic over the record
   of field operations of C01Q_Defs; extracted at the canonical rationals and run against every ev_cgd_direction hook event
   of the real solvers on every run.  Proofs: C01CG_Proofs.

   Every theorem is stated for ALL dimensions, ALL vectors (also a garbage previous gradient / direction), ALL beta values,
   over ANY ordered field [OF : ordered_field FO] (C01Q_instance_Qc / C01Q_instance_R of Properties_C01Q are the instances
   used).   a.b is [dot FO a b];  x > 0 is [of_pos OF x];  x >= 0 is [nonneg FO (of_pos OF) x];  g <> 0 is
   [g <> zeros FO (length g)].

   NOT proved (compared on every run): floating-point rounding of Eigen's evaluation of the same formulas.  The two
   Euclidean norms read by the N formula are inputs of the model (pd2, pg2). *)
From Coq Require Import List ZArith QArith Qcanon Reals.
From LNGen Require Import Src_c01cg.
From LN Require Import C01Q_Defs C01Q_Proofs C01CG_Defs C01CG_Proofs.
Import ListNotations.

(* ---- (1) the CHOSEN direction is a descent direction ------------------------------------------------------------------ *)
(* one pass through the direction block of solver_cgd_t::do_minimize, from ANY loop state (first iteration or not, any
   previous gradient / direction, any solver id, any eta / orthotest / norms): g <> 0 => g.d < 0.  This is what makes the
   line search's refusal of a non-descent direction (lsearchk_t::get) unreachable from cgd *)
Theorem C01CG_descent : forall F (FO : fops F) (OF : ordered_field FO) k eta orthotest pd2 pg2 st g,
  g <> zeros FO (length g) ->
  of_pos OF (fopp FO (dot FO g (snd (cg_step FO k eta orthotest pd2 pg2 st g)))).
Proof.
  intros F FO OF.
  exact (descent_step F FO (of_th OF) (of_pos OF) (of_add OF) (of_mul OF) (of_cases OF) (of_0 OF) (of_cmp OF)).
Qed.
Print Assumptions C01CG_descent.

(* every direction of every run of the loop: any start state, any sequence of non-zero gradients (whatever the line search
   returned), any sequence of norm inputs *)
Theorem C01CG_descent_run : forall F (FO : fops F) (OF : ordered_field FO) k eta orthotest gs norms st,
  Forall (fun g => g <> zeros FO (length g)) gs ->
  Forall2 (fun g d => of_pos OF (fopp FO (dot FO g d))) gs (cg_run FO k eta orthotest norms st gs).
Proof.
  intros F FO OF.
  exact (descent_run F FO (of_th OF) (of_pos OF) (of_add OF) (of_mul OF) (of_cases OF) (of_0 OF) (of_cmp OF)).
Qed.
Print Assumptions C01CG_descent_run.

(* ---- (2) the restart: -g exactly when it fired; otherwise the candidate, with both tests passed ----------------------- *)
Theorem C01CG_restart_spec : forall F (FO : fops F) (OF : ordered_field FO) orthotest beta pg pd g,
  let '(d, restarted) := cg_choose FO orthotest beta pg pd g in
  (restarted = true -> d = vopp FO g /\
     (nonneg FO (of_pos OF) (dot FO g (cg_candidate FO beta g pd)) \/
      nonneg FO (of_pos OF) (fsub FO (fabs FO (dot FO g pg)) (fmul FO orthotest (dot FO g g))))) /\
  (restarted = false -> d = cg_candidate FO beta g pd /\ of_pos OF (fopp FO (dot FO g d)) /\
     of_pos OF (fsub FO (fmul FO orthotest (dot FO g g)) (fabs FO (dot FO g pg)))).
Proof.
  intros F FO OF.
  exact (cg_choose_spec F FO (of_th OF) (of_pos OF) (of_add OF) (of_cases OF) (of_0 OF) (of_cmp OF)).
Qed.
Print Assumptions C01CG_restart_spec.

(* the book-keeping of the loop: first iteration -g; afterwards cg_choose on the beta of this solver id computed from the
   stored previous gradient and direction; the new state stores g and the chosen direction *)
Theorem C01CG_step_state : forall F (FO : fops F) k eta orthotest pd2 pg2 st g,
  let '(st', d) := cg_step FO k eta orthotest pd2 pg2 st g in
  cs_pg st' = g /\ cs_pd st' = d /\ cs_cd st' = d /\
  (cs_cd st = [] -> d = vopp FO g) /\
  (cs_cd st <> [] ->
     (d, true) = cg_choose FO orthotest (cg_beta FO k eta pd2 pg2 (cs_pg st) (cs_pd st) g) (cs_pg st) (cs_pd st) g \/
     (d, false) = cg_choose FO orthotest (cg_beta FO k eta pd2 pg2 (cs_pg st) (cs_pd st) g) (cs_pg st) (cs_pd st) g).
Proof. exact cg_step_state. Qed.
Print Assumptions C01CG_step_state.

(* ---- (3) the classical identities --------------------------------------------------------------------------------------- *)
(* exact previous line search (g.pd = 0) along a direction generated from its gradient (pd.pg = -pg.pg, pg <> 0):
   FR = CD = DY  and  PR = HS = LS *)
Theorem C01CG_exact_line_search_families : forall F (FO : fops F) (OF : ordered_field FO) pg pd g,
  dot FO g pd = f0 FO -> dot FO pd pg = fopp FO (dot FO pg pg) -> dot FO pg pg <> f0 FO ->
  (beta_CD FO pg pd g = beta_FR FO pg pd g /\ beta_DY FO pg pd g = beta_FR FO pg pd g) /\
  (beta_HS FO pg pd g = beta_PR FO pg pd g /\ beta_LS FO pg pd g = beta_PR FO pg pd g).
Proof.
  intros F FO OF pg pd g J1 J2 N. split.
  - exact (exact_ls_fr_cd_dy F FO (of_th OF) pg pd g J1 J2 N).
  - exact (exact_ls_pr_hs_ls F FO (of_th OF) pg pd g J1 J2 N).
Qed.
Print Assumptions C01CG_exact_line_search_families.

(* HS satisfies the conjugacy condition d.y = 0, y = g - pg (pd.y <> 0); so does the solver's HS+ whenever HS >= 0 *)
Theorem C01CG_hs_conjugacy : forall F (FO : fops F) (OF : ordered_field FO) eta pd2 pg2 pg pd g,
  dot FO pd (vsub FO g pg) <> f0 FO ->
  dot FO (cg_candidate FO (beta_HS FO pg pd g) g pd) (vsub FO g pg) = f0 FO /\
  (nonneg FO (of_pos OF) (beta_HS FO pg pd g) ->
   dot FO (cg_candidate FO (cg_beta FO CK_HS eta pd2 pg2 pg pd g) g pd) (vsub FO g pg) = f0 FO).
Proof.
  intros F FO OF eta pd2 pg2 pg pd g N. split.
  - exact (hs_conjugacy F FO (of_th OF) pg pd g N).
  - exact (hs_plus_conjugacy F FO (of_th OF) (of_pos OF) (of_add OF) (of_cases OF) (of_0 OF) (of_cmp OF) eta pd2 pg2 pg pd g N).
Qed.
Print Assumptions C01CG_hs_conjugacy.

(* Dai-Yuan: g.d = beta_DY * (pd.pg); hence a descent direction whenever pd.pg < 0 and pd.y > 0 (Wolfe), no restart needed *)
Theorem C01CG_dy_descent : forall F (FO : fops F) (OF : ordered_field FO) pg pd g,
  (dot FO pd (vsub FO g pg) <> f0 FO ->
   dot FO g (cg_candidate FO (beta_DY FO pg pd g) g pd) = fmul FO (beta_DY FO pg pd g) (dot FO pd pg)) /\
  (of_pos OF (fopp FO (dot FO pd pg)) -> of_pos OF (dot FO pd (vsub FO g pg)) -> g <> zeros FO (length g) ->
   of_pos OF (fopp FO (dot FO g (cg_candidate FO (beta_DY FO pg pd g) g pd)))).
Proof.
  intros F FO OF pg pd g. split.
  - exact (dy_identity F FO (of_th OF) pg pd g).
  - exact (dy_descent F FO (of_th OF) (of_pos OF) (of_add OF) (of_mul OF) (of_cases OF) (of_0 OF) pg pd g).
Qed.
Print Assumptions C01CG_dy_descent.

(* FRPR: the three-way expression is the clamp of PR to [-FR, FR]:  |beta| <= FR, and beta = PR inside the interval *)
Theorem C01CG_frpr_clamp : forall F (FO : fops F) (OF : ordered_field FO) pg pd g,
  pg <> zeros FO (length pg) ->
  (nonneg FO (of_pos OF) (fsub FO (beta_FR FO pg pd g) (beta_FRPR FO pg pd g)) /\
   nonneg FO (of_pos OF) (fadd FO (beta_FRPR FO pg pd g) (beta_FR FO pg pd g))) /\
  (nonneg FO (of_pos OF) (fsub FO (beta_FR FO pg pd g) (beta_PR FO pg pd g)) ->
   nonneg FO (of_pos OF) (fadd FO (beta_PR FO pg pd g) (beta_FR FO pg pd g)) ->
   beta_FRPR FO pg pd g = beta_PR FO pg pd g).
Proof.
  intros F FO OF pg pd g N. split.
  - exact (frpr_bounds F FO (of_th OF) (of_pos OF) (of_add OF) (of_mul OF) (of_cases OF) (of_0 OF) (of_cmp OF) pg pd g N).
  - exact (frpr_clamp_id F FO (of_th OF) (of_pos OF) (of_add OF) (of_cases OF) (of_0 OF) (of_cmp OF) (beta_PR FO pg pd g) (beta_FR FO pg pd g)).
Qed.
Print Assumptions C01CG_frpr_clamp.

(* DYHS: 0 <= beta <= max(0, DY), unconditionally *)
Theorem C01CG_dyhs_bounds : forall F (FO : fops F) (OF : ordered_field FO) pg pd g,
  nonneg FO (of_pos OF) (beta_DYHS FO pg pd g) /\
  nonneg FO (of_pos OF) (fsub FO (fmax FO (f0 FO) (beta_DY FO pg pd g)) (beta_DYHS FO pg pd g)).
Proof.
  intros F FO OF.
  exact (dyhs_bounds F FO (of_th OF) (of_pos OF) (of_add OF) (of_cases OF) (of_0 OF) (of_cmp OF)).
Qed.
Print Assumptions C01CG_dyhs_bounds.

(* DYCD: when the previous direction was a descent direction (pd.pg < 0) the denominator max(pd.y, -pd.pg) is
   >= -pd.pg > 0, and 0 <= beta <= CD *)
Theorem C01CG_dycd_bounds : forall F (FO : fops F) (OF : ordered_field FO) pg pd g,
  of_pos OF (fopp FO (dot FO pd pg)) ->
  let den := fmax FO (dot FO pd (vsub FO g pg)) (fopp FO (dot FO pd pg)) in
  nonneg FO (of_pos OF) (fsub FO den (fopp FO (dot FO pd pg))) /\ of_pos OF den /\
  nonneg FO (of_pos OF) (beta_DYCD FO pg pd g) /\
  nonneg FO (of_pos OF) (fsub FO (beta_CD FO pg pd g) (beta_DYCD FO pg pd g)).
Proof.
  intros F FO OF.
  exact (dycd_bounds F FO (of_th OF) (of_pos OF) (of_add OF) (of_mul OF) (of_cases OF) (of_0 OF) (of_cmp OF)).
Qed.
Print Assumptions C01CG_dycd_bounds.

(* HS+, PR+, LS+ are non-negative, and every value the ten ids return is one of the written alternatives *)
Theorem C01CG_plus_nonneg : forall F (FO : fops F) (OF : ordered_field FO) eta pd2 pg2 pg pd g,
  nonneg FO (of_pos OF) (cg_beta FO CK_HS eta pd2 pg2 pg pd g) /\
  nonneg FO (of_pos OF) (cg_beta FO CK_PR eta pd2 pg2 pg pd g) /\
  nonneg FO (of_pos OF) (cg_beta FO CK_LS eta pd2 pg2 pg pd g).
Proof.
  intros F FO OF eta pd2 pg2 pg pd g.
  exact (plus_nonneg F FO (of_th OF) (of_pos OF) (of_add OF) (of_cases OF) (of_0 OF) (of_cmp OF) eta pd2 pg2 pg pd g).
Qed.
Print Assumptions C01CG_plus_nonneg.

(* N: beta >= eta' = -1 / (pd2 * min(eta, pg2)) (the clamp), and eta' < 0 for positive eta and norms *)
Theorem C01CG_n_clamp : forall F (FO : fops F) (OF : ordered_field FO) eta pd2 pg2 pg pd g,
  nonneg FO (of_pos OF) (fsub FO (beta_N FO eta pd2 pg2 pg pd g) (n_eta FO eta pd2 pg2)) /\
  (of_pos OF eta -> of_pos OF pd2 -> of_pos OF pg2 -> of_pos OF (fopp FO (n_eta FO eta pd2 pg2))).
Proof.
  intros F FO OF eta pd2 pg2 pg pd g. split.
  - exact (n_clamp F FO (of_th OF) (of_pos OF) (of_add OF) (of_cases OF) (of_0 OF) (of_cmp OF) eta pd2 pg2 pg pd g).
  - exact (n_eta_negative F FO (of_th OF) (of_pos OF) (of_add OF) (of_mul OF) (of_cases OF) (of_0 OF) (of_cmp OF) eta pd2 pg2).
Qed.
Print Assumptions C01CG_n_clamp.

(* Hager-Zhang sufficient descent  g.d <= -(7/8) g.g  ([f7 / f8] = 7/8): for the unclamped N formula when pd.y <> 0, and
   for the CLAMPED formula the solver uses when eta' <= 0; hence the candidate of cgd-n always passes has_descent (only the
   orthogonality test can restart cgd-n) *)
Theorem C01CG_hz_sufficient_descent : forall F (FO : fops F) (OF : ordered_field FO) eta pd2 pg2 pg pd g,
  dot FO pd (vsub FO g pg) <> f0 FO ->
  nonneg FO (of_pos OF)
    (fsub FO (fopp FO (fmul FO (fdiv FO (f7 F FO) (f8 F FO)) (dot FO g g)))
             (dot FO g (cg_candidate FO (beta_N_plain FO pg pd g) g pd))) /\
  (nonneg FO (of_pos OF) (fopp FO (n_eta FO eta pd2 pg2)) ->
   nonneg FO (of_pos OF)
     (fsub FO (fopp FO (fmul FO (fdiv FO (f7 F FO) (f8 F FO)) (dot FO g g)))
              (dot FO g (cg_candidate FO (beta_N FO eta pd2 pg2 pg pd g) g pd))) /\
   (g <> zeros FO (length g) ->
    cg_has_descent FO g (cg_candidate FO (cg_beta FO CK_N eta pd2 pg2 pg pd g) g pd) = true)).
Proof.
  intros F FO OF eta pd2 pg2 pg pd g N. split.
  - exact (hz_sufficient_descent F FO (of_th OF) (of_pos OF) (of_add OF) (of_mul OF) (of_cases OF) (of_0 OF) pg pd g N).
  - intros NE. split.
    + exact (n_sufficient_descent F FO (of_th OF) (of_pos OF) (of_add OF) (of_mul OF) (of_cases OF) (of_0 OF) (of_cmp OF) eta pd2 pg2 pg pd g N NE).
    + exact (n_has_descent F FO (of_th OF) (of_pos OF) (of_add OF) (of_mul OF) (of_cases OF) (of_0 OF) (of_cmp OF) eta pd2 pg2 pg pd g N NE).
Qed.
Print Assumptions C01CG_hz_sufficient_descent.

(* ---- linear conjugate gradients ------------------------------------------------------------------------------------------ *)
(* under the invariants of exact line searches (g.pd = 0, pd.pg = -pg.pg, g.pg = 0) ALL TEN solver ids return FR
   ([nrm] supplies the norms N reads: nrm v >= 0, nrm v ^ 2 = v.v) *)
Theorem C01CG_all_formulas_agree : forall F (FO : fops F) (OF : ordered_field FO) (nrm : vec F -> F) eta,
  (forall v, nonneg FO (of_pos OF) (nrm v) /\ fmul FO (nrm v) (nrm v) = dot FO v v) -> of_pos OF eta ->
  forall k pg pd g,
  pg <> zeros FO (length pg) -> g <> zeros FO (length g) ->
  dot FO g pd = f0 FO -> dot FO pd pg = fopp FO (dot FO pg pg) -> dot FO g pg = f0 FO ->
  cg_beta FO k eta (nrm pd) (nrm pg) pg pd g = beta_FR FO pg pd g.
Proof.
  intros F FO OF nrm eta NS PE.
  exact (cg_beta_exact_ls F FO (of_th OF) (of_pos OF) (of_add OF) (of_mul OF) (of_cases OF) (of_0 OF) (of_cmp OF) nrm NS eta PE).
Qed.
Print Assumptions C01CG_all_formulas_agree.

(* the solver's own direction block (cg_step: restart tests, clamps and first-iteration branch included), any solver id,
   iterated with exact line searches on a strictly convex quadratic (A symmetric positive definite, gradient g, next
   gradient g + t A d with t = -(g.d)/(d.Ad)), from the solver's initial state: as long as the gradients are non-zero the
   first direction is -g0 and, between consecutive iterations, the restart does not fire, the direction is -g + FR pd,
   it is A-CONJUGATE to the previous one (d.A pd = 0), and the gradient is orthogonal to the previous gradient and
   direction *)
Theorem C01CG_quadratic_conjugacy : forall F (FO : fops F) (OF : ordered_field FO) n (A : mat F) (nrm : vec F -> F) k eta orthotest,
  length A = n -> msym FO n A -> pd FO (of_pos OF) n A ->
  (forall v, nonneg FO (of_pos OF) (nrm v) /\ fmul FO (nrm v) (nrm v) = dot FO v v) ->
  of_pos OF eta -> of_pos OF orthotest ->
  forall g0 m, length g0 = n ->
  Forall (fun gd => fst gd <> zeros FO n) (cg_quad_run FO k eta orthotest nrm A cg_init g0 m) ->
  match cg_quad_run FO k eta orthotest nrm A cg_init g0 m with
  | [] => m = O
  | (g, d) :: rest => g = g0 /\ d = vopp FO g0 /\ cgq_chain F FO A (g, d) rest
  end.
Proof.
  intros F FO OF n A nrm k eta orthotest LA SA PA NS PE PO.
  exact (cg_quad_conjugate F FO (of_th OF) (of_pos OF) (of_add OF) (of_mul OF) (of_cases OF) (of_0 OF) (of_cmp OF)
           n A LA SA PA nrm NS k eta orthotest PE PO).
Qed.
Print Assumptions C01CG_quadratic_conjugacy.

(* ---- the translated kernels have the shape the model assumes ---------------------------------------------------------- *)
Theorem C01CG_kernels :
  ((forall hd agpg ot gg, src_cg_restart hd agpg ot gg = orb (negb hd) (Z.geb agpg (ot * gg))) /\
  (forall dg zero, src_state_has_descent dg zero = Z.ltb dg zero) /\
  (forall x, src_state_dg x = x) /\
  (forall size, src_cg_first size = Z.eqb size 0) /\
  (forall pr fr, src_cg_frpr_low pr fr = Z.ltb pr (- fr)) /\
  (forall apr fr, src_cg_frpr_mid apr fr = Z.leb apr fr) /\
  (forall gy pdy, src_cg_formula_hs gy pdy = Z.quot gy pdy) /\
  (forall gg pgpg, src_cg_formula_fr gg pgpg = Z.quot gg pgpg) /\
  (forall gy pgpg, src_cg_formula_pr gy pgpg = Z.quot gy pgpg) /\
  (forall gg pdpg, src_cg_formula_cd gg pdpg = Z.quot (- gg) pdpg) /\
  (forall gy pdpg, src_cg_formula_ls gy pdpg = Z.quot (- gy) pdpg) /\
  (forall gg pdy, src_cg_formula_dy gg pdy = Z.quot gg pdy) /\
  (forall gg pdy pdpg, src_cg_formula_dycd gg pdy pdpg = Z.quot gg (Z.max pdy (- pdpg))) /\
  (forall zero dy hs, src_cg_formula_dyhs zero dy hs = Z.max zero (Z.min dy hs)) /\
  (forall pr fr apr, src_cg_formula_frpr pr fr apr = if Z.ltb pr (- fr) then (- fr) else if Z.leb apr fr then pr else fr) /\
  (forall pdy, src_cg_n_div pdy = Z.quot 1 pdy) /\
  (forall cg pg, src_cg_n_y cg pg = cg - pg) /\
  (forall pd2 eta pg2, src_cg_n_eta pd2 eta pg2 = Z.quot (- 1) (pd2 * Z.min eta pg2)) /\
  (forall eta div y pd yy, src_cg_n_formula eta div y pd yy = Z.max eta (div * (y - 2 * pd * yy * div))) /\
  (forall g beta pd, src_cg_candidate g beta pd = - g + beta * pd) /\
  (forall g, src_cg_first_direction g = - g) /\
  (forall g, src_cg_restart_direction g = - g) /\
  src_cg_beta_call = 1)%Z.
Proof. exact kernels_c01cg. Qed.
Print Assumptions C01CG_kernels.

(* which formula each solver id returns, which two formulas FRPR clamps; the three-way expression of FRPR as written in the
   source is the clamp of pr to [-fr, fr] *)
Theorem C01CG_kernels_ids :
  (forall hs fr pr cd ls dy nn dycd dyhs frpr zero : Z,
    src_cg_beta_hs hs fr pr cd ls dy nn dycd dyhs frpr zero = Z.max hs zero /\
    src_cg_beta_fr hs fr pr cd ls dy nn dycd dyhs frpr zero = fr /\
    src_cg_beta_pr hs fr pr cd ls dy nn dycd dyhs frpr zero = Z.max pr zero /\
    src_cg_beta_cd hs fr pr cd ls dy nn dycd dyhs frpr zero = cd /\
    src_cg_beta_ls hs fr pr cd ls dy nn dycd dyhs frpr zero = Z.max ls zero /\
    src_cg_beta_dy hs fr pr cd ls dy nn dycd dyhs frpr zero = dy /\
    src_cg_beta_n hs fr pr cd ls dy nn dycd dyhs frpr zero = nn /\
    src_cg_beta_dycd hs fr pr cd ls dy nn dycd dyhs frpr zero = dycd /\
    src_cg_beta_dyhs hs fr pr cd ls dy nn dycd dyhs frpr zero = dyhs /\
    src_cg_beta_frpr hs fr pr cd ls dy nn dycd dyhs frpr zero = frpr /\
    src_cg_frpr_fr hs fr pr cd ls dy nn dycd dyhs frpr zero = fr /\
    src_cg_frpr_pr hs fr pr cd ls dy nn dycd dyhs frpr zero = pr) /\
  (forall pr fr : Z, (0 <= fr)%Z -> src_cg_formula_frpr pr fr (Z.abs pr) = Z.max (- fr) (Z.min pr fr)).
Proof. split; [exact kernels_c01cg_ids|exact kernel_frpr_is_clamp]. Qed.
Print Assumptions C01CG_kernels_ids.

(* ---- what is FALSE of the faithful model: without the restart the formulas do not give descent directions ------------- *)
Definition qv (l : list Z) : list Qc := map (fun z => Q2Qc (inject_Z z)) l.
Definition ex_pg : list Qc := qv [1; 0]%Z.
Definition ex_pd : list Qc := qv [-1; 1]%Z.        (* a descent direction at the previous point: pd.pg = -1 < 0 *)
Definition ex_g : list Qc := qv [0; 2]%Z.
Definition q0 : Qc := Q2Qc 0.
Definition q1 : Qc := Q2Qc 1.

(* "the candidate -g + beta pd of cgd-pr / cgd-fr is a descent direction whenever the previous direction was one" is false:
   here g.d = 4 > 0 resp. 4 > 0 (an ASCENT direction) -- the restart test is what saves C01CG_descent;
   "DY gives descent whenever pd.pg < 0" is false without pd.y > 0;  "HS+ satisfies the conjugacy condition" is false
   when the max(., 0) is active *)
Theorem C01CG_unrestarted_refuted :
  (exists pg pd g, (dot QcO pd pg < 0)%Qc /\ g <> zeros QcO (length g) /\
     (0 < dot QcO g (cg_candidate QcO (cg_beta QcO CK_PR q1 q1 q1 pg pd g) g pd))%Qc /\
     (0 < dot QcO g (cg_candidate QcO (cg_beta QcO CK_FR q1 q1 q1 pg pd g) g pd))%Qc) /\
  (exists pg pd g, (dot QcO pd pg < 0)%Qc /\ dot QcO pd (vsub QcO g pg) <> q0 /\ g <> zeros QcO (length g) /\
     (0 < dot QcO g (cg_candidate QcO (cg_beta QcO CK_DY q1 q1 q1 pg pd g) g pd))%Qc) /\
  (exists pg pd g, dot QcO pd (vsub QcO g pg) <> q0 /\
     dot QcO (cg_candidate QcO (cg_beta QcO CK_HS q1 q1 q1 pg pd g) g pd) (vsub QcO g pg) <> q0).
Proof.
  split; [|split].
  - exists ex_pg, ex_pd, ex_g. split; [vm_compute; reflexivity|]. split; [vm_compute; discriminate|].
    split; vm_compute; reflexivity.
  - exists (qv [1; 0]%Z), (qv [-1; 0]%Z), (qv [2; 1]%Z). split; [vm_compute; reflexivity|].
    split; [vm_compute; discriminate|]. split; [vm_compute; discriminate|]. vm_compute; reflexivity.
  - exists (qv [2; 0]%Z), (qv [-1; 0]%Z), (qv [1; 0]%Z). split; vm_compute; discriminate.
Qed.
Print Assumptions C01CG_unrestarted_refuted.

(* ---- non-vacuity --------------------------------------------------------------------------------------------------------- *)
(* a concrete loop: two iterations of cgd-fr on the quadratic with A = diag(1, 4) from g0 = (1, 4) with exact line searches:
   the hypotheses of C01CG_quadratic_conjugacy hold and the second direction is conjugate to the first, is a descent
   direction, and was not a restart *)
Definition ex_A : list (list Qc) := [qv [1; 0]; qv [0; 4]]%Z.
Definition ex_g0 : list Qc := qv [1; 4]%Z.
Example C01CG_nonvacuous_quadratic :
  length ex_A = 2%nat /\ length ex_g0 = 2%nat /\
  (forall a b, length a = 2%nat -> length b = 2%nat -> dot QcO a (mv QcO ex_A b) = dot QcO b (mv QcO ex_A a)) /\
  (match cg_quad_run QcO CK_FR (Q2Qc (1 # 100)) (Q2Qc (1 # 10)) (fun _ => q1) ex_A cg_init ex_g0 2 with
   | [(g0, d0); (g1, d1)] =>
       map this d0 = map this (vopp QcO ex_g0) /\ this (dot QcO d1 (mv QcO ex_A d0)) = 0%Q /\ this (dot QcO g1 g0) = 0%Q /\
       (dot QcO g1 d1 < 0)%Qc /\ map this g1 <> map this (zeros QcO 2) /\
       snd (cg_choose QcO (Q2Qc (1 # 10)) (beta_FR QcO g0 d0 g1) g0 d0 g1) = false
   | _ => False
   end).
Proof.
  split; [reflexivity|]. split; [reflexivity|].
  split; [intros [|a0 [|a1 [|? ?]]] [|b0 [|b1 [|? ?]]] La Lb; try discriminate; unfold ex_A, qv; simpl; ring|].
  vm_compute. repeat split; try reflexivity; discriminate.
Qed.

(* the restart fires, for each of its two reasons, and does not fire, on concrete inputs; the hypotheses of the identities
   (exact line search, pd.pg = -pg.pg) and of the Dai-Yuan / DYCD / N statements are satisfiable *)
Example C01CG_nonvacuous_restart :
  (* not a descent direction: restart *)
  (let '(d, r) := cg_choose QcO (Q2Qc (1 # 2)) (cg_beta QcO CK_PR q1 q1 q1 ex_pg ex_pd ex_g) ex_pg ex_pd ex_g in
   map this d = map this (vopp QcO ex_g) /\ r = true) /\
  (* descent but gradients far from orthogonal: |g.pg| = 2 >= 1/2 * 4: restart at the tie *)
  snd (cg_choose QcO (Q2Qc (1 # 2)) q0 (qv [1; 1]%Z) (qv [-1; -1]%Z) (qv [2; 0]%Z)) = true /\
  (* just below the tie: no restart *)
  snd (cg_choose QcO (Q2Qc (3 # 4)) q0 (qv [1; 1]%Z) (qv [-1; -1]%Z) (qv [2; 0]%Z)) = false /\
  (* exact line search hypotheses *)
  (let pg := qv [1; 0]%Z in let pd := qv [-1; 0]%Z in let g := qv [0; 3]%Z in
   this (dot QcO g pd) = 0%Q /\ this (dot QcO pd pg) = this (Qcopp (dot QcO pg pg)) /\ this (dot QcO pg pg) <> 0%Q /\
   this (dot QcO g pg) = 0%Q) /\
  (* Dai-Yuan / DYCD hypotheses: pd.pg < 0, pd.y > 0 *)
  (let pg := qv [2; 0]%Z in let pd := qv [-2; 0]%Z in let g := qv [1; 1]%Z in
   (dot QcO pd pg < 0)%Qc /\ (0 < dot QcO pd (vsub QcO g pg))%Qc) /\
  (* N: eta' < 0 *)
  (n_eta QcO (Q2Qc (1 # 100)) q1 q1 < 0)%Qc.
Proof. vm_compute. repeat split; try reflexivity; discriminate. Qed.
