(* C15 (extension) -- proofs about the stateful readers of C15_Dest_Defs.v *)
From Coq Require Import List ZArith NArith Bool Lia Arith FunctionalExtensionality.
From LNGen Require Import Src_stream.
From LN Require Import C15_Defs C15_Proofs C15_Statements C15_Dest_Defs.
Import ListNotations.
Local Open Scope N_scope.

(* the decisions taken from the source are the ones the theorems need: exit exactly when the size read failed, resize
   unconditionally *)
Definition faithful (p : policy) : Prop :=
  (forall failed n, p_str_exit p failed n = failed) /\
  (forall failed n, p_vec_exit p failed n = failed) /\
  (forall a b, p_resize_when p a b = true).

Lemma src_policy_faithful (junk : nat -> N) : faithful (src_policy junk).
Proof. unfold faithful, src_policy. cbn. repeat split. Qed.

Definition ok {A} (x : A * option bytes) : option (A * bytes) :=
  match x with (a, Some r) => Some (a, r) | (_, None) => None end.

Lemma read_into_ok (p : policy) (f : dfmt) (d : val) (bs : bytes) : read_into p f d bs = ok (rd p f d bs).
Proof. unfold read_into, ok. destruct (rd p f d bs) as [x [r|]]; reflexivity. Qed.

(* ---- storage ----------------------------------------------------------------------------------------------------- *)
Lemma resize_bytes_length (k : nat) (old : bytes) : length (resize_bytes k old) = k.
Proof. revert old. induction k as [|k IH]; intros old; cbn; [reflexivity|]. destruct old; cbn; rewrite IH; reflexivity. Qed.

Lemma resize_vals_length (k : nat) (old : list val) : length (resize_vals k old) = k.
Proof. revert old. induction k as [|k IH]; intros old; cbn; [reflexivity|]. destruct old; cbn; rewrite IH; reflexivity. Qed.

Lemma overwrite_full (buf src : bytes) : length buf = length src -> overwrite buf src = src.
Proof.
  revert src. induction buf as [|b buf IH]; intros src H; destruct src as [|s src]; cbn in *; try reflexivity; try discriminate.
  rewrite IH by lia. reflexivity.
Qed.

Lemma realloc_length (p : policy) (k : nat) (old : list N) : length (realloc p k old) = k.
Proof.
  unfold realloc. destruct (Nat.eqb_spec (length old) k) as [E|_]; [exact E|]. rewrite map_length, seq_length. reflexivity.
Qed.

(* ---- primitive readers: whatever the destination holds --------------------------------------------------------- *)
Lemma rd_uint_ok (k : nat) (d : val) (bs : bytes) : ok (rd_uint k d bs) = dec (F_uint k) bs.
Proof. unfold rd_uint. cbn [dec]. destruct (take k bs) as [[h r]|]; reflexivity. Qed.

Lemma rd_block_ok (n : N) (buf bs : bytes) : length buf = N.to_nat n ->
  match rd_block n buf bs with (c, Some r) => Some (VB c, r) | (_, None) => None end = dec (F_raw n) bs /\
  (forall c r, rd_block n buf bs = (c, Some r) -> N.of_nat (length c) = n).
Proof.
  intros Hl. unfold rd_block. cbn [dec]. destruct (short bs n); [split; [reflexivity|discriminate]|].
  destruct (take (N.to_nat n) bs) as [[h r]|] eqn:E; [|split; [reflexivity|discriminate]].
  destruct (take_some _ _ _ _ E) as [_ Hh]. rewrite overwrite_full by lia. split; [reflexivity|].
  intros c r' H. injection H as <- <-. lia.
Qed.

Lemma rd_string_ok (p : policy) (d : val) (bs : bytes) :
  (forall failed n, p_str_exit p failed n = failed) -> ok (rd_string p d bs) = dec string_fmt bs.
Proof.
  intros Hstr. unfold rd_string, string_fmt, u32. cbn [dec]. destruct (take 4 bs) as [[h r]|]; [|reflexivity].
  rewrite Hstr. cbn [dec].
  destruct (rd_block_ok (le_dec h) (resize_bytes (N.to_nat (le_dec h)) (vstring d)) r (resize_bytes_length _ _)) as [Hb Hlen].
  cbn [dec] in Hb.
  destruct (rd_block (le_dec h) (resize_bytes (N.to_nat (le_dec h)) (vstring d)) r) as [c [r'|]]; cbn [ok]; rewrite <- Hb; [|reflexivity].
  unfold mk_string. rewrite (Hlen c r' eq_refl). reflexivity.
Qed.

Lemma rd_rep_ok (step : val -> bytes -> val * option bytes) (d0 : bytes -> option (val * bytes)) :
  (forall d bs, ok (step d bs) = d0 bs) ->
  forall dests bs, ok (rd_rep step dests bs) = rep_dec d0 (length dests) bs.
Proof.
  intros Hs. induction dests as [|d ds IH]; intros bs; cbn [rd_rep rep_dec length]; [reflexivity|].
  specialize (Hs d bs). destruct (step d bs) as [x [r|]]; cbn [ok] in Hs; rewrite <- Hs; [|reflexivity].
  specialize (IH r). destruct (rd_rep step ds r) as [l [r'|]]; cbn [ok] in *; rewrite <- IH; reflexivity.
Qed.

(* ---- shapes of decoded headers / payloads ------------------------------------------------------------------------ *)
Definition is_VN (v : val) : Prop := exists n, v = VN n.

Lemma dec_uint_shape (k : nat) (bs : bytes) (v : val) (r : bytes) : dec (F_uint k) bs = Some (v, r) -> v = VN (vnat v).
Proof. cbn [dec]. destruct (take k bs) as [[h t]|]; [|discriminate]. intros H. injection H as <- <-. reflexivity. Qed.

Lemma rep_uint_shape (w k : nat) (bs : bytes) (l : list val) (r : bytes) :
  rep_dec (dec (F_uint w)) k bs = Some (l, r) -> map VN (map vnat l) = l.
Proof.
  revert bs l r. induction k as [|k IH]; intros bs l r H; cbn [rep_dec] in H.
  - injection H as <- <-. reflexivity.
  - destruct (dec (F_uint w) bs) as [[v t]|] eqn:Ed; [|discriminate].
    destruct (rep_dec (dec (F_uint w)) k t) as [[l' r']|] eqn:E; [|discriminate]. injection H as <- <-.
    cbn [map]. rewrite (IH _ _ _ E), <- (dec_uint_shape _ _ _ _ Ed). reflexivity.
Qed.

Lemma dec_pair_inv (a b : fmt) (bs : bytes) (v : val) (r : bytes) :
  dec (F_pair a b) bs = Some (v, r) ->
  exists x y t, v = VP x y /\ dec a bs = Some (x, t) /\ dec b t = Some (y, r).
Proof.
  cbn [dec]. destruct (dec a bs) as [[x t]|]; [|discriminate]. destruct (dec b t) as [[y t']|] eqn:E; [|discriminate].
  intros H. injection H as <- <-. exists x, y, t. auto.
Qed.

Lemma hdr_shape (s : tspec) (bs : bytes) (h : val) (r : bytes) :
  dec (hdr_fmt s) bs = Some (h, r) ->
  h = mk_hdr (hdr_version h) (hdr_rank h) (hdr_rawdims h) (hdr_sizeof h) (hdr_hash h).
Proof.
  unfold hdr_fmt. intros H.
  apply dec_pair_inv in H. destruct H as (a & y1 & t1 & -> & Ha & H).
  apply dec_pair_inv in H. destruct H as (b & y2 & t2 & -> & Hb & H).
  apply dec_pair_inv in H. destruct H as (dl & y3 & t3 & -> & Hd & H).
  apply dec_pair_inv in H. destruct H as (c & e & t4 & -> & Hc & He).
  apply dec_uint_shape in Ha, Hb, Hc, He.
  rewrite dec_rep_eq in Hd. destruct (short t2 _); [discriminate|].
  destruct (rep_dec (dec u32) _ t2) as [[l t]|] eqn:El; [|discriminate]. injection Hd as <- <-.
  apply rep_uint_shape in El.
  unfold mk_hdr, hdr_version, hdr_rank, hdr_rawdims, hdr_sizeof, hdr_hash. cbn [vfst vsnd vlist].
  rewrite El, <- Ha, <- Hb, <- Hc, <- He. reflexivity.
Qed.

Lemma hdr_ok_fields (s : tspec) (h : val) :
  hdr_ok s h = true ->
  hdr_version h = Z.to_N src_hash_version /\ hdr_rank h = N.of_nat (t_rank s) /\ hdr_sizeof h = N.of_nat (t_width s).
Proof.
  unfold hdr_ok, src_tensor_hdr_bad. intros E. apply negb_true_iff in E.
  apply orb_false_elim in E. destruct E as [E E3]. apply orb_false_elim in E. destruct E as [E1 E2].
  apply negb_false_iff, Z.eqb_eq in E1, E2, E3.
  split; [rewrite <- E1; rewrite N2Z.id; reflexivity|]. split; lia.
Qed.

(* ---- the tensor reader ------------------------------------------------------------------------------------------- *)
Lemma rd_tensor_ok (p : policy) (s : tspec) (d : val) (bs : bytes) :
  (forall a b, p_resize_when p a b = true) ->
  ok (rd_tensor p s d bs) = dec (tensor_fmt s) bs.
Proof.
  intros Hres. unfold rd_tensor, tensor_fmt. cbn [dec].
  change (match dec (hdr_fmt s) bs with
          | Some (v, r) => if hdr_ok s v then Some (v, r) else None
          | None => None
          end) with (dec (F_filter (hdr_fmt s) (hdr_ok s)) bs).
  destruct (dec (F_filter (hdr_fmt s) (hdr_ok s)) bs) as [[h r]|] eqn:EH; [|reflexivity].
  apply dec_filter in EH. destruct EH as [Hh Hok].
  unfold payload_fmt. destruct (dsize (hdr_dims h) <? 0)%Z eqn:En; [reflexivity|].
  apply Z.ltb_ge in En. rewrite Hres. rewrite dec_rep_eq.
  set (n := dsize (hdr_dims h)) in *.
  pose proof (rd_rep_ok (rd_uint (t_width s)) (dec (F_uint (t_width s))) (rd_uint_ok (t_width s))
                        (map VN (realloc p (Z.to_nat n) (state_elems d))) r) as Hrep.
  rewrite map_length, realloc_length in Hrep.
  replace (N.to_nat (Z.to_N n)) with (Z.to_nat n) by lia.
  destruct (rd_rep (rd_uint (t_width s)) (map VN (realloc p (Z.to_nat n) (state_elems d))) r) as [l [r'|]];
    cbn [ok] in Hrep; rewrite <- Hrep.
  - destruct (short r (Z.to_N n)); [reflexivity|].
    unfold hash_ok. cbn [vfst vsnd]. unfold tensor_elems. cbn [vsnd vlist].
    destruct (hdr_hash h =? hash_elems (t_width s) (t_signed s) (map vnat l)) eqn:Ehash; [|reflexivity].
    cbn [ok]. f_equal. f_equal.
    apply N.eqb_eq in Ehash. symmetry in Hrep. apply rep_uint_shape in Hrep.
    destruct (hdr_ok_fields s h Hok) as (Ev & Er & Es).
    unfold tensor_state, mk_tensor, raw_tensor, mk_header. rewrite Hrep, <- Ev, <- Er, <- Es, <- Ehash.
    rewrite <- (hdr_shape s bs h r Hh). reflexivity.
  - destruct (short r (Z.to_N n)); reflexivity.
Qed.

(* ---- theorem (1): a successful read does not depend on the destination ----------------------------------------- *)
Theorem dest_independent (p : policy) : faithful p ->
  forall f d bs, read_into p f d bs = dec (erase f) bs.
Proof.
  intros (Hstr & Hvec & Hres) f d bs. rewrite read_into_ok. revert d bs.
  induction f as [| |k|n| |a IHa b IHb|a IHa g IHg|n e IHe|a IHa q|init early a IHa|s]; intros d bs; cbn [rd erase].
  - reflexivity.
  - reflexivity.
  - apply rd_uint_ok.
  - destruct (rd_block_ok n (resize_bytes (N.to_nat n) (vraw d)) bs (resize_bytes_length _ _)) as [Hb _].
    destruct (rd_block n (resize_bytes (N.to_nat n) (vraw d)) bs) as [c [r|]]; cbn [ok]; exact Hb.
  - apply rd_string_ok. exact Hstr.
  - cbn [dec]. specialize (IHa (vfst d) bs). destruct (rd p a (vfst d) bs) as [x [r|]]; cbn [ok] in IHa; rewrite <- IHa; [|reflexivity].
    specialize (IHb (vsnd d) r). destruct (rd p b (vsnd d) r) as [y [r'|]]; cbn [ok] in *; rewrite <- IHb; reflexivity.
  - cbn [dec]. specialize (IHa (vfst d) bs). destruct (rd p a (vfst d) bs) as [x [r|]]; cbn [ok] in IHa; rewrite <- IHa; [|reflexivity].
    specialize (IHg x (vsnd d) r). destruct (rd p (g x) (vsnd d) r) as [y [r'|]]; cbn [ok] in *; rewrite <- IHg; reflexivity.
  - rewrite Hvec. rewrite dec_rep_eq.
    pose proof (rd_rep_ok (rd p e) (dec (erase e)) IHe (resize_vals (N.to_nat n) (vlist d)) bs) as Hrep.
    rewrite resize_vals_length in Hrep.
    destruct (rd_rep (rd p e) (resize_vals (N.to_nat n) (vlist d)) bs) as [l [r|]]; cbn [ok] in *; rewrite <- Hrep;
      destruct (short bs n); reflexivity.
  - cbn [dec]. specialize (IHa d bs). destruct (rd p a d bs) as [v [r|]]; cbn [ok] in IHa; rewrite <- IHa; [|reflexivity].
    destruct (q v); reflexivity.
  - specialize (IHa init bs). destruct (rd p a init bs) as [v [r|]]; cbn [ok] in *; exact IHa.
  - apply rd_tensor_ok. exact Hres.
Qed.

(* the form asked for: success of the stateful reader iff success of the pure decoder, with the same rest, and then the
   new state of the destination IS the decoded value -- for every previous state d *)
Corollary dest_independent_iff (p : policy) : faithful p ->
  forall f d bs d' rest,
    (read_into p f d bs = Some (d', rest) <-> dec (erase f) bs = Some (d', rest)) /\
    (forall d2, read_into p f d2 bs = read_into p f d bs) /\
    (read_into p f d bs = None <-> dec (erase f) bs = None).
Proof.
  intros Hp f d bs d' rest. rewrite (dest_independent p Hp). split; [tauto|]. split; [|tauto].
  intros d2. apply (dest_independent p Hp).
Qed.

(* ---- the library's formats: [erase] of the destination-aware term is the format of C15_Defs --------------------- *)
Lemma erase_string : erase d_string = string_fmt.
Proof. reflexivity. Qed.

Lemma erase_vector (e : dfmt) : erase (d_vector e) = vector_fmt (erase e).
Proof.
  unfold d_vector, vector_fmt, d_local, d_u64, u64. cbn [erase]. f_equal. apply functional_extensionality. intros [| n | | |]; reflexivity.
Qed.

Lemma erase_param : erase d_param = param_fmt.
Proof.
  unfold d_param, param_fmt. cbn [erase]. rewrite erase_string. f_equal. apply functional_extensionality. intros hd.
  unfold d_param_body, param_body.
  repeat match goal with |- context [if ?c then _ else _] => destruct c end;
    unfold d_local; cbn [erase]; rewrite ?erase_vector, ?erase_string; reflexivity.
Qed.

Lemma erase_config (cur : Z * Z * Z) : erase (d_config cur) = config_fmt cur.
Proof. unfold d_config, config_fmt. cbn [erase]. rewrite erase_vector, erase_param. reflexivity. Qed.

Lemma erase_feature (ft : list bytes) : erase (d_feature ft) = feature_fmt ft.
Proof. unfold d_feature, feature_fmt, d_local. cbn [erase]. rewrite erase_vector, !erase_string. reflexivity. Qed.

Lemma erase_learner (e : env) : erase (d_learner e) = learner_fmt e.
Proof. unfold d_learner, learner_fmt. cbn [erase]. rewrite erase_config, erase_vector, erase_feature. reflexivity. Qed.

Lemma erase_linear (e : env) : erase (d_linear e) = linear_fmt e.
Proof. unfold d_linear, linear_fmt. cbn [erase]. rewrite erase_learner. reflexivity. Qed.

Lemma erase_single (e : env) : erase (d_single e) = single_fmt e.
Proof. unfold d_single, single_fmt, d_local. cbn [erase]. rewrite erase_learner. reflexivity. Qed.

Lemma erase_stump (e : env) : erase (d_stump e) = stump_fmt e.
Proof. unfold d_stump, stump_fmt. cbn [erase]. rewrite erase_single. reflexivity. Qed.

Lemma erase_hinge (e : env) : erase (d_hinge e) = hinge_fmt e.
Proof. unfold d_hinge, hinge_fmt, d_local. cbn [erase]. rewrite erase_single. reflexivity. Qed.

Lemma erase_table (e : env) : erase (d_table e) = table_fmt e.
Proof. unfold d_table, table_fmt. cbn [erase]. rewrite erase_single. reflexivity. Qed.

Lemma erase_dtree (e : env) : erase (d_dtree e) = dtree_fmt e.
Proof. unfold d_dtree, dtree_fmt. cbn [erase]. rewrite erase_learner, erase_vector. reflexivity. Qed.

Lemma erase_wlearner_of (e : env) (k : N) :
  erase (d_wlearner_of e k) =
  match k with 0 => affine_fmt e | 1 => stump_fmt e | 2 => hinge_fmt e | 3 => table_fmt e | 4 => dtree_fmt e | _ => F_fail end.
Proof.
  unfold d_wlearner_of, d_affine, affine_fmt.
  destruct k as [|[[[|[]|]|[[]|[]|]|]|[[|[]|]|[|[]|]|]|]]; cbn [erase];
    rewrite ?erase_single, ?erase_stump, ?erase_hinge, ?erase_table, ?erase_dtree; reflexivity.
Qed.

Lemma lookup_erase {A B} (h : A -> B) (k : bytes) (tbl : list (bytes * A)) :
  lookup k (map (fun p => (fst p, h (snd p))) tbl) = option_map h (lookup k tbl).
Proof.
  induction tbl as [|[k' a] tbl IH]; cbn; [reflexivity|]. destruct (bytes_eqb k k'); [reflexivity|exact IH].
Qed.

Lemma erase_object (proto : bytes -> val) (tbl : list (bytes * dfmt)) :
  erase (d_object proto tbl) = object_fmt (map (fun p => (fst p, erase (snd p))) tbl).
Proof.
  unfold d_object, object_fmt, d_local. cbn [erase]. rewrite erase_string. f_equal. apply functional_extensionality. intros id.
  rewrite (lookup_erase erase). destruct (lookup (vstring id) tbl); reflexivity.
Qed.

Lemma erase_wlearner_table (e : env) (ids : list (bytes * N)) :
  map (fun p => (fst p, erase (snd p))) (d_wlearner_table e ids) = wlearner_table e ids.
Proof.
  unfold d_wlearner_table, wlearner_table. rewrite map_map. apply map_ext. intros [id k]. cbn [fst snd].
  rewrite erase_wlearner_of. reflexivity.
Qed.

Lemma erase_wlearner_object (proto : bytes -> val) (e : env) (ids : list (bytes * N)) :
  erase (d_object proto (d_wlearner_table e ids)) = object_fmt (wlearner_table e ids).
Proof. rewrite erase_object, erase_wlearner_table. reflexivity. Qed.

Lemma erase_gboost (proto : bytes -> val) (e : env) (ids : list (bytes * N)) :
  erase (d_gboost proto e ids) = gboost_fmt e ids.
Proof.
  unfold d_gboost, gboost_fmt. cbn [erase]. rewrite erase_learner, !erase_vector, erase_wlearner_object. reflexivity.
Qed.

Lemma erase_plain_object (proto : bytes -> val) (cur : Z * Z * Z) (ids : list bytes) :
  erase (d_plain_object proto cur ids) = plain_object_fmt cur ids.
Proof.
  unfold d_plain_object, plain_object_fmt. rewrite erase_object, map_map. f_equal. apply map_ext. intros id. cbn [fst snd].
  rewrite erase_config. reflexivity.
Qed.

(* the destination-aware terms and the formats of C15_formats_sound, side by side *)
Definition dest_formats (proto : bytes -> val) (e : env) (wl : list (bytes * N)) (ids : list bytes) (s : tspec)
  : list (dfmt * fmt) :=
  [(D_tensor s, tensor_fmt s); (d_string, string_fmt); (d_param, param_fmt); (d_config (e_version e), config_fmt (e_version e));
   (d_feature (e_ftypes e), feature_fmt (e_ftypes e)); (d_learner e, learner_fmt e); (d_linear e, linear_fmt e);
   (d_affine e, affine_fmt e); (d_stump e, stump_fmt e); (d_hinge e, hinge_fmt e); (d_table e, table_fmt e);
   (d_dtree e, dtree_fmt e); (d_object proto (d_wlearner_table e wl), object_fmt (wlearner_table e wl));
   (d_gboost proto e wl, gboost_fmt e wl); (d_plain_object proto (e_version e) ids, plain_object_fmt (e_version e) ids)].

Lemma dest_formats_erase proto e wl ids s df f : In (df, f) (dest_formats proto e wl ids s) -> erase df = f.
Proof.
  unfold dest_formats. cbn [In]. intros H.
  repeat (destruct H as [H|H]; [injection H as <- <-|]); try contradiction; cbn [erase]; try reflexivity.
  - apply erase_param.
  - apply erase_config.
  - apply erase_feature.
  - apply erase_learner.
  - apply erase_linear.
  - apply erase_single.
  - apply erase_stump.
  - apply erase_hinge.
  - apply erase_table.
  - apply erase_dtree.
  - apply erase_wlearner_object.
  - apply erase_gboost.
  - apply erase_plain_object.
Qed.

(* every reader of the library, with the decisions of the CURRENT source: whatever object it is handed, a successful
   read leaves exactly the decoded value in it, and it succeeds exactly when the pure decoder does *)
Theorem dest_formats_independent : forall junk proto e wl ids s df f,
  In (df, f) (dest_formats proto e wl ids s) ->
  forall d bs, read_into (src_policy junk) df d bs = dec f bs.
Proof.
  intros junk proto e wl ids s df f Hin d bs. rewrite <- (dest_formats_erase _ _ _ _ _ _ _ Hin).
  apply dest_independent. apply src_policy_faithful.
Qed.

(* consequence with the round trip theorem: read what was written into ANY used object: it becomes the written value *)
Theorem dest_roundtrip (p : policy) : faithful p ->
  forall f v d rest, wt (erase f) v -> read_into p f d (enc (erase f) v ++ rest) = Some (v, rest).
Proof. intros Hp f v d rest Hv. rewrite (dest_independent p Hp). apply codec_roundtrip. exact Hv. Qed.

(* ---- (2) the two seeded variants are NOT destination independent ------------------------------------------------ *)
Definition abc : bytes := [97; 98; 99].

(* C15/4: an empty string read over "abc" leaves "abc" *)
Lemma early_exit_refuted : forall junk,
  exists f d bs v d',
    dec (erase f) bs = Some (v, []) /\ read_into (early_exit_policy junk) f d bs = Some (d', []) /\ d' <> v /\
    read_into (src_policy junk) f d bs = Some (v, []).
Proof.
  intros junk. exists d_string, (mk_string abc), [0; 0; 0; 0], (mk_string []), (mk_string abc).
  repeat split; try reflexivity. discriminate.
Qed.

(* C15/5: a 3x2 tensor read into a 2x3 destination keeps the shape 2x3 *)
Definition u8_2 : tspec := {| t_rank := 2; t_width := 1; t_signed := false |}.

Lemma skip_resize_refuted : forall junk,
  exists s d bs v d',
    dec (tensor_fmt s) bs = Some (v, []) /\ read_into (skip_resize_policy junk) (D_tensor s) d bs = Some (d', []) /\
    d' <> v /\ state_dims d' = state_dims d /\ state_elems d' = state_elems v /\
    read_into (src_policy junk) (D_tensor s) d bs = Some (v, []).
Proof.
  intros junk.
  exists u8_2, (tensor_state u8_2 [2; 3] [9; 9; 9; 9; 9; 9]),
         (enc (tensor_fmt u8_2) (mk_tensor u8_2 [3; 2] [1; 2; 3; 4; 5; 6])),
         (mk_tensor u8_2 [3; 2] [1; 2; 3; 4; 5; 6]), (mk_tensor u8_2 [2; 3] [1; 2; 3; 4; 5; 6]).
  repeat split; try (vm_compute; reflexivity). vm_compute. discriminate.
Qed.

(* ---- (3) a failed read is reported, but it is NOT atomic: the destination is left half-written ------------------ *)
Definition abcdef : bytes := [97; 98; 99; 100; 101; 102].

Definition aa_junk : nat -> N := fun _ => 0xAA.

Lemma failure_not_atomic :
  (* a string: "abcdef" <- (size 4, "xy", end of stream): the string is now "xycd" *)
  (forall junk, exists d bs suffix v d',
      rd (src_policy junk) d_string d bs = (d', None) /\ read_into (src_policy junk) d_string d bs = None /\
      dec string_fmt (bs ++ suffix) = Some (v, []) /\ d' <> d /\ d' <> v /\
      d' = mk_string [120; 121; 99; 100]) /\
  (* a tensor: dims (2) <- header with dims (3) and one element of three: dims are (3) already, the buffer is new
     (here filled with 0xAA) *)
  (exists s d bs suffix v d',
      rd (src_policy aa_junk) (D_tensor s) d bs = (d', None) /\
      dec (tensor_fmt s) (bs ++ suffix) = Some (v, []) /\ d' <> d /\ d' <> v /\
      state_dims d' = state_dims v /\ state_elems d' = [7; 0xAA; 0xAA]).
Proof.
  split.
  - intros junk.
    exists (mk_string abcdef), [4; 0; 0; 0; 120; 121], [122; 122], (mk_string [120; 121; 122; 122]),
           (mk_string [120; 121; 99; 100]).
    repeat split; try reflexivity; discriminate.
  - set (s := {| t_rank := 1; t_width := 1; t_signed := false |}).
    exists s, (tensor_state s [2] [1; 2]),
           (firstn 25 (enc (tensor_fmt s) (mk_tensor s [3] [7; 8; 9]))), [8; 9], (mk_tensor s [3] [7; 8; 9]),
           (tensor_state s [3] [7; 0xAA; 0xAA]).
    repeat split; try (vm_compute; reflexivity); vm_compute; discriminate.
Qed.

(* ---- the forms stated in Properties_C15 -------------------------------------------------------------------------- *)
Lemma p_dest_independent : forall p, faithful p ->
  forall f d bs,
    read_into p f d bs = dec (erase f) bs /\
    (forall d' rest, read_into p f d bs = Some (d', rest) <-> dec (erase f) bs = Some (d', rest)) /\
    (forall d2, read_into p f d2 bs = read_into p f d bs).
Proof.
  intros p Hp f d bs. split; [exact (dest_independent p Hp f d bs)|]. split.
  - intros d' rest. exact (proj1 (dest_independent_iff p Hp f d bs d' rest)).
  - exact (proj1 (proj2 (dest_independent_iff p Hp f d bs VU []))).
Qed.

Lemma p_dest_formats : forall junk proto e wl ids s df f,
  In (df, f) (dest_formats proto e wl ids s) ->
  erase df = f /\ forall d bs, read_into (src_policy junk) df d bs = dec f bs.
Proof.
  intros junk proto e wl ids s df f Hin. split; [exact (dest_formats_erase _ _ _ _ _ _ _ Hin)|].
  exact (dest_formats_independent junk proto e wl ids s df f Hin).
Qed.

Lemma p_dest_nonvacuous :
  faithful (src_policy zero_junk) /\
  wt (erase d_param) (VP (VP (VN 5) (mk_string [110])) (mk_string [118; 97])) /\
  reuse_result (src_policy zero_junk) (d_feature [[115; 99; 108; 97; 115; 115]]) real_param_enum real_feature
    = Some (real_feature, []) /\
  reuse_result (src_policy zero_junk) d_param real_param_enum real_param_int = Some (real_param_int, []) /\
  reuse_result (src_policy zero_junk) (D_tensor i16_1) real_tensor_i16 real_tensor_i16 = Some (real_tensor_i16, []).
Proof.
  split; [exact (src_policy_faithful zero_junk)|]. split.
  - rewrite erase_param. exact (proj1 (proj2 (proj2 (proj2 (proj2 s_nonvacuous_formats))))).
  - repeat split; vm_compute; reflexivity.
Qed.
