(* C10 extension -- the selection criteria of src/wlearner/criterion.cpp (make_score) and include/nano/core/stats.h
   (AIC, AICc, BIC) over the reals. The expressions are translated from the source on every run with the logarithms as named
   inputs (Src_c10: src_c10_aic, src_c10_aicc, src_c10_bic, typed over Z like every kernel); the `*_shape` lemmas pin the
   translated expressions to the polynomials that [crit_score] evaluates with the real logarithm. *)
From Coq Require Import ZArith Reals Lra Lia List.
From LNGen Require Import Src_c10.
Import ListNotations.
Local Open Scope R_scope.

Inductive crit := CRss | CAic | CAicc | CBic.

Definition aic_poly (dk dn logrss logn : R) : R := 2 * dk + dn * logrss - dn * logn.
Definition aicc_poly (aic dk dn : R) : R := aic + 2 * (dk * dk + dk) / (dn - dk - 1).
Definition bic_poly (dk dn logrssn logn : R) : R := dk * logn + dn * logrssn.

(* AIC(RSS, k, n), AICc(RSS, k, n), BIC(RSS, k, n) *)
Definition crit_score (c : crit) (rss : R) (k n : Z) : R :=
  match c with
  | CRss => rss
  | CAic => aic_poly (IZR k) (IZR n) (ln rss) (ln (IZR n))
  | CAicc => aicc_poly (aic_poly (IZR k) (IZR n) (ln rss) (ln (IZR n))) (IZR k) (IZR n)
  | CBic => bic_poly (IZR k) (IZR n) (ln (rss / IZR n)) (ln (IZR n))
  end.
(* make_score: rss = std::max(rss, epsilon * 1e3) first *)
Definition make_score (c : crit) (floor rss : R) (k n : Z) : R := crit_score c (Rmax rss floor) k n.

(* ---- the translated expressions have the shape of the polynomials ------------------------------------------------------------- *)
Lemma aic_shape dk dn lr ln_ : IZR (src_c10_aic dk dn lr ln_) = aic_poly (IZR dk) (IZR dn) (IZR lr) (IZR ln_).
Proof. unfold src_c10_aic, aic_poly. rewrite minus_IZR, plus_IZR, !mult_IZR. reflexivity. Qed.
Lemma bic_shape dk dn lr ln_ : IZR (src_c10_bic dk dn lr ln_) = bic_poly (IZR dk) (IZR dn) (IZR lr) (IZR ln_).
Proof. unfold src_c10_bic, bic_poly. rewrite plus_IZR, !mult_IZR. reflexivity. Qed.
(* the correction term is a quotient: over Z the translator writes the truncated quotient of the same numerator and denominator *)
Lemma aicc_shape aic dk dn : src_c10_aicc aic dk dn = (aic + Z.quot (2 * (dk * dk + dk)) (dn - dk - 1))%Z.
Proof. reflexivity. Qed.
(* the arguments k (parameters) and n (samples) every learner passes to make_score *)
Lemma crit_args_shape :
  (forall t, src_c10_k_stump t = 2 * t + 1)%Z /\ (forall t, src_c10_k_hinge t = t + 1)%Z /\ (forall t, src_c10_k_affine t = 2 * t)%Z /\
  (forall b t, src_c10_k_dense b t = b * t)%Z /\ (forall b t, src_c10_k_kbest b t = b * t)%Z /\ (forall b t, src_c10_k_ksplit b t = b * t)%Z /\
  (forall b ic, src_c10_ksplit_groups b ic = b - ic)%Z /\
  (forall x m, src_c10_n_stump x m = x + m)%Z /\
  (* hinge: the sample count of the criterion is the side of the hinge plus the missing values, NOT all samples *)
  (forall xn xp m, src_c10_n_hinge_left xn xp m = xn + m)%Z /\ (forall xn xp m, src_c10_n_hinge_right xn xp m = xp + m)%Z.
Proof. repeat split; intros; reflexivity. Qed.

(* ---- monotonicity ------------------------------------------------------------------------------------------------------------- *)
Lemma ln_le_compat x y : 0 < x -> x <= y -> ln x <= ln y.
Proof. intros Hx [H|<-]; [left; now apply ln_increasing | right; reflexivity]. Qed.

Lemma crit_mono c k n r1 r2 : (0 < n)%Z -> 0 < r1 -> r1 <= r2 -> crit_score c r1 k n <= crit_score c r2 k n.
Proof.
  intros Hn H1 H12. assert (Hn' : 0 < IZR n) by (now apply IZR_lt).
  pose proof (ln_le_compat r1 r2 H1 H12) as L.
  assert (L2 : ln (r1 / IZR n) <= ln (r2 / IZR n)).
  { apply ln_le_compat; [now apply Rdiv_lt_0_compat|]. unfold Rdiv. apply Rmult_le_compat_r; [left; now apply Rinv_0_lt_compat | exact H12]. }
  destruct c; cbn [crit_score]; unfold aicc_poly, aic_poly, bic_poly.
  - exact H12.
  - assert (IZR n * ln r1 <= IZR n * ln r2) by (apply Rmult_le_compat_l; lra). lra.
  - assert (IZR n * ln r1 <= IZR n * ln r2) by (apply Rmult_le_compat_l; lra). lra.
  - assert (IZR n * ln (r1 / IZR n) <= IZR n * ln (r2 / IZR n)) by (apply Rmult_le_compat_l; lra). lra.
Qed.
Lemma crit_strict c k n r1 r2 : (0 < n)%Z -> 0 < r1 -> r1 < r2 -> crit_score c r1 k n < crit_score c r2 k n.
Proof.
  intros Hn H1 H12. assert (Hn' : 0 < IZR n) by (now apply IZR_lt).
  pose proof (ln_increasing r1 r2 H1 H12) as L.
  assert (L2 : ln (r1 / IZR n) < ln (r2 / IZR n)).
  { apply ln_increasing; [now apply Rdiv_lt_0_compat|]. unfold Rdiv. apply Rmult_lt_compat_r; [now apply Rinv_0_lt_compat | exact H12]. }
  destruct c; cbn [crit_score]; unfold aicc_poly, aic_poly, bic_poly.
  - exact H12.
  - assert (IZR n * ln r1 < IZR n * ln r2) by (apply Rmult_lt_compat_l; lra). lra.
  - assert (IZR n * ln r1 < IZR n * ln r2) by (apply Rmult_lt_compat_l; lra). lra.
  - assert (IZR n * ln (r1 / IZR n) < IZR n * ln (r2 / IZR n)) by (apply Rmult_lt_compat_l; lra). lra.
Qed.

(* C10_criterion_monotone: for fixed k and n every criterion is increasing in the RSS (strictly above the floor), also through
   the clamp of make_score; hence comparing scores of candidates with the same k and n is comparing their RSS *)
Lemma make_score_mono c floor k n r1 r2 : (0 < n)%Z -> 0 < floor -> r1 <= r2 -> make_score c floor r1 k n <= make_score c floor r2 k n.
Proof.
  intros Hn Hf H. unfold make_score. apply crit_mono; [exact Hn| |].
  - eapply Rlt_le_trans; [exact Hf | apply Rmax_r].
  - apply Rle_max_compat_r. exact H.
Qed.
Lemma crit_order_iff c k n r1 r2 : (0 < n)%Z -> 0 < r1 -> 0 < r2 -> (crit_score c r1 k n <= crit_score c r2 k n <-> r1 <= r2).
Proof.
  intros Hn H1 H2. split; [|now apply crit_mono].
  intro H. destruct (Rle_or_lt r1 r2) as [L|L]; [exact L|]. pose proof (crit_strict c k n r2 r1 Hn H2 L). lra.
Qed.
(* the minimiser over a class of candidates with the same number of parameters is the RSS minimiser *)
Lemma make_score_argmin c floor k n (l : list R) r : (0 < n)%Z -> 0 < floor -> In r l -> (forall x, In x l -> r <= x) ->
  forall x, In x l -> make_score c floor r k n <= make_score c floor x k n.
Proof. intros Hn Hf _ Hmin x Hx. apply make_score_mono; [exact Hn | exact Hf | now apply Hmin]. Qed.
(* ... but NOT across different numbers of parameters: the AICc correction changes sign when k exceeds n - 1 *)
Lemma aicc_correction_negative : exists k n : Z, (0 < k)%Z /\ (0 < n)%Z /\ aicc_poly 0 (IZR k) (IZR n) < 0.
Proof. exists 6%Z, 3%Z. repeat split; try lia. unfold aicc_poly. lra. Qed.
