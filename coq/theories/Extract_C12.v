(* extraction of the executable C12 model (ExtrOcamlBasic only; Z/nat/positive stay extracted inductives) *)
From Coq Require Import List ZArith Extraction ExtrOcamlBasic.
From LN Require Import C12_Defs.
Extraction Language OCaml.
Extraction "extracted/c12_model.ml" sort zlen perm_okb apply_perm shuffle_by kfold kfold_layoutb random_split
  random_layoutb sample_without picks_in_rangeb sample_with picks_weightedb sortedb strictb split_okb membersb
  list_eqb.
