(* extraction of the executable C12 model (Z/nat/positive stay extracted inductives).
   Extension: the binary64 twin of sample_from_ball, the count and the model of gboost::sampler_t go into the same module;
   primitive floats / 63-bit integers map to OCaml's native floats / Uint63 of coq-core.kernel (ExtrOCamlFloats,
   ExtrOCamlInt63), as in Extract_C14.v. *)
From Coq Require Import List ZArith Floats Extraction ExtrOcamlBasic ExtrOCamlFloats ExtrOCamlInt63.
From LN Require Import C12_Defs C12_Float_Defs C12_Gboost_Defs.
Extraction Language OCaml.
Extraction "extracted/c12_model.ml" sort zlen perm_okb apply_perm shuffle_by kfold kfold_layoutb random_split
  random_layoutb sample_without picks_in_rangeb sample_with picks_weightedb sortedb strictb split_okb membersb
  list_eqb
  ball_twin ball_comp ball_ok comps_ok squares_nu gb_count trunc_float float_of_size
  k_off k_subsample k_bootstrap k_wei_loss k_wei_grad gb_call gb_alloc gb_weights gb_layoutb wpos_of gb_sample gb_contractb.
