(* C06 extension (convexity, second round) -- executable definitions only, written over the abstract scalar structure [ops T] of
   C06_Defs.v ([Qops] is extracted and compared with the library, [Rops] is what C06_Convex2.v proves things about).

   New objects (formula = what the SOURCE evaluates):
     - matrices as lists of rows: [mv A x] = A x, [mtv n A y] = A' y
     - fn:quadratic  x.(a + 1/2 A x), gradient a + A x, with A = I + B B' as the constructor builds it ([gram1 B])
     - cons:quadratic  1/2 x.(P x) + q.x + r, gradient 1/2 (P + P') x + q (any square P)
     - elastic-net / ridge / lasso regulariser with per-coordinate weights (the linear model regularises W, not b)
     - max-type functions: first-arg-max value / active piece ([maxval]); maxhilb, kinks, maxquad
     - empirical risk of a loss through per-sample affine maps  mean_i L(t_i, M_i x + c_i)  (linear model, gboost bias / scale,
       elastic-net objectives): gradient  mean_i M_i' G(t_i, M_i x + c_i)
   Transcendental objects (log-sum-exp, geometric optimisation) are specified over R only, at the end. No proofs in this file. *)
From Coq Require Import ZArith QArith List Bool Reals.
From LNGen Require Import Src_c06.
From LN Require Import C06_Defs.
Import ListNotations.

Section Poly2.
  Context {T : Type} (OP : ops T).
  Local Notation zr := (o_zero OP).
  Local Notation un := (o_one OP).
  Local Notation "x + y" := (o_add OP x y) : poly_scope.
  Local Notation "x - y" := (o_sub OP x y) : poly_scope.
  Local Notation "x * y" := (o_mul OP x y) : poly_scope.
  Local Notation "- x" := (o_opp OP x) : poly_scope.
  Local Notation "x <? y" := (o_ltb OP x y) : poly_scope.
  Local Open Scope poly_scope.

  (* ---------------------------------------------------------------------------------------------- *)
  (* matrices = lists of rows                                                                        *)
  (* ---------------------------------------------------------------------------------------------- *)
  Definition zeros (n : nat) : list T := repeat zr n.
  Definition mv (A : list (list T)) (x : list T) : list T := map (fun row => dot OP row x) A.
  (* A' y = sum_i y_i row_i (a vector of length n = number of columns) *)
  Fixpoint mtv (n : nat) (A : list (list T)) (y : list T) : list T :=
    match A, y with
    | row :: A', v :: y' => vadd OP (vscale OP v row) (mtv n A' y')
    | _, _ => zeros n
    end.
  (* the identity matrix *)
  Fixpoint identity (n : nat) : list (list T) :=
    match n with O => [] | S n' => (un :: zeros n') :: map (cons zr) (identity n') end.
  Fixpoint madd (A B : list (list T)) : list (list T) :=
    match A, B with r :: A', s :: B' => vadd OP r s :: madd A' B' | _, _ => [] end.
  (* B B': entry (i, j) is the dot product of rows i and j *)
  Definition gram (B : list (list T)) : list (list T) := map (fun r => map (fun c => dot OP r c) B) B.
  (* quadratic.cpp: m_A = identity + A * A.transpose() *)
  Definition gram1 (B : list (list T)) : list (list T) := madd (identity (length B)) (gram B).

  (* quadratic.cpp: value x.dot(a + 0.5 * (A * x)), gradient a + A * x *)
  Definition quad_v (a : list T) (A : list (list T)) (x : list T) : T := dot OP x (vadd OP a (vscale OP (half OP) (mv A x))).
  Definition quad_g (a : list T) (A : list (list T)) (x : list T) : list T := vadd OP a (mv A x).

  (* constraint.cpp, quadratic_t: value 0.5 * x.dot(P * x) + q.dot(x) + r, gradient 0.5 * (P + P') * x + q *)
  Definition cq_v (P : list (list T)) (q : list T) (r : T) (x : list T) : T := half OP * dot OP x (mv P x) + dot OP q x + r.
  Definition cq_g (P : list (list T)) (q : list T) (x : list T) : list T :=
    vadd OP (vscale OP (half OP) (vadd OP (mv P x) (mtv (length x) P x))) q.

  (* regulariser with per-coordinate weights c_j: sum_j c_j (a1 |x_j| + a2/2 x_j^2), gradient c_j (a1 sign x_j + a2 x_j)
     (elastic_net.cpp: c = 1; linear/function.cpp: c = 1 / W.size() on the weights and 0 on the bias) *)
  Definition wreg_v (a1 a2 : T) (cw x : list T) : T := sum2 OP (fun c u => c * (a1 * pabs OP u + half OP * (a2 * sq OP u))) cw x.
  Definition wreg_g (a1 a2 : T) (cw x : list T) : list T := map2 (fun c u => c * (a1 * psgn OP u + a2 * u)) cw x.
  (* linear/function.cpp adds the terms only `if (m_l1reg > 0.0)` / `if (m_l2reg > 0.0)` *)
  Definition pospart (l : T) : T := if zr <? l then l else zr.

  (* ---------------------------------------------------------------------------------------------- *)
  (* max-type functions: value of the FIRST largest piece (maxCoeff(&idx) / `if (kfx > fx)` loops)    *)
  (* ---------------------------------------------------------------------------------------------- *)
  Definition maxval (v : list T) : T := nth (argmax OP v) v zr.

  (* max_i |A_i . x| with the gradient sign(A_idx . x) A_idx, sign(0) = +1 (maxhilb.cpp: std::signbit) *)
  Definition maxabs_v (A : list (list T)) (x : list T) : T := maxval (map (pabs OP) (mv A x)).
  Definition maxabs_g (A : list (list T)) (x : list T) : list T :=
    let row := nth (argmax OP (map (pabs OP) (mv A x))) A [] in
    vscale OP (if dot OP row x <? zr then - un else un) row.
  (* m_weights(i, j) = 1.0 / static_cast<scalar_t>(i + j + 1): the denominator is a translated kernel *)
  Definition hilbert_entry (i j : nat) : T :=
    o_ofQ OP (1 # Z.to_pos (src_c06_maxhilb_den (Z.of_nat i) (Z.of_nat j)))%Q.
  Definition hilbert (n : nat) : list (list T) := map (fun i => map (fun j => hilbert_entry i j) (seq 0 n)) (seq 0 n).
  Definition maxhilb_v (x : list T) : T := maxabs_v (hilbert (length x)) x.
  Definition maxhilb_g (x : list T) : list T := maxabs_g (hilbert (length x)) x.

  (* kinks.cpp: sum_i sum_j |x_j - K_ij| - offset, gradient sum_i sign(x - K_i) (sign(0) = 0) *)
  Definition kinks_v (K : list (list T)) (off : T) (x : list T) : T :=
    total OP (map (fun row => loss_v OP (k_mae_v OP) row x) K) - off.
  Definition kinks_g (K : list (list T)) (x : list T) : list T :=
    fold_right (fun row acc => vadd OP (loss_g (k_mae_g OP) row x) acc) (zeros (length x)) K.

  (* maxquad.cpp: max_k x.(A_k x - b_k) with the gradient 2 A_kmax x - b_kmax of the first largest piece *)
  Definition mq_piece (Ab : list (list T) * list T) (x : list T) : T := dot OP x (vsub OP (mv (fst Ab) x) (snd Ab)).
  Definition mq_grad (Ab : list (list T) * list T) (x : list T) : list T := vsub OP (vscale OP (two OP) (mv (fst Ab) x)) (snd Ab).
  Definition maxquad_v (Abs : list (list (list T) * list T)) (x : list T) : T := maxval (map (fun Ab => mq_piece Ab x) Abs).
  Definition maxquad_g (Abs : list (list (list T) * list T)) (x : list T) : list T :=
    mq_grad (nth (argmax OP (map (fun Ab => mq_piece Ab x) Abs)) Abs ([], [])) x.
  (* the loop test of maxquad.cpp `if (kfx > fx)` (translated kernel, read over Z) keeps the FIRST largest piece *)
  Definition maxquad_test (kfx fx : Z) : bool := src_c06_maxquad_test kfx fx.

  (* ---------------------------------------------------------------------------------------------- *)
  (* empirical risk through per-sample affine maps                                                   *)
  (* sample = (target t, matrix M, offset c): output M x + c                                         *)
  (* ---------------------------------------------------------------------------------------------- *)
  Definition inv_nat (n : nat) : T := o_ofQ OP (1 # Pos.of_nat n)%Q.
  Definition sample_out (s : list T * list (list T) * list T) (x : list T) : list T := vadd OP (mv (snd (fst s)) x) (snd s).
  Definition erm_v (L : list T -> list T -> T) (data : list (list T * list (list T) * list T)) (x : list T) : T :=
    inv_nat (length data) * total OP (map (fun s => L (fst (fst s)) (sample_out s x)) data).
  Definition erm_g (G : list T -> list T -> list T) (data : list (list T * list (list T) * list T)) (x : list T) : list T :=
    vscale OP (inv_nat (length data))
      (fold_right (fun s acc => vadd OP (mtv (length x) (snd (fst s)) (G (fst (fst s)) (sample_out s x))) acc) (zeros (length x)) data).

  (* linear::function_t / gboost / elastic net: risk + weighted regulariser *)
  Definition lin_v L data (l1 l2 : T) (cw x : list T) : T := erm_v L data x + wreg_v (pospart l1) (pospart l2) cw x.
  Definition lin_g G data (l1 l2 : T) (cw x : list T) : list T := vadd OP (erm_g G data x) (wreg_g (pospart l1) (pospart l2) cw x).
  (* elastic_net.cpp: no guards (alpha1, alpha2 >= 0 asserted), every coordinate regularised with weight 1 *)
  Definition enet_v L data (a1 a2 : T) (x : list T) : T := erm_v L data x + wreg_v a1 a2 (repeat un (length x)) x.
  Definition enet_g G data (a1 a2 : T) (x : list T) : list T := vadd OP (erm_g G data x) (wreg_g a1 a2 (repeat un (length x)) x).
End Poly2.

(* the design matrices of linear::function_t: parameters x = [W row-major (tsize x isize), b (tsize)], sample input u:
   output_k = W_k . u + b_k, i.e. row k of M = (0 .. 0, u at block k, 0 .. 0 | e_k) *)
Section Design.
  Context {T : Type} (OP : ops T).
  Definition design_row (isize tsize k : nat) (u : list T) : list T :=
    zeros OP (k * isize) ++ u ++ zeros OP ((tsize - 1 - k) * isize) ++ unit_at OP k (o_one OP) tsize.
  Definition design (isize tsize : nat) (u : list T) : list (list T) := map (fun k => design_row isize tsize k u) (seq 0 tsize).
  (* weights of the regulariser: 1 / (isize * tsize) on the weights, 0 on the bias *)
  Definition lin_cw (isize tsize : nat) : list T := repeat (inv_nat OP (isize * tsize)) (isize * tsize) ++ zeros OP tsize.
End Design.

(* ------------------------------------------------------------------------------------------------ *)
(* transcendental objects over R                                                                     *)
(* ------------------------------------------------------------------------------------------------ *)
Local Open Scope R_scope.

(* log-sum-exp and its gradient, the soft-max *)
Definition sumexp0 (o : list R) : R := sumexp 0 o.
Definition lse (o : list R) : R := ln (sumexp 0 o).
Definition softmax (o : list R) : list R := map (fun v => exp v / sumexp 0 o) o.
(* indicator of the positive labels (class.h: is_pos_target(t) = t > 0) *)
Definition posind (t o : list R) : list R := map2 (fun a _ : R => if Rltb 0 a then 1 else 0) t o.
(* gradient of the ideal class-NLL  lse(o) - sum of the outputs of the positive labels *)
Definition classnll_ideal_g (t o : list R) : list R := vsub Rops (softmax o) (posind t o).

(* geometric.cpp: sum_i exp(a_i + A_i . x), gradient A' exp(a + A x) *)
Definition geo_v (a : list R) (A : list (list R)) (x : list R) : R :=
  total Rops (map exp (vadd Rops a (mv Rops A x))).
Definition geo_g (a : list R) (A : list (list R)) (x : list R) : list R :=
  mtv Rops (length x) A (map exp (vadd Rops a (mv Rops A x))).
