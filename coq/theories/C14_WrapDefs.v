(* C14 (second extension) -- the wrappers of src/linear.cpp as thin compositions over C14_Defs (exact rationals).

   ::fit (anonymous namespace of linear.cpp): the training iterator runs with the model's `linear::scaling` parameter, the
   solver returns (W, b) in SCALED space, then  ::upscale(flatten_stats, iterator.scaling(), targets_stats, iterator.scaling(),
   weights, bias)  converts them; linear_t::fit stores the converted pair as m_weights / m_bias.
   linear_t::do_predict: the iterator runs with scaling_type::none (scalar_stats_t::scale(none) = nan2zero: a missing raw input
   becomes 0 in RAW space), then linear::predict: outputs = inputs * W'^T + b'.
   The modes are the kernels translated from linear.cpp / linear/util.cpp on every run (LNGen.Src_dlinear). No proofs here. *)
From Coq Require Import List ZArith QArith Bool.
From LNGen Require Import Src_dstats Src_dlinear.
From LN Require Import C14_Defs.
Import ListNotations.
Local Open Scope Q_scope.

Definition Z_of_mode (m : mode) : Z := match m with MNone => 0 | MMean => 1 | MMinMax => 2 | MStandard => 3 end.

(* nano::upscale on all outputs: ts / W / b have one entry per output *)
Fixpoint lin_store (fm tm : mode) (fs ts : list stats) (W : list (list Q)) (b : list Q) : list (list Q * Q) :=
  match ts, W, b with
  | t :: ts', w :: W', bi :: b' => (up_wrow fm tm fs t w, up_bias fm tm fs t w bi) :: lin_store fm tm fs ts' W' b'
  | _, _, _ => []
  end.

(* what linear_t::fit stores for the model parameter [p] = linear::scaling *)
Definition fit_mode_f (p : mode) : mode := mode_of_Z (src_c14l_fit_fmode (src_c14l_fit_scaling (Z_of_mode p))).
Definition fit_mode_t (p : mode) : mode := mode_of_Z (src_c14l_fit_tmode (src_c14l_fit_scaling (Z_of_mode p))).
Definition train_mode (p : mode) : mode := mode_of_Z (src_c14l_fit_scaling (Z_of_mode p)).
Definition fit_store (p : mode) (fs ts : list stats) (W : list (list Q)) (b : list Q) : list (list Q * Q) :=
  lin_store (fit_mode_f p) (fit_mode_t p) fs ts W b.

(* linear_t::do_predict on one raw row (None = missing) *)
Definition predict_mode : mode := mode_of_Z src_c14l_predict_mode.
Definition lin_predict (stored : list (list Q * Q)) (inputs : list Q) : list Q :=
  map (fun wb => dot (fst wb) inputs + snd wb) stored.
Definition wrap_predict (fs : list stats) (stored : list (list Q * Q)) (raw : list (option Q)) : list Q :=
  lin_predict stored (scale_row predict_mode fs raw).

(* the reference of the property: the up-scaled outputs of the scaled-space model on the scaled inputs *)
Fixpoint scaled_outputs (W : list (list Q)) (b : list Q) (sx : list Q) : list Q :=
  match W, b with
  | w :: W', bi :: b' => (dot w sx + bi) :: scaled_outputs W' b' sx
  | _, _ => []
  end.
Definition ref_predict (fm tm : mode) (fs ts : list stats) (W : list (list Q)) (b : list Q) (raw : list (option Q)) : list Q :=
  upscale_row tm ts (scaled_outputs W b (scale_row fm fs raw)).

(* a missing raw input is read as 0 in raw space *)
Definition zero_missing (raw : list (option Q)) : list Q := map (fun v => match v with Some x => x | None => 0 end) raw.
(* per column: what the missing inputs contribute in SCALED space when they are read as raw 0: scale(0) = scaling_b *)
Fixpoint miss_vec (fm : mode) (fs : list stats) (raw : list (option Q)) : list Q :=
  match fs, raw with
  | f :: fs', v :: raw' => (match v with None => scaling_b fm f | Some _ => 0 end) :: miss_vec fm fs' raw'
  | _, _ => []
  end.

(* the discrepancy per output when a row has missing inputs, and element-wise addition *)
Fixpoint miss_terms (fm tm : mode) (fs ts : list stats) (W : list (list Q)) (raw : list (option Q)) : list Q :=
  match ts, W with
  | t :: ts', w :: W' => dot w (miss_vec fm fs raw) / scaling_w tm t :: miss_terms fm tm fs ts' W' raw
  | _, _ => []
  end.
Fixpoint qadd_list (a b : list Q) : list Q :=
  match a, b with x :: a', y :: b' => (x + y) :: qadd_list a' b' | _, _ => [] end.

(* example objects for the non-vacuity / refutation statements *)
Definition wx_stats : stats := mkstats 3 1 5 3 2 (1 # 4) 4 (1 # 2) 2.      (* the column [1; 3; 5] *)
