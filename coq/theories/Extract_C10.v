(* extraction of the executable C10 model. Z / positive are mapped to Zarith big integers (ExtrOcamlZBigInt):
   the exact moments of a 60-sample column are rationals with numerators of several hundred bits. *)
From Coq Require Import List ZArith QArith Extraction ExtrOcamlBasic ExtrOcamlZBigInt.
From LN Require Import C10_Defs C10_Ext_Defs C10_TreeFit_Defs.
Extraction Language OCaml.
Extraction "extracted/c10_model.ml" qlt qsum clamp best_of stump_cands stump_fit hinge_cands hinge_fit affine_cands affine_fit
  dense_cands dense_fit kbest_cands kbest_fit kbest_rss_seq fit_chunked rss_of stump_pred hinge_pred affine_pred
  group incr predict zeros scale try_merge merge predict_all tree_of_stump find keys_of
  kbest_sorted kbest_hashes kbest_tables kbest_pred ksplit_trials ksplit_rss_seq ksplit_fit ksplit_pred c_dist c_mean c_rss closest cpairs
  tree_wf tree_bfs bfs_done assigned walk_from tree_group side_of
  tree_fit stump_node stump_best stump_xcands tcol child_ids tree_err tree_rss leaf_rss_sum reaches fit_fuel
  Qred Qplus Qminus Qmult Qdiv Qopp Qle_bool Qeq_bool inject_Z.
