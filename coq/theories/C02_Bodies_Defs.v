(* C02 (extension 2) -- the bodies of the simplest best-state ("non-monotonic") solvers inside the model, as whole runs:

     src/solver/sgm.cpp     sub-gradient method:    x -= lambda * g / |g|_2,  lambda = 1 / pow(iteration + 1, power)
     src/solver/cocob.cpp   coin betting:           element-wise L, G, theta, reward, x = x0 + tanh(theta/(G+L))/L * (L + reward)
     src/solver/pdsgm.cpp   primal-dual sub-gradient methods sda / wda (simple / weighted dual averaging)

   They share one skeleton (no done() call before the loop; the state object is the BEST state, only ever changed by
   update_if_better and done):

       state = solver_state_t{function, x0};  x = state.x();  g = state.gx();  <auxiliaries>
       while (fcalls + gcalls < max_evals) {
           [sgm, pdsgm]  if (g.lpNorm<Infinity>() < DBL_EPSILON) { done(state, iter_ok0, true); break; }
           x = <next point from x, g, auxiliaries>;
           f = function.vgrad(x, g);   state.update_if_better(x, g, f);
           iter_ok = isfinite(f);  converged = state.value_test(patience) < epsilon;
           if (done(state, iter_ok, converged)) break;
           [sgm]  ++iteration;
       }
       return state;

   [b_run] is that skeleton over an arbitrary [rule] (how the next point is computed); the theorems about termination,
   honesty, the best value and the status hold for EVERY rule and every oracle; the three concrete rules are below.
   Element-wise vector code is scalar binary64 code (bit-exact, also through SSE2 packets: no FMA, no re-association).
   Oracles (arbitrary functions; the theorems quantify over all of them; the replaying driver answers from the recording):
     bo_eval k x    the k-th evaluation of the objective, at the point x: (f(x), g(x))
     bo_norm2 v     v.lpNorm<2>()   -- an Eigen reduction (not bit-reproducible)
     bo_pow b p     std::pow(double(b), p)  -- libm
     bo_tanh v      std::tanh(v)            -- libm (Eigen's array tanh for double calls it per element)
   lpNorm<Infinity> is order-insensitive: recomputed ([maxabs]; Eigen's result is unspecified on vectors containing NaN).
   std::sqrt is correctly rounded: PrimFloat.sqrt.
   Dead members of pdsgm's model_t (m_Sk, m_xk1h, m_lgx: only read by gap() / dual_xk1(), which do_minimize never calls)
   are not modelled.   No proofs in this file. *)
From Coq Require Import ZArith List Bool Floats.
From LNGen Require Import Src_c02 Src_c02b.
From LN Require Import C02_Defs.
Import ListNotations.
Local Open Scope Z_scope.

Definition bpoint := list float.

Definition f_eps : float := 0x1p-52%float.     (* std::numeric_limits<double>::epsilon() *)
Definition f_two : float := 2%float.

Fixpoint map2 (f : float -> float -> float) (a b : bpoint) : bpoint :=
  match a, b with
  | x :: a', y :: b' => f x y :: map2 f a' b'
  | _, _ => []
  end.
Definition fabs (v : float) : float := PrimFloat.abs v.

Record boracles := mkBO {
  bo_eval : Z -> bpoint -> float * bpoint;
  bo_norm2 : bpoint -> float;
  bo_pow : Z -> float -> float;
  bo_tanh : float -> float
}.

(* what a body keeps between two passes besides the best state *)
Record baux := mkA {
  a_x : bpoint;      (* the current iterate `x` *)
  a_g : bpoint;      (* the sub-gradient at it `g` / `gx` *)
  a_it : Z;          (* sgm: `iteration` *)
  a_v1 : bpoint;     (* cocob: L       pdsgm: m_sk1 *)
  a_v2 : bpoint;     (* cocob: G *)
  a_v3 : bpoint;     (* cocob: theta *)
  a_v4 : bpoint;     (* cocob: reward *)
  a_s1 : float;      (* pdsgm: m_L *)
  a_s2 : float       (* pdsgm: m_beta *)
}.

Record rule := mkRule {
  r_loop : Z -> Z -> Z -> bool;                 (* the while condition *)
  r_init : bpoint -> bpoint -> baux;            (* from x0 and g(x0) *)
  r_exit : sstate -> baux -> option bool;       (* the zero-sub-gradient exit: Some iter_ok0 *)
  r_exit_conv : bool;                           (* the `converged` flag of that exit *)
  r_step : baux -> bpoint * baux;               (* the next point and the auxiliaries after computing it *)
  r_iter_ok : bool -> bool;                     (* iter_ok from isfinite(f) *)
  r_conv : bool -> bool;                        (* converged from value_test(patience) < epsilon *)
  r_next : baux -> baux                         (* end of a pass that goes on (++iteration) *)
}.

Record bconf := mkBC {
  bc_eps : float;          (* solver::epsilon *)
  bc_maxev : Z;            (* solver::max_evals *)
  bc_patience : Z;         (* solver::<id>::patience *)
  bc_p : float             (* sgm: power;  cocob: L0 (the one selected by function.smooth());  pdsgm: D *)
}.

(* the run so far; br_iters / br_ok / br_conv / br_exit are ghosts *)
Record brun := mkBR {
  br_s : sstate;           (* `state`: the best state *)
  br_a : baux;
  br_fc : Z; br_gc : Z;    (* function.fcalls(), function.gcalls() *)
  br_ne : Z;               (* evaluations requested so far (index of the next oracle call) *)
  br_iters : Z;            (* passes that evaluated *)
  br_dones : Z;            (* done() calls *)
  br_ok : bool;            (* iter_ok of the most recent done() call *)
  br_conv : bool;          (* converged flag of the most recent done() call *)
  br_exit : Z              (* 0 fuel exhausted, 1 loop condition false, 2 done() after an evaluation, 3 zero-sub-gradient exit *)
}.

Definition BX_FUEL : Z := 0.
Definition BX_BUDGET : Z := 1.
Definition BX_DONE : Z := 2.
Definition BX_ZERO : Z := 3.

Definition bset_exit (r : brun) (e : Z) : brun :=
  mkBR (br_s r) (br_a r) (br_fc r) (br_gc r) (br_ne r) (br_iters r) (br_dones r) (br_ok r) (br_conv r) e.

Definition set_xg (a : baux) (x g : bpoint) : baux :=
  mkA x g (a_it a) (a_v1 a) (a_v2 a) (a_v3 a) (a_v4 a) (a_s1 a) (a_s2 a).

Section Run.
  Variable orc : boracles.
  Variable R : rule.
  Variable cfg : bconf.

  (* one pass through the loop body; returns the run and whether the loop is left *)
  Definition b_iter (st : brun) : brun * bool :=
    match r_exit R (br_s st) (br_a st) with
    | Some ok0 =>
      let '(s', _) := done_step (br_s st) (br_fc st) (br_gc st) ok0 (r_exit_conv R) in
      (mkBR s' (br_a st) (br_fc st) (br_gc st) (br_ne st) (br_iters st) (br_dones st + 1) ok0 (r_exit_conv R) BX_ZERO, true)
    | None =>
      let '(x', a1) := r_step R (br_a st) in
      let '(f, g') := bo_eval orc (br_ne st) x' in
      let '(fc, gc) := eval_counters (br_fc st) (br_gc st) true in
      let '(s1, _) := update_if_better (br_s st) fc gc x' g' f in
      let ok := r_iter_ok R (ffin f) in
      let conv := r_conv R (PrimFloat.ltb (value_test s1 (bc_patience cfg)) (bc_eps cfg)) in
      let '(s2, stop) := done_step s1 fc gc ok conv in
      (mkBR s2 (if stop then set_xg a1 x' g' else r_next R (set_xg a1 x' g')) fc gc (br_ne st + 1) (br_iters st + 1)
            (br_dones st + 1) ok conv (if stop then BX_DONE else br_exit st), stop)
    end.

  Fixpoint b_loop (fuel : nat) (st : brun) : brun :=
    match fuel with
    | O => bset_exit st BX_FUEL
    | S k =>
      if r_loop R (br_fc st) (br_gc st) (bc_maxev cfg) then
        let '(st', stop) := b_iter st in
        if stop then st' else b_loop k st'
      else bset_exit st BX_BUDGET
    end.

  (* solver_state_t{function, x0} after function.clear_statistics() *)
  Definition b_init (x0 : bpoint) : brun :=
    let '(f, g) := bo_eval orc 0 x0 in
    let '(fc, gc) := eval_counters 0 0 true in
    mkBR (mkS x0 f g true ST_MAX_ITERS fc gc []) (r_init R x0 g) fc gc 1 0 0 true false BX_BUDGET.

  Definition b_run (fuel : nat) (x0 : bpoint) : brun := b_loop fuel (b_init x0).

  (* enough fuel for every run: each pass that goes on adds 2 to fcalls + gcalls *)
  Definition b_fuel : nat := S (Z.to_nat (bc_maxev cfg)).

  (* the state do_minimize returns *)
  Definition b_minimize (x0 : bpoint) : sstate := br_s (b_run b_fuel x0).
End Run.

(* ------------------------------------------------------------------------------------------------------------- *)
(* sgm.cpp                                                                                                        *)
(* ------------------------------------------------------------------------------------------------------------- *)
Definition zero_grad (g : bpoint) : bool := PrimFloat.ltb (maxabs g) f_eps.

Definition aux0 (x g : bpoint) : baux := mkA x g 0 [] [] [] [] PrimFloat.zero PrimFloat.zero.

(* lambda = 1.0 / std::pow(iteration + 1, power) *)
Definition sgm_lambda (orc : boracles) (power : float) (it : Z) : float :=
  PrimFloat.div PrimFloat.one (bo_pow orc (src_sgm_pow_base it) power).

(* x -= lambda * g / g.lpNorm<2>():  x_i - ((lambda * g_i) / norm) *)
Definition sgm_point (lambda nrm : float) (x g : bpoint) : bpoint :=
  map2 (fun xi gi => PrimFloat.sub xi (PrimFloat.div (PrimFloat.mul lambda gi) nrm)) x g.

Definition sgm_rule (orc : boracles) (cfg : bconf) : rule :=
  mkRule src_loop_sgm
         (fun x0 g0 => mkA x0 g0 src_sgm_iter0 [] [] [] [] PrimFloat.zero PrimFloat.zero)
         (fun _ a => if src_sgm_zero_exit (zero_grad (a_g a)) then Some src_sgm_zero_ok else None)
         src_sgm_zero_conv
         (fun a => (sgm_point (sgm_lambda orc (bc_p cfg) (a_it a)) (bo_norm2 orc (a_g a)) (a_x a) (a_g a), a))
         src_sgm_iter_ok src_sgm_conv
         (fun a => mkA (a_x a) (a_g a) (src_sgm_next_iter (a_it a)) (a_v1 a) (a_v2 a) (a_v3 a) (a_v4 a) (a_s1 a) (a_s2 a)).

(* ------------------------------------------------------------------------------------------------------------- *)
(* cocob.cpp                                                                                                      *)
(* ------------------------------------------------------------------------------------------------------------- *)
Definition full (x : bpoint) (v : float) : bpoint := map (fun _ => v) x.

(* L.array() = L.array().max(gx.array().abs()) *)
Definition cocob_L (L g : bpoint) : bpoint := map2 (fun l gi => fmax l (fabs gi)) L g.
(* G.array() += gx.array().abs() *)
Definition cocob_G (G g : bpoint) : bpoint := map2 (fun s gi => PrimFloat.add s (fabs gi)) G g.
(* theta -= gx *)
Definition cocob_theta (th g : bpoint) : bpoint := map2 PrimFloat.sub th g.
(* reward = (reward.array() - (x - x0).array() * gx.array()).max(0.0) *)
Fixpoint cocob_reward (rw x x0 g : bpoint) : bpoint :=
  match rw, x, x0, g with
  | r :: rw', xi :: x', x0i :: x0', gi :: g' =>
    fmax (PrimFloat.sub r (PrimFloat.mul (PrimFloat.sub xi x0i) gi)) PrimFloat.zero :: cocob_reward rw' x' x0' g'
  | _, _, _, _ => []
  end.
(* beta = (theta / (G + L)).tanh() / L;  x = x0 + beta * (L + reward) *)
Fixpoint cocob_point (orc : boracles) (x0 th G L rw : bpoint) : bpoint :=
  match x0, th, G, L, rw with
  | x0i :: x0', t :: th', s :: G', l :: L', r :: rw' =>
    PrimFloat.add x0i (PrimFloat.mul (PrimFloat.div (bo_tanh orc (PrimFloat.div t (PrimFloat.add s l))) l) (PrimFloat.add l r))
    :: cocob_point orc x0' th' G' L' rw'
  | _, _, _, _, _ => []
  end.

Definition cocob_step (orc : boracles) (x0 : bpoint) (a : baux) : bpoint * baux :=
  let g := a_g a in
  let L := cocob_L (a_v1 a) g in
  let G := cocob_G (a_v2 a) g in
  let th := cocob_theta (a_v3 a) g in
  let rw := cocob_reward (a_v4 a) (a_x a) x0 g in
  (cocob_point orc x0 th G L rw, mkA (a_x a) g (a_it a) L G th rw (a_s1 a) (a_s2 a)).

(* the rule needs x0 (the loop reads it): it is the first argument of r_init, kept by closing over it *)
Definition cocob_rule (orc : boracles) (cfg : bconf) (x0 : bpoint) : rule :=
  mkRule src_loop_cocob
         (fun x g0 => mkA x g0 0 (full x (bc_p cfg)) (full x PrimFloat.zero) (full x PrimFloat.zero) (full x PrimFloat.zero)
                          PrimFloat.zero PrimFloat.zero)
         (fun _ _ => None) true
         (cocob_step orc x0)
         src_cocob_iter_ok src_cocob_conv (fun a => a).

(* which of the two registered L0 parameters the body reads (1 = L0-smooth, 0 = L0-nonsmooth) *)
Definition cocob_L0_choice (smooth : bool) : Z := src_cocob_L0 smooth.

(* ------------------------------------------------------------------------------------------------------------- *)
(* pdsgm.cpp (sda: weighted = false, wda: weighted = true)                                                        *)
(* ------------------------------------------------------------------------------------------------------------- *)
Definition pdsgm_step (orc : boracles) (weighted : bool) (D : float) (x0 : bpoint) (a : baux) : bpoint * baux :=
  let g := a_g a in
  (* model.updateL(gx) *)
  let gnorm := bo_norm2 orc g in
  let reset := src_pdsgm_reset (PrimFloat.ltb (a_s1 a) gnorm) in
  let L := if reset then gnorm else a_s1 a in
  let sk := if reset then full (a_v1 a) PrimFloat.zero else a_v1 a in
  let beta := if reset then PrimFloat.one else a_s2 a in
  (* [lambda, betah] = update(model, gx) *)
  let root := PrimFloat.sqrt (PrimFloat.mul f_two D) in
  let lambda := if weighted then PrimFloat.div PrimFloat.one (bo_norm2 orc g) else PrimFloat.one in
  let betah := if weighted then PrimFloat.div beta root else PrimFloat.mul (PrimFloat.div L root) beta in
  (* model.update(lambda, x, gx) *)
  let beta' := PrimFloat.add beta (PrimFloat.div PrimFloat.one beta) in
  let sk' := map2 (fun s gi => PrimFloat.add s (PrimFloat.mul lambda gi)) sk g in
  (* x = model.xk1(betah) = x0 - sk1 / betah *)
  (map2 (fun x0i s => PrimFloat.sub x0i (PrimFloat.div s betah)) x0 sk',
   mkA (a_x a) g (a_it a) sk' (a_v2 a) (a_v3 a) (a_v4 a) L beta').

Definition pdsgm_rule (orc : boracles) (weighted : bool) (cfg : bconf) (x0 : bpoint) : rule :=
  mkRule src_loop_pdsgm
         (fun x g0 => mkA x g0 0 (full x PrimFloat.zero) [] [] [] PrimFloat.zero PrimFloat.one)
         (fun s a => if src_pdsgm_zero_exit (zero_grad (a_g a)) then Some (src_pdsgm_zero_ok (valid s)) else None)
         src_pdsgm_zero_conv
         (pdsgm_step orc weighted (bc_p cfg) x0)
         src_pdsgm_iter_ok src_pdsgm_conv (fun a => a).

(* ------------------------------------------------------------------------------------------------------------- *)
(* the four bodies                                                                                                *)
(* ------------------------------------------------------------------------------------------------------------- *)
Inductive bbody := BSgm | BCocob | BSda | BWda.

Definition rule_of (b : bbody) (orc : boracles) (cfg : bconf) (x0 : bpoint) : rule :=
  match b with
  | BSgm => sgm_rule orc cfg
  | BCocob => cocob_rule orc cfg x0
  | BSda => pdsgm_rule orc false cfg x0
  | BWda => pdsgm_rule orc true cfg x0
  end.

Definition body_run (b : bbody) (orc : boracles) (cfg : bconf) (fuel : nat) (x0 : bpoint) : brun :=
  b_run orc (rule_of b orc cfg x0) cfg fuel x0.

Definition body_minimize (b : bbody) (orc : boracles) (cfg : bconf) (x0 : bpoint) : sstate :=
  br_s (body_run b orc cfg (b_fuel cfg) x0).

Definition bbody_of_Z (z : Z) : bbody :=
  if z =? 0 then BSgm else if z =? 1 then BCocob else if z =? 2 then BSda else BWda.
