(* C01 (stage C01Q) -- the quasi-Newton algebra of L-BFGS / BFGS and the other quasi-Newton solvers.
   Only statements + `exact` + Print Assumptions live here.  Model: C01Q_Defs (the five inverse-Hessian updates of
   src/solver/quasi.cpp and the two-loop recursion of src/solver/lbfgs.cpp as written, generic over a record of field
   operations; extracted at the canonical rationals and run against the hook events of the real solvers on every run).
   Proofs: C01Q_Proofs.

   Every theorem is stated for ALL dimensions n, ALL matrices / vectors, over ANY ordered field [OF : ordered_field FO]
   (Leibniz equality, positive cone [of_pos OF]); C01Q_instance_Qc / C01Q_instance_R give the two instances used.
   Vectors are lists, matrices lists of rows;  H+ y  is [mv FO H+ y],  a'b  is [dot FO a b];  symmetry is symmetry of the
   bilinear form on vectors of the matrix' dimension ([msym]; C01Q_symmetry_entries reads it entry-wise);  positive
   definiteness is  z <> 0 -> z' H z > 0  ([pd]).

   NOT proved (compared on every run within 1e-9 of a running error bound): the floating-point rounding of Eigen's
   evaluation of the same formulas.  NOT guaranteed by lbfgs.cpp / quasi.cpp (hence a hypothesis, counted on every run):
   the curvature condition s'y > 0 of the stored pairs -- it is a property of the line search (Wolfe / approximate Wolfe
   conditions with c2 < 1), lbfgs.cpp only stores a pair when the previous direction was a descent direction. *)
From Coq Require Import List ZArith QArith Qcanon Reals.
From LNGen Require Import Src_c01q.
From LN Require Import C01Q_Defs C01Q_Proofs.
Import ListNotations.

(* ---- instances ------------------------------------------------------------------------------------------------------ *)
Theorem C01Q_instance_Qc : ordered_field QcO.
Proof. exact Qc_ordered_field. Defined.
Print Assumptions C01Q_instance_Qc.
Theorem C01Q_instance_R : ordered_field RO.
Proof. exact R_ordered_field. Defined.
Print Assumptions C01Q_instance_R.

(* ---- secant equation  H+ y = s -------------------------------------------------------------------------------------- *)
Theorem C01Q_secant_bfgs : forall F (FO : fops F) (OF : ordered_field FO) H s y,
  length s = length H -> length y = length H -> dot FO s y <> f0 FO ->
  mv FO (bfgs FO H s y) y = s.
Proof. intros F FO OF. exact (secant_bfgs F FO (of_th OF)). Qed.
Print Assumptions C01Q_secant_bfgs.

Theorem C01Q_secant_dfp : forall F (FO : fops F) (OF : ordered_field FO) H s y,
  length s = length H -> dot FO s y <> f0 FO -> dot FO y (mv FO H y) <> f0 FO ->
  mv FO (dfp FO H s y) y = s.
Proof. intros F FO OF. exact (secant_dfp F FO (of_th OF)). Qed.
Print Assumptions C01Q_secant_dfp.

(* SR1 when its denominator (s - H y)'y is not zero *)
Theorem C01Q_secant_sr1 : forall F (FO : fops F) (OF : ordered_field FO) H s y,
  length s = length H -> dot FO (vsub FO s (mv FO H y)) y <> f0 FO ->
  mv FO (sr1_plain FO H s y) y = s.
Proof. intros F FO OF. exact (secant_sr1 F FO (of_th OF)). Qed.
Print Assumptions C01Q_secant_sr1.

(* SR1 with the safeguard of the solver: whenever the test |denom| >= r |s| |s - H y| lets the update through (r > 0,
   s <> 0, s <> H y) the denominator is not zero and the secant equation holds *)
Theorem C01Q_secant_sr1_safeguarded : forall F (FO : fops F) (OF : ordered_field FO) r H s y,
  length s = length H -> sr1_apply FO r H s y = true -> of_pos OF r -> s <> zeros FO (length s) ->
  vsub FO s (mv FO H y) <> zeros FO (length (vsub FO s (mv FO H y))) ->
  mv FO (sr1 FO r H s y) y = s.
Proof.
  intros F FO OF.
  exact (secant_sr1_safeguarded F FO (of_th OF) (of_pos OF) (of_add OF) (of_mul OF) (of_cases OF) (of_0 OF) (of_cmp OF)).
Qed.
Print Assumptions C01Q_secant_sr1_safeguarded.

(* the whole Broyden family (1 - phi) DFP + phi BFGS, any phi; HOSHINO is the member phi = s'y / (s'y + y'Hy) *)
Theorem C01Q_secant_broyden : forall F (FO : fops F) (OF : ordered_field FO) phi H s y,
  length s = length H -> length y = length H -> dot FO s y <> f0 FO -> dot FO y (mv FO H y) <> f0 FO ->
  mv FO (broyden FO phi H s y) y = s /\ mv FO (hoshino FO H s y) y = s.
Proof.
  intros F FO OF phi H s y Ls Ly N1 N2.
  split; [|unfold hoshino]; apply (secant_broyden F FO (of_th OF)); assumption.
Qed.
Print Assumptions C01Q_secant_broyden.

(* FLETCHER's three-way switch: every branch satisfies the secant equation *)
Theorem C01Q_secant_fletcher : forall F (FO : fops F) (OF : ordered_field FO) H s y,
  length s = length H -> length y = length H -> dot FO s y <> f0 FO -> dot FO y (mv FO H y) <> f0 FO ->
  dot FO s y <> dot FO y (mv FO H y) ->
  mv FO (fletcher FO H s y) y = s.
Proof. intros F FO OF. exact (secant_fletcher F FO (of_th OF)). Qed.
Print Assumptions C01Q_secant_fletcher.

(* ---- symmetry is preserved by all five updates (no hypothesis on the denominators) --------------------------------- *)
Theorem C01Q_symmetry : forall F (FO : fops F) (OF : ordered_field FO) k r H s y,
  length y = length H -> msym FO (length H) H -> msym FO (length H) (quasi_update FO k r H s y).
Proof. intros F FO OF. exact (msym_quasi_update F FO (of_th OF)). Qed.
Print Assumptions C01Q_symmetry.

Theorem C01Q_symmetry_entries : forall F (FO : fops F) (OF : ordered_field FO) n H,
  msym FO n H -> forall i j, (i < n)%nat -> (j < n)%nat -> nth j (nth i H []) (f0 FO) = nth i (nth j H []) (f0 FO).
Proof. intros F FO OF. exact (msym_entries F FO (of_th OF)). Qed.
Print Assumptions C01Q_symmetry_entries.

(* ---- positive definiteness is preserved when s'y > 0 ----------------------------------------------------------------- *)
Theorem C01Q_posdef_bfgs : forall F (FO : fops F) (OF : ordered_field FO) n H s y,
  length H = n -> length s = n -> length y = n ->
  pd FO (of_pos OF) n H -> of_pos OF (dot FO s y) -> pd FO (of_pos OF) n (bfgs FO H s y).
Proof. intros F FO OF. exact (pd_bfgs F FO (of_th OF) (of_pos OF) (of_add OF) (of_mul OF) (of_cases OF) (of_0 OF)). Qed.
Print Assumptions C01Q_posdef_bfgs.

Theorem C01Q_posdef_dfp : forall F (FO : fops F) (OF : ordered_field FO) n H s y,
  length H = n -> length s = n -> length y = n -> msym FO n H ->
  pd FO (of_pos OF) n H -> of_pos OF (dot FO s y) -> pd FO (of_pos OF) n (dfp FO H s y).
Proof. intros F FO OF. exact (pd_dfp F FO (of_th OF) (of_pos OF) (of_add OF) (of_mul OF) (of_cases OF) (of_0 OF)). Qed.
Print Assumptions C01Q_posdef_dfp.

(* the convex combinations phi in [0, 1], and HOSHINO (whose phi lies strictly between 0 and 1) *)
Theorem C01Q_posdef_broyden : forall F (FO : fops F) (OF : ordered_field FO) n phi H s y,
  length H = n -> length s = n -> length y = n -> msym FO n H ->
  pd FO (of_pos OF) n H -> of_pos OF (dot FO s y) ->
  (nonneg FO (of_pos OF) phi -> nonneg FO (of_pos OF) (fsub FO (f1 FO) phi) -> pd FO (of_pos OF) n (broyden FO phi H s y)) /\
  pd FO (of_pos OF) n (hoshino FO H s y).
Proof.
  intros F FO OF n phi H s y LH Ls Ly S P SY. split.
  - intros A B. exact (pd_broyden F FO (of_th OF) (of_pos OF) (of_add OF) (of_mul OF) (of_cases OF) (of_0 OF) n phi H s y LH Ls Ly S P SY A B).
  - exact (pd_hoshino F FO (of_th OF) (of_pos OF) (of_add OF) (of_mul OF) (of_cases OF) (of_0 OF) n H s y LH Ls Ly S P SY).
Qed.
Print Assumptions C01Q_posdef_broyden.

(* FLETCHER: with s'y > 0 and H positive definite the switch takes the DFP or the BFGS branch (never SR1) unless
   s'y = y'Hy, hence preserves positive definiteness *)
Theorem C01Q_posdef_fletcher : forall F (FO : fops F) (OF : ordered_field FO) n H s y,
  length H = n -> length s = n -> length y = n -> msym FO n H ->
  pd FO (of_pos OF) n H -> of_pos OF (dot FO s y) -> dot FO s y <> dot FO y (mv FO H y) ->
  (fletcher FO H s y = dfp FO H s y \/ fletcher FO H s y = bfgs FO H s y) /\ pd FO (of_pos OF) n (fletcher FO H s y).
Proof.
  intros F FO OF n H s y LH Ls Ly S P SY NE. split.
  - exact (fletcher_branch F FO (of_th OF) (of_pos OF) (of_add OF) (of_mul OF) (of_cases OF) (of_0 OF) (of_cmp OF) n H s y Ly P SY NE).
  - exact (pd_fletcher F FO (of_th OF) (of_pos OF) (of_add OF) (of_mul OF) (of_cases OF) (of_0 OF) (of_cmp OF) n H s y LH Ls Ly S P SY NE).
Qed.
Print Assumptions C01Q_posdef_fletcher.

(* hence the quasi-Newton direction -H g is a descent direction (what has_descent tests: g . descent < 0) *)
Theorem C01Q_descent_quasi : forall F (FO : fops F) (OF : ordered_field FO) n H g,
  pd FO (of_pos OF) n H -> length g = n -> g <> zeros FO n ->
  of_pos OF (fopp FO (dot FO g (quasi_direction FO H g))).
Proof. intros F FO OF. exact (descent_quasi F FO (of_th OF) (of_pos OF)). Qed.
Print Assumptions C01Q_descent_quasi.

(* every matrix a run of solver_quasi_t can hold (identity or scaled start, any sequence of updates of kind k) is
   symmetric; for bfgs / dfp / hoshino and pairs of positive curvature it is positive definite *)
Theorem C01Q_run_invariants : forall F (FO : fops F) (OF : ordered_field FO) n k r H,
  (reachable FO n k r H -> length H = n /\ msym FO n H) /\
  (k = KBFGS \/ k = KDFP \/ k = KHOSHINO -> reachable_pos FO (of_pos OF) n k r H -> pd FO (of_pos OF) n H).
Proof.
  intros F FO OF n k r H. split.
  - intros R. split; [exact (reachable_length F FO n k r H R)|exact (reachable_msym F FO (of_th OF) n k r H R)].
  - exact (reachable_pd F FO (of_th OF) (of_pos OF) (of_add OF) (of_mul OF) (of_cases OF) (of_0 OF) n k r H).
Qed.
Print Assumptions C01Q_run_invariants.

(* ---- L-BFGS ------------------------------------------------------------------------------------------------------------ *)
(* the two-loop recursion returns H_k g, H_k = the BFGS_ updates of quasi.cpp applied to H_0 = (s'y / y'y) I of the newest
   pair (I for an empty history) with the stored pairs oldest to newest; no hypothesis on the curvatures *)
Theorem C01Q_lbfgs_two_loop : forall F (FO : fops F) (OF : ordered_field FO) n hist g,
  pairs_ok n hist -> length g = n -> two_loop FO hist g = mv FO (lbfgs_matrix FO n hist) g.
Proof. intros F FO OF. exact (two_loop_matrix F FO (of_th OF)). Qed.
Print Assumptions C01Q_lbfgs_two_loop.

(* that matrix is positive definite when every stored pair has s'y > 0 ... *)
Theorem C01Q_lbfgs_posdef : forall F (FO : fops F) (OF : ordered_field FO) n hist,
  pairs_ok n hist -> curv_ok FO (of_pos OF) hist -> pd FO (of_pos OF) n (lbfgs_matrix FO n hist).
Proof. intros F FO OF. exact (pd_lbfgs_matrix F FO (of_th OF) (of_pos OF) (of_add OF) (of_mul OF) (of_cases OF) (of_0 OF)). Qed.
Print Assumptions C01Q_lbfgs_posdef.

(* ... hence the L-BFGS direction -r is a descent direction *)
Theorem C01Q_lbfgs_descent : forall F (FO : fops F) (OF : ordered_field FO) n hist g,
  pairs_ok n hist -> curv_ok FO (of_pos OF) hist -> length g = n -> g <> zeros FO n ->
  of_pos OF (fopp FO (dot FO g (lbfgs_direction FO hist g))).
Proof. intros F FO OF. exact (descent_lbfgs F FO (of_th OF) (of_pos OF) (of_add OF) (of_mul OF) (of_cases OF) (of_0 OF)). Qed.
Print Assumptions C01Q_lbfgs_descent.

(* the recursion satisfies the secant equation of the newest pair *)
Theorem C01Q_lbfgs_secant : forall F (FO : fops F) (OF : ordered_field FO) n hist s y,
  pairs_ok n (hist ++ [(s, y)]) -> dot FO s y <> f0 FO -> two_loop FO (hist ++ [(s, y)]) y = s.
Proof. intros F FO OF. exact (secant_lbfgs F FO (of_th OF)). Qed.
Print Assumptions C01Q_lbfgs_secant.

(* the history bound (the comparison `ss.size() > history` is translated from lbfgs.cpp) *)
Theorem C01Q_lbfgs_history : forall F history (hist : list (pair F)) (p : pair F),
  (Z.of_nat (length hist) <= history)%Z -> (1 <= history)%Z ->
  (Z.of_nat (length (lbfgs_push history hist p)) <= history)%Z /\
  exists k, lbfgs_push history hist p = skipn k (hist ++ [p]).
Proof. exact lbfgs_push_length. Qed.
Print Assumptions C01Q_lbfgs_history.

(* the index expressions of the two loops of lbfgs.cpp (translated on every run) select what the list model reads *)
Theorem C01Q_lbfgs_indices : forall F (hist : list (pair F)) (alphas : list F) (d : pair F) (a0 : F),
  length alphas = length hist ->
  forall j, (j < length hist)%nat ->
    let h := Z.of_nat (length hist) in
    nth j (rev hist) d = nth (Z.to_nat (src_lbfgs_loop1_index h (Z.of_nat j))) hist d /\
    nth j (combine hist (rev alphas)) (d, a0) =
      (nth (Z.to_nat (src_lbfgs_loop2_index h (Z.of_nat j))) hist d,
       nth (Z.to_nat (src_lbfgs_loop2_alpha h (Z.of_nat j))) alphas a0) /\
    hd d (rev hist) = nth (Z.to_nat (src_lbfgs_scale_index h)) hist d.
Proof. exact lbfgs_index_tie. Qed.
Print Assumptions C01Q_lbfgs_indices.

(* the translated decisions have the shape the proofs assume *)
Theorem C01Q_kernels :
  (forall phi zero, src_fletcher_dfp phi zero = Z.ltb phi zero) /\
  (forall phi one, src_fletcher_bfgs phi one = Z.gtb phi one) /\
  (forall a r s v, src_sr1_apply a r s v = Z.geb a (r * s * v)) /\
  (forall size history, src_lbfgs_pop size history = Z.gtb size history) /\
  (forall h j, src_lbfgs_loop1_index h j = h - 1 - j)%Z /\
  (forall h, src_lbfgs_scale_index h = h - 1)%Z /\
  (forall h j, src_lbfgs_loop2_index h j = j) /\
  (forall h j, src_lbfgs_loop2_alpha h j = h - 1 - j)%Z.
Proof. exact kernels_c01q. Qed.
Print Assumptions C01Q_kernels.

(* ---- non-vacuity (canonical rationals; [this] reads the underlying fraction) ----------------------------------------- *)
Definition qv (l : list Z) : list Qc := map (fun z => Q2Qc (inject_Z z)) l.
Definition ex_H : list (list Qc) := [qv [2; 1]; qv [1; 3]]%Z.      (* symmetric positive definite *)
Definition ex_s : list Qc := qv [1; 2]%Z.
Definition ex_y : list Qc := qv [3; -1]%Z.                          (* s'y = 1 > 0 *)
Definition ex_g : list Qc := qv [1; -4]%Z.
Definition ex_hist : list (pair Qc) := [(qv [1; 0], qv [2; 1]); (qv [0; 1], qv [-1; 3]); (ex_s, ex_y)]%Z.

(* the hypotheses of the update theorems hold on a concrete input, and the five updates satisfy the secant equation there *)
Example C01Q_nonvacuous_updates :
  length ex_s = length ex_H /\ length ex_y = length ex_H /\
  (0 < dot QcO ex_s ex_y)%Qc /\ dot QcO ex_y (mv QcO ex_H ex_y) <> 0%Qc /\
  dot QcO ex_s ex_y <> dot QcO ex_y (mv QcO ex_H ex_y) /\
  (forall a b, length a = 2%nat -> length b = 2%nat -> dot QcO a (mv QcO ex_H b) = dot QcO b (mv QcO ex_H a)) /\
  map this (mv QcO (bfgs QcO ex_H ex_s ex_y) ex_y) = map this ex_s /\
  map this (mv QcO (dfp QcO ex_H ex_s ex_y) ex_y) = map this ex_s /\
  map this (mv QcO (hoshino QcO ex_H ex_s ex_y) ex_y) = map this ex_s /\
  map this (mv QcO (fletcher QcO ex_H ex_s ex_y) ex_y) = map this ex_s /\
  map this (mv QcO (sr1 QcO (Q2Qc (1 # 100000000)) ex_H ex_s ex_y) ex_y) = map this ex_s.
Proof.
  split; [reflexivity|]. split; [reflexivity|]. split; [vm_compute; reflexivity|].
  split; [vm_compute; discriminate|]. split; [vm_compute; discriminate|].
  split; [intros [|a0 [|a1 [|? ?]]] [|b0 [|b1 [|? ?]]] La Lb; try discriminate; unfold ex_H, qv; simpl; ring|].
  repeat split; vm_compute; reflexivity.
Qed.

(* the theorems discriminate: the BFGS update with the rank-one term divided by y'y instead of s'y violates the secant
   equation on this input, and so does the DFP update without the trailing H factor *)
Example C01Q_mutants_refuted :
  let sy := dot QcO ex_s ex_y in
  let I := identity QcO 2 in
  let bfgs_yy := madd QcO (mmul QcO (mmul QcO (msub QcO I (mdivs QcO (outer QcO ex_s ex_y) sy)) ex_H)
                                    (msub QcO I (mdivs QcO (outer QcO ex_y ex_s) sy)))
                          (mdivs QcO (outer QcO ex_s ex_s) (dot QcO ex_y ex_y)) in
  let dfp_noH := msub QcO (madd QcO ex_H (mdivs QcO (outer QcO ex_s ex_s) sy))
                          (mdivs QcO (outer QcO (mv QcO ex_H ex_y) ex_y) (dot QcO (vm QcO ex_y ex_H) ex_y)) in
  map this (mv QcO bfgs_yy ex_y) <> map this ex_s /\ map this (mv QcO dfp_noH ex_y) <> map this ex_s.
Proof. vm_compute. split; discriminate. Qed.

(* L-BFGS on a history of three pairs of positive curvature: the recursion is the matrix-vector product, -r is a descent
   direction, and the recursion with the scaling of the OLDEST pair or with the second loop run newest-to-oldest is not *)
Example C01Q_nonvacuous_lbfgs :
  pairs_ok 2 ex_hist /\ Forall (fun p => (0 < dot QcO (fst p) (snd p))%Qc) ex_hist /\ length ex_g = 2%nat /\
  map this (two_loop QcO ex_hist ex_g) = map this (mv QcO (lbfgs_matrix QcO 2 ex_hist) ex_g) /\
  (0 < dot QcO ex_g (two_loop QcO ex_hist ex_g))%Qc /\
  (let '(q, alphas) := loop1 QcO (rev ex_hist) ex_g in
   let oldest := match ex_hist with (s, y) :: _ => vscale QcO (Qcdiv (dot QcO s y) (dot QcO y y)) q | [] => q end in
   map this (loop2 QcO (combine ex_hist (rev alphas)) oldest) <> map this (two_loop QcO ex_hist ex_g) /\
   map this (loop2 QcO (combine (rev ex_hist) alphas) (lbfgs_scale QcO ex_hist q)) <> map this (two_loop QcO ex_hist ex_g)).
Proof.
  split; [repeat constructor|]. split; [repeat constructor|]. split; [reflexivity|].
  split; [vm_compute; reflexivity|]. split; [vm_compute; reflexivity|].
  vm_compute. split; discriminate.
Qed.
