(* C16 -- composition laws of the views: nested partial-index views, slices of slices, and the
   disjointness of the element ranges of two different same-length partial indices ("aliases exactly
   the elements obtained by full indexing": nothing else). Proofs only; the model is C16_Defs.v. *)
From Coq Require Import List ZArith Bool Lia Arith.
From LNGen Require Import Src_dims Src_tensor.
From LN Require Import ListAux C16_Defs C16_Proofs.
Import ListNotations.
Local Open Scope Z_scope.

(* ---- tensor(p).tensor(q) is tensor(p ++ q) ---------------------------------------------------- *)
Lemma validp_app_split p : forall d q, validp d (p ++ q) ->
  validp d p /\ validp (skipn (length p) d) q.
Proof.
  induction p as [|k j IH]; intros d q H.
  - cbn [app length skipn]. split; [destruct d; exact I | exact H].
  - destruct d as [|x d']; cbn [app validp] in H; [tauto|].
    destruct H as [Hk Hr]. destruct (IH d' q Hr) as [H1 H2].
    cbn [validp length skipn]. tauto.
Qed.

Lemma skipn_skipn_add {A} (a : nat) : forall (b : nat) (l : list A),
  skipn b (skipn a l) = skipn (a + b) l.
Proof.
  induction a as [|a IH]; intros b l; [reflexivity|].
  destruct l as [|x l]; cbn [skipn Nat.add]; [destruct b; reflexivity | apply IH].
Qed.

Lemma c_nested_view d p q :
  validpb d (p ++ q) = true ->
  validpb d p = true /\ validpb (snd (view_tensor d p)) q = true /\
  fst (view_tensor d p) + fst (view_tensor (snd (view_tensor d p)) q) = fst (view_tensor d (p ++ q)) /\
  snd (view_tensor (snd (view_tensor d p)) q) = snd (view_tensor d (p ++ q)).
Proof.
  intros H. apply validpb_spec in H.
  destruct (validp_app_split p d q H) as [Hp Hq].
  pose proof (validp_length _ _ H) as HL. rewrite app_length in HL.
  pose proof (validp_length _ _ Hp) as HLp.
  pose proof (validp_length _ _ Hq) as HLq.
  split; [apply validpb_spec; exact Hp|].
  unfold view_tensor, dims0. cbn [fst snd].
  split; [apply validpb_spec; exact Hq|].
  split.
  - rewrite !offset0_offs by (rewrite ?app_length; lia).
    rewrite offs_app by lia. reflexivity.
  - rewrite app_length. apply skipn_skipn_add.
Qed.

(* ---- slice(b, e).slice(b', e') is slice(b + b', b + e') ---------------------------------------- *)
Lemma c_slice_of_slice x r b e b' e' :
  slice_validb (x :: r) b e = true ->
  slice_validb (snd (view_slice (x :: r) b e)) b' e' = true ->
  slice_validb (x :: r) (b + b') (b + e') = true /\
  fst (view_slice (x :: r) b e) + fst (view_slice (snd (view_slice (x :: r) b e)) b' e') =
    fst (view_slice (x :: r) (b + b') (b + e')) /\
  snd (view_slice (snd (view_slice (x :: r) b e)) b' e') = snd (view_slice (x :: r) (b + b') (b + e')).
Proof.
  unfold slice_validb, view_slice. cbn [fst snd offset0]. unfold_src.
  intros H1 H2.
  repeat rewrite andb_true_iff in H1, H2.
  rewrite !Z.geb_le in *. rewrite !Z.leb_le in *.
  split; [|split].
  - repeat rewrite andb_true_iff. rewrite Z.geb_le, !Z.leb_le. lia.
  - assert (E : offset0 r [] = 0) by (destruct r; reflexivity). rewrite E. ring.
  - f_equal. lia.
Qed.

(* ---- two different partial indices of the same length address disjoint element ranges --------- *)
Lemma offs_prefix_scale p : forall d, (length p <= length d)%nat ->
  offs d p = offs (firstn (length p) d) p * size (skipn (length p) d).
Proof.
  induction p as [|k j IH]; intros [|x d'] H; cbn [length] in H; try lia.
  - cbn. reflexivity.
  - cbn. reflexivity.
  - cbn [length firstn skipn offs]. rewrite (IH d') by lia.
    rewrite (size_skipn_firstn (length j) d') at 1.
    assert (HL : length (firstn (length j) d') = length j) by (apply firstn_length_le; lia).
    assert (Hz : offs (firstn (length j) (firstn (length j) d')) j = offs (firstn (length j) d') j).
    { rewrite <- HL at 1. rewrite firstn_all. reflexivity. }
    assert (Hs : size (skipn (length j) (firstn (length j) d')) = 1).
    { rewrite <- HL at 1. rewrite skipn_all. reflexivity. }
    rewrite (IH (firstn (length j) d')) by lia. rewrite Hz, Hs. ring.
Qed.

Lemma validp_valid_firstn p : forall d, validp d p -> valid (firstn (length p) d) p.
Proof.
  induction p as [|k j IH]; intros [|x r] H; cbn in *; try tauto.
  split; [tauto | apply IH; tauto].
Qed.

Lemma c_views_disjoint d p q :
  validpb d p = true -> validpb d q = true -> length p = length q -> p <> q ->
  0 <= size (dims0 d p) ->
  let '(bp, n) := view_vector d p in
  let '(bq, m) := view_vector d q in
  n = m /\ (bp + n <= bq \/ bq + m <= bp).
Proof.
  intros Hp Hq HL Hne Hs. apply validpb_spec in Hp. apply validpb_spec in Hq.
  unfold view_vector, dims0 in *. rewrite <- HL.
  pose proof (validp_length _ _ Hp) as HLp.
  pose proof (validp_length _ _ Hq) as HLq.
  rewrite !offset0_offs by lia.
  rewrite (offs_prefix_scale p d) by lia.
  rewrite (offs_prefix_scale q d) by lia. rewrite <- HL.
  pose proof (validp_valid_firstn _ _ Hp) as Vp.
  pose proof (validp_valid_firstn _ _ Hq) as Vq. rewrite <- HL in Vq.
  set (f := firstn (length p) d) in *. set (s := size (skipn (length p) d)) in *.
  assert (Hd : offs f p <> offs f q).
  { intros E. apply Hne. exact (offs_injective f p q Vp Vq E). }
  split; [reflexivity|].
  destruct (Z_lt_le_dec (offs f p) (offs f q)) as [Hlt|Hge]; [left | right]; nia.
Qed.

(* ---- ... and together they cover the tensor: every element lies in the range of exactly one
   partial index of each length (with the disjointness above: a partition) ---------------------- *)
Lemma c_views_cover d k o :
  Forall (fun x => 0 < x) d -> (k <= length d)%nat -> 0 <= o < size d ->
  exists p, length p = k /\ validpb d p = true /\
    let '(b, n) := view_vector d p in b <= o < b + n.
Proof.
  intros Hd Hk Ho.
  destruct (offs_unoffset d o Hd Ho) as [Hv Hoff].
  set (i := unoffset d o) in *.
  pose proof (valid_length _ _ Hv) as HLi.
  assert (HLp : length (firstn k i) = k) by (apply firstn_length_le; lia).
  exists (firstn k i). split; [exact HLp|].
  pose proof Hv as Hv'. rewrite <- (firstn_skipn k i) in Hv'.
  destruct (valid_app_split _ _ _ Hv') as [Hp Hr]. rewrite HLp in Hr.
  split; [apply validpb_spec; exact Hp|].
  unfold view_vector, dims0. rewrite HLp.
  rewrite offset0_offs by lia.
  pose proof (offs_range _ _ Hr) as Hrange.
  rewrite <- (firstn_skipn k i) in Hoff. rewrite offs_app in Hoff by lia. rewrite HLp in Hoff.
  lia.
Qed.

(* ---- a gather of the consecutive first-axis indices b, b+1, ..., b+n-1 is the slice [b, b+n) -- *)
Lemma firstn_add_split {A} (a : nat) : forall (b : nat) (l : list A),
  firstn (a + b) l = firstn a l ++ firstn b (skipn a l).
Proof.
  induction a as [|a IH]; intros b l; [reflexivity|].
  destruct l as [|x l]; cbn [Nat.add firstn skipn app]; [destruct b; reflexivity | rewrite IH; reflexivity].
Qed.

Lemma c_gather_consecutive {A} (d : dims) (flat : list A) (n : nat) : forall (b : nat),
  0 <= size (tl d) ->
  gather d flat (map Z.of_nat (seq b n)) =
  segment (Z.of_nat b * size (tl d)) (Z.of_nat n * size (tl d)) flat.
Proof.
  unfold gather. set (row := size (tl d)). intros b Hrow.
  revert b. induction n as [|n IH]; intros b.
  - cbn [seq map flat_map]. unfold segment. rewrite Z.mul_0_l. reflexivity.
  - cbn [seq map flat_map]. rewrite IH. unfold segment.
    assert (E1 : Z.to_nat (Z.of_nat (S b) * row) = (Z.to_nat (Z.of_nat b * row) + Z.to_nat row)%nat) by nia.
    assert (E2 : Z.to_nat (Z.of_nat (S n) * row) = (Z.to_nat row + Z.to_nat (Z.of_nat n * row))%nat) by nia.
    rewrite E1, E2, <- skipn_skipn_add, firstn_add_split. reflexivity.
Qed.

(* ---- the guards "0 <= size (dims0 d p)" / "0 <= size (tl d)" hold for every shape with non-negative dimensions -- *)
Lemma size_nonneg d : Forall (fun x => 0 <= x) d -> 0 <= size d.
Proof.
  induction 1 as [|x r Hx Hr IH]; [rewrite size_nil; lia | rewrite size_cons; nia].
Qed.

Lemma Forall_skipn {A} (P : A -> Prop) n : forall l, Forall P l -> Forall P (skipn n l).
Proof.
  induction n as [|n IH]; intros l H; [exact H|].
  destruct H as [|x l Hx Hl]; cbn [skipn]; [constructor | apply IH; exact Hl].
Qed.

Lemma c_guards_hold d p :
  Forall (fun x => 0 <= x) d -> 0 <= size (dims0 d p) /\ 0 <= size (tl d).
Proof.
  intros H. split.
  - apply size_nonneg. unfold dims0. apply Forall_skipn. exact H.
  - apply size_nonneg. destruct H; [constructor | assumption].
Qed.
