(* C17 (extension) -- the FAST executable acceptor of the thread-pool protocol.
   Same protocol as C17_Defs.step, re-based on binary numbers and real data structures so that traces with
   tens of thousands of tasks can be replayed:
     * task / worker / submitter identifiers are `N` (C17_Defs uses unary `nat`);
     * workers and submitting threads are lists indexed by position (C17_Defs: chains of closures `upd`);
     * the histories `ran`, `inline`, `finished` are kept newest-first (C17_Defs appends at the end);
     * membership in `finished` / `dropped` (the readiness of a future) is answered by a binary trie
       (MSetPositive) kept next to the lists (C17_Defs: linear search with unary comparisons);
     * uniqueness of the task ids of a configuration is decided with a trie (C17_Defs: quadratic).
   C17_Fast.v proves that this acceptor is a refinement of C17_Defs.step: with `abs : poolN -> pool`,
   step (abs s) (abs_e e) = option_map abs (stepN s e) on every state satisfying the representation invariant,
   so every theorem about reachable states of C17_Defs holds of every trace this acceptor accepts.
   Executable definitions only. *)
From Coq Require Import List Arith Bool ZArith NArith PArith MSets.MSetPositive.
From LNGen Require Import Src_parallel Src_pool.
From LN Require Import C17_Defs.
Import ListNotations.

Inductive wstateN :=
| WIdleN
| WSleepingN
| WRunningN (t : N)
| WExitedN.

Inductive callN :=
| CEnqueueN (t : N)
| CMapN (ts : list N) (raise : bool)
| CDestroyN.

Inductive stageN :=
| SReadyN
| SNotifyOneN
| SNotifyAllN (ts : list N) (raise : bool)
| SGetN (rem all : list N) (raise : bool)
| SWaitN (rem all : list N) (raise : bool) (exn : option N)
| SNotifyStopN
| SJoinN.

Record mapresN := {
  rn_tasks  : list N;
  rn_raise  : bool;
  rn_inline : bool;
  rn_exn    : option N;
}.

Record subN := {
  stgN     : stageN;
  todoN    : list callN;
  resultsN : list mapresN;
}.

Record poolN := {
  f_throws   : N -> bool;
  f_queue    : list N;
  f_stop     : bool;
  f_workers  : list wstateN;        (* position = worker id; the length is pool.size() *)
  f_subs     : list subN;           (* position = submitting thread id *)
  f_ran      : list (N * N);        (* (task, worker), newest first *)
  f_inline   : list (N * N);        (* (task, submitter), newest first *)
  f_finished : list N;              (* newest first *)
  f_finset   : PositiveSet.t;       (* the same set as f_finished (representation invariant) *)
  f_dropped  : list N;
  f_dropset  : PositiveSet.t;       (* the same set as f_dropped *)
}.

Inductive eventN :=
| EPushN (s : N)
| ENotifyN (s : N) (w : option N)
| EGetN (s : N)
| EWaitN (s : N)
| ECheckN (w : N)
| EFinishN (w : N)
| ESpuriousN (w : N)
| EStopN (s : N)
| ENotifyStopN (s : N)
| EJoinN (s : N).

Definition key (t : N) : positive := N.succ_pos t.
Definition tn (t : N) : nat := N.to_nat t.

Fixpoint set_nth {A} (l : list A) (i : nat) (x : A) : list A :=
  match l, i with
  | [], _ => []
  | _ :: r, O => x :: r
  | a :: r, S j => a :: set_nth r j x
  end.

Definition dsubN : subN := {| stgN := SReadyN; todoN := []; resultsN := [] |}.

Definition is_sleepingN (x : wstateN) : bool := match x with WSleepingN => true | _ => false end.
Definition is_exitedN (x : wstateN) : bool := match x with WExitedN => true | _ => false end.
Definition wakeN (x : wstateN) : wstateN := if is_sleepingN x then WIdleN else x.

Definition any_sleepingN (p : poolN) : bool :=
  existsb (fun w => is_sleepingN (nth w (f_workers p) WIdleN)) (seq 0 (length (f_workers p))).
Definition all_exitedN (p : poolN) : bool :=
  forallb (fun w => is_exitedN (nth w (f_workers p) WIdleN)) (seq 0 (length (f_workers p))).

Definition completeN (p : poolN) (t : N) : bool :=
  PositiveSet.mem (key t) (f_finset p) || PositiveSet.mem (key t) (f_dropset p).
Definition failsN (p : poolN) (t : N) : bool := f_throws p t || PositiveSet.mem (key t) (f_dropset p).

Definition sub_doneN (x : subN) : bool :=
  match stgN x, todoN x with SReadyN, [] => true | _, _ => false end.
Definition others_doneN (p : poolN) (s : nat) : bool :=
  forallb (fun s' => Nat.eqb s' s || sub_doneN (nth s' (f_subs p) dsubN)) (seq 0 (length (f_subs p))).

Fixpoint inline_prefixN (thr : N -> bool) (ts : list N) : list N :=
  match ts with
  | [] => []
  | t :: r => if thr t then [t] else t :: inline_prefixN thr r
  end.

Definition add_all (l : list N) (s : PositiveSet.t) : PositiveSet.t :=
  fold_left (fun a t => PositiveSet.add (key t) a) l s.

(* the translated fast-path test of pool_t::map(elements, op) *)
Definition map_inlineN (p : poolN) (ts : list N) : bool :=
  src_indexed_inline (Z.of_nat (length (f_workers p))) (Z.of_nat (length ts)).

Definition set_subN (p : poolN) (i : nat) (x : subN) : poolN :=
  {| f_throws := f_throws p; f_queue := f_queue p; f_stop := f_stop p; f_workers := f_workers p;
     f_subs := set_nth (f_subs p) i x; f_ran := f_ran p; f_inline := f_inline p;
     f_finished := f_finished p; f_finset := f_finset p; f_dropped := f_dropped p; f_dropset := f_dropset p |}.

Definition stepN (p : poolN) (e : eventN) : option poolN :=
  match e with
  | EPushN s0 =>
      let s := tn s0 in
      if negb (Nat.ltb s (length (f_subs p))) then None else
      let x := nth s (f_subs p) dsubN in
      match stgN x, todoN x with
      | SReadyN, CEnqueueN t :: rest =>
          Some {| f_throws := f_throws p; f_queue := f_queue p ++ [t]; f_stop := f_stop p; f_workers := f_workers p;
                  f_subs := set_nth (f_subs p) s {| stgN := SNotifyOneN; todoN := rest; resultsN := resultsN x |};
                  f_ran := f_ran p; f_inline := f_inline p; f_finished := f_finished p; f_finset := f_finset p;
                  f_dropped := f_dropped p; f_dropset := f_dropset p |}
      | SReadyN, CMapN ts raise :: rest =>
          if map_inlineN p ts then
            let ex := inline_prefixN (f_throws p) ts in
            Some {| f_throws := f_throws p; f_queue := f_queue p; f_stop := f_stop p; f_workers := f_workers p;
                    f_subs := set_nth (f_subs p) s
                                {| stgN := SReadyN; todoN := rest;
                                   resultsN := resultsN x ++ [{| rn_tasks := ts; rn_raise := raise; rn_inline := true;
                                                                 rn_exn := find (f_throws p) ts |}] |};
                    f_ran := f_ran p; f_inline := rev_append (map (fun t => (t, s0)) ex) (f_inline p);
                    f_finished := rev_append ex (f_finished p); f_finset := add_all ex (f_finset p);
                    f_dropped := f_dropped p; f_dropset := f_dropset p |}
          else
            Some {| f_throws := f_throws p; f_queue := f_queue p ++ ts; f_stop := f_stop p; f_workers := f_workers p;
                    f_subs := set_nth (f_subs p) s {| stgN := SNotifyAllN ts raise; todoN := rest; resultsN := resultsN x |};
                    f_ran := f_ran p; f_inline := f_inline p; f_finished := f_finished p; f_finset := f_finset p;
                    f_dropped := f_dropped p; f_dropset := f_dropset p |}
      | _, _ => None
      end
  | ENotifyN s0 w =>
      let s := tn s0 in
      if negb (Nat.ltb s (length (f_subs p))) then None else
      let x := nth s (f_subs p) dsubN in
      match stgN x with
      | SNotifyOneN =>
          match w with
          | Some w0 =>
              let w' := tn w0 in
              if Nat.ltb w' (length (f_workers p)) && is_sleepingN (nth w' (f_workers p) WIdleN) then
                Some {| f_throws := f_throws p; f_queue := f_queue p; f_stop := f_stop p;
                        f_workers := set_nth (f_workers p) w' WIdleN;
                        f_subs := set_nth (f_subs p) s {| stgN := SReadyN; todoN := todoN x; resultsN := resultsN x |};
                        f_ran := f_ran p; f_inline := f_inline p; f_finished := f_finished p; f_finset := f_finset p;
                        f_dropped := f_dropped p; f_dropset := f_dropset p |}
              else None
          | None =>
              if any_sleepingN p then None else
              Some (set_subN p s {| stgN := SReadyN; todoN := todoN x; resultsN := resultsN x |})
          end
      | SNotifyAllN ts raise =>
          match w with
          | Some _ => None
          | None =>
              Some {| f_throws := f_throws p; f_queue := f_queue p; f_stop := f_stop p;
                      f_workers := map wakeN (f_workers p);
                      f_subs := set_nth (f_subs p) s {| stgN := SGetN ts ts raise; todoN := todoN x; resultsN := resultsN x |};
                      f_ran := f_ran p; f_inline := f_inline p; f_finished := f_finished p; f_finset := f_finset p;
                      f_dropped := f_dropped p; f_dropset := f_dropset p |}
          end
      | _ => None
      end
  | EGetN s0 =>
      let s := tn s0 in
      if negb (Nat.ltb s (length (f_subs p))) then None else
      let x := nth s (f_subs p) dsubN in
      match stgN x with
      | SGetN [] all raise =>
          Some (set_subN p s {| stgN := SWaitN all all raise None; todoN := todoN x; resultsN := resultsN x |})
      | SGetN (t :: rem) all raise =>
          if completeN p t then
            if raise && failsN p t
            then Some (set_subN p s {| stgN := SWaitN all all raise (Some t); todoN := todoN x; resultsN := resultsN x |})
            else Some (set_subN p s {| stgN := SGetN rem all raise; todoN := todoN x; resultsN := resultsN x |})
          else None
      | _ => None
      end
  | EWaitN s0 =>
      let s := tn s0 in
      if negb (Nat.ltb s (length (f_subs p))) then None else
      let x := nth s (f_subs p) dsubN in
      match stgN x with
      | SWaitN [] all raise exn =>
          Some (set_subN p s {| stgN := SReadyN; todoN := todoN x;
                                resultsN := resultsN x ++ [{| rn_tasks := all; rn_raise := raise;
                                                              rn_inline := false; rn_exn := exn |}] |})
      | SWaitN (t :: rem) all raise exn =>
          if completeN p t
          then Some (set_subN p s {| stgN := SWaitN rem all raise exn; todoN := todoN x; resultsN := resultsN x |})
          else None
      | _ => None
      end
  | ECheckN w0 =>
      let w := tn w0 in
      if negb (Nat.ltb w (length (f_workers p))) then None else
      match nth w (f_workers p) WIdleN with
      | WIdleN =>
          (* the locked block of worker_t::operator(), with the tests translated from src/core/parallel.cpp:
             wait(lock, pred) sleeps while `pred` is false; then `if (m_stop)` leaves the loop (dropping the queue and
             notifying everybody); otherwise the front task is popped *)
          let empty := match f_queue p with [] => true | _ :: _ => false end in
          if negb (src_wait_pred (f_stop p) empty) then
            Some {| f_throws := f_throws p; f_queue := f_queue p; f_stop := f_stop p;
                    f_workers := set_nth (f_workers p) w WSleepingN;
                    f_subs := f_subs p; f_ran := f_ran p; f_inline := f_inline p;
                    f_finished := f_finished p; f_finset := f_finset p;
                    f_dropped := f_dropped p; f_dropset := f_dropset p |}
          else if src_exit_test (f_stop p) empty then
            Some {| f_throws := f_throws p; f_queue := []; f_stop := f_stop p;
                    f_workers := set_nth (map wakeN (f_workers p)) w WExitedN;
                    f_subs := f_subs p; f_ran := f_ran p; f_inline := f_inline p;
                    f_finished := f_finished p; f_finset := f_finset p;
                    f_dropped := f_dropped p ++ f_queue p; f_dropset := add_all (f_queue p) (f_dropset p) |}
          else
            match f_queue p with
            | t :: q =>
                Some {| f_throws := f_throws p; f_queue := q; f_stop := f_stop p;
                        f_workers := set_nth (f_workers p) w (WRunningN t);
                        f_subs := f_subs p; f_ran := (t, w0) :: f_ran p; f_inline := f_inline p;
                        f_finished := f_finished p; f_finset := f_finset p;
                        f_dropped := f_dropped p; f_dropset := f_dropset p |}
            | [] => None
            end
      | _ => None
      end
  | EFinishN w0 =>
      let w := tn w0 in
      if negb (Nat.ltb w (length (f_workers p))) then None else
      match nth w (f_workers p) WIdleN with
      | WRunningN t =>
          Some {| f_throws := f_throws p; f_queue := f_queue p; f_stop := f_stop p;
                  f_workers := set_nth (f_workers p) w WIdleN;
                  f_subs := f_subs p; f_ran := f_ran p; f_inline := f_inline p;
                  f_finished := t :: f_finished p; f_finset := PositiveSet.add (key t) (f_finset p);
                  f_dropped := f_dropped p; f_dropset := f_dropset p |}
      | _ => None
      end
  | ESpuriousN w0 =>
      let w := tn w0 in
      if negb (Nat.ltb w (length (f_workers p))) then None else
      match nth w (f_workers p) WIdleN with
      | WSleepingN =>
          Some {| f_throws := f_throws p; f_queue := f_queue p; f_stop := f_stop p;
                  f_workers := set_nth (f_workers p) w WIdleN;
                  f_subs := f_subs p; f_ran := f_ran p; f_inline := f_inline p;
                  f_finished := f_finished p; f_finset := f_finset p;
                  f_dropped := f_dropped p; f_dropset := f_dropset p |}
      | _ => None
      end
  | EStopN s0 =>
      let s := tn s0 in
      if negb (Nat.ltb s (length (f_subs p))) then None else
      let x := nth s (f_subs p) dsubN in
      match stgN x, todoN x with
      | SReadyN, CDestroyN :: rest =>
          if others_doneN p s && negb (f_stop p) then
            Some {| f_throws := f_throws p; f_queue := f_queue p; f_stop := src_stop_value; f_workers := f_workers p;
                    f_subs := set_nth (f_subs p) s {| stgN := SNotifyStopN; todoN := rest; resultsN := resultsN x |};
                    f_ran := f_ran p; f_inline := f_inline p; f_finished := f_finished p; f_finset := f_finset p;
                    f_dropped := f_dropped p; f_dropset := f_dropset p |}
          else None
      | _, _ => None
      end
  | ENotifyStopN s0 =>
      let s := tn s0 in
      if negb (Nat.ltb s (length (f_subs p))) then None else
      let x := nth s (f_subs p) dsubN in
      match stgN x with
      | SNotifyStopN =>
          Some {| f_throws := f_throws p; f_queue := f_queue p; f_stop := f_stop p;
                  f_workers := map wakeN (f_workers p);
                  f_subs := set_nth (f_subs p) s {| stgN := SJoinN; todoN := todoN x; resultsN := resultsN x |};
                  f_ran := f_ran p; f_inline := f_inline p; f_finished := f_finished p; f_finset := f_finset p;
                  f_dropped := f_dropped p; f_dropset := f_dropset p |}
      | _ => None
      end
  | EJoinN s0 =>
      let s := tn s0 in
      if negb (Nat.ltb s (length (f_subs p))) then None else
      let x := nth s (f_subs p) dsubN in
      match stgN x with
      | SJoinN =>
          if all_exitedN p
          then Some (set_subN p s {| stgN := SReadyN; todoN := todoN x; resultsN := resultsN x |})
          else None
      | _ => None
      end
  end.

Fixpoint runN (p : poolN) (es : list eventN) : option poolN :=
  match es with
  | [] => Some p
  | e :: r => match stepN p e with Some q => runN q r | None => None end
  end.

Definition initN (n : nat) (thr : N -> bool) (progs : list (list callN)) : poolN :=
  {| f_throws := thr; f_queue := []; f_stop := false;
     f_workers := repeat WIdleN n;
     f_subs := map (fun pr => {| stgN := SReadyN; todoN := pr; resultsN := [] |}) progs;
     f_ran := []; f_inline := []; f_finished := []; f_finset := PositiveSet.empty;
     f_dropped := []; f_dropset := PositiveSet.empty |}.

(* ---- well-formed configurations ----------------------------------------------------------------- *)
Definition call_tasksN (c : callN) : list N :=
  match c with CEnqueueN t => [t] | CMapN ts _ => ts | CDestroyN => [] end.
Definition prog_tasksN (pr : list callN) : list N := flat_map call_tasksN pr.

Fixpoint no_destroyN (pr : list callN) : bool :=
  match pr with [] => true | CDestroyN :: _ => false | _ :: r => no_destroyN r end.
Fixpoint destroy_lastN (pr : list callN) : bool :=
  match pr with [] => true | [CDestroyN] => true | CDestroyN :: _ => false | _ :: r => destroy_lastN r end.

(* uniqueness of the task ids with a trie of the ids seen so far *)
Fixpoint nodup_set (l : list N) (seen : PositiveSet.t) : bool :=
  match l with
  | [] => true
  | t :: r => if PositiveSet.mem (key t) seen then false else nodup_set r (PositiveSet.add (key t) seen)
  end.

Definition wf_configN (n : nat) (progs : list (list callN)) : bool :=
  Nat.leb 1 n && nodup_set (flat_map prog_tasksN progs) PositiveSet.empty && forallb destroy_lastN progs
  && Nat.leb (length (filter (fun pr => negb (no_destroyN pr)) progs)) 1.

(* ---- final states and the enabled set ------------------------------------------------------------- *)
Definition finalN (p : poolN) : bool :=
  forallb (fun s => sub_doneN (nth s (f_subs p) dsubN)) (seq 0 (length (f_subs p))).

Definition candidatesN (p : poolN) : list eventN :=
  flat_map (fun s => [EPushN (N.of_nat s); ENotifyN (N.of_nat s) None; EGetN (N.of_nat s); EWaitN (N.of_nat s);
                      EStopN (N.of_nat s); ENotifyStopN (N.of_nat s); EJoinN (N.of_nat s)]
                     ++ map (fun w => ENotifyN (N.of_nat s) (Some (N.of_nat w))) (seq 0 (length (f_workers p))))
           (seq 0 (length (f_subs p)))
  ++ flat_map (fun w => [ECheckN (N.of_nat w); EFinishN (N.of_nat w); ESpuriousN (N.of_nat w)])
              (seq 0 (length (f_workers p))).
Definition enabledN (p : poolN) : list eventN :=
  filter (fun e => match stepN p e with Some _ => true | None => false end) (candidatesN p).
