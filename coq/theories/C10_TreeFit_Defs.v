(* C10 extension 3 -- executable model of the greedy decision-tree FIT, dtree_wlearner_t::do_fit (src/wlearner/dtree.cpp), on top of
   the stump model of C10_Defs (same sweep, same mid-point thresholds, same strict `score < m_score` update). No proofs here.

   * the dataset is the list of its rows [ds : list sample] (one [fval] per feature), [res] the residual vector (minus the
     gradient) of every row, a sample list is a list of row indices [ids : list nat] (order and repetitions kept);
   * [stump_best] is stump_wlearner_t::do_fit behind a one-thread pool: the candidates of feature 0, 1, ... in the order of the
     sweep, the running best replaced only by a strictly smaller score; it returns the argmin (feature, threshold, the two tables
     output_neg / output_pos, score), not only the score ([C10_TreeFit.stump_best_score]: the score is C10_Defs.stump_fit);
     [adm n] says whether the candidates of a fit on n samples have a finite score (AICc is infinite when n = k + 1: such a
     node has no candidate at all; always true for RSS / AIC / BIC);
   * [fit_loop] is the work queue `std::deque<cache_t>` of (samples, depth, parent entry): the stump is fitted on the samples of the
     front cache with the same criterion; no candidate => the WHOLE fit returns no_fit_score (break); the parent's entry gets its
     link; a terminal cache (translated test on sample count / depth) appends the two leaf entries and the stump's two tables and
     adds the stump's score; otherwise two entries with table -1 are appended and the two children are queued with
     cluster.indices(side): the row indices of that side in INCREASING order WITHOUT repetitions (cluster_t::indices scans the rows);
   * the result also carries the trace: for every appended pair the sample list and the depth its stump was fitted on (ghost output,
     used by the theorems and compared by the driver with nothing: the library does not expose it).
   The integer expressions (terminal test, minimum node size, parent test, link, child depth / parent entry, leaf table index)
   come from the source (LNGen.Src_c10, regenerated on every run). *)
From Coq Require Import List ZArith QArith Bool.
From LNGen Require Import Src_c10.
From LN Require Import C10_Defs C10_Ext_Defs.
Import ListNotations.
Local Open Scope Q_scope.

(* ---- the stump fit with its argmin ----------------------------------------------------------------------------------------- *)
Record scand := mkscand { sc_f : nat; sc_thr : Q; sc_lo : list Q; sc_hi : list Q; sc_score : Q }.

(* the candidates of one feature: m_threshold = 0.5 * (v1 + v2), m_tables = (output_neg(), output_pos()), score *)
Definition stump_xcands (no : nat) (floor : Q) (f : nat) (c : col Q) : list scand :=
  let rows := present c in
  let tot := vmom_of no rows in
  let miss := miss_rss no c in
  sweep no (fun thr neg => [mkscand f thr (tab no (fun o => mean_of (vget o neg)))
                                          (tab no (fun o => mean_of (mom_sub (vget o tot) (vget o neg))))
                                          (clamp floor (stump_rss no tot neg miss))])
        (vmom0 no) (isort fst rows).
(* `if (std::isfinite(score) && score < cache.m_score)`: None = no_fit_score *)
Definition xbetter (best : option scand) (x : scand) : option scand :=
  match best with
  | None => Some x
  | Some b => if qlt (sc_score x) (sc_score b) then Some x else Some b
  end.
Definition xbest (l : list scand) : option scand := fold_left xbetter l None.

(* the column of feature f gathered over a sample list: scalar value or missing (categorical / structured features are not
   visited by the stump: they contribute no candidate), residual vector of the row *)
Definition fnum (v : fval) : option Q := match v with FNum x => Some x | _ => None end.
Definition tcol (ds : list sample) (res : list (list Q)) (f : nat) (ids : list nat) : col Q :=
  map (fun i => (fnum (fget f (nth i ds [])), nth i res [])) ids.
Definition tcols (ds : list sample) (res : list (list Q)) (nf : nat) (ids : list nat) : list (col Q) :=
  map (fun f => tcol ds res f ids) (seq 0 nf).
Definition stump_best (no : nat) (floor : Q) (ds : list sample) (res : list (list Q)) (nf : nat) (ids : list nat) : option scand :=
  xbest (flat_map (fun f => stump_xcands no floor f (tcol ds res f ids)) (seq 0 nf)).

(* ---- the children's sample lists: cluster.indices(side) of stump.split(dataset, samples) ------------------------------------------- *)
Definition nmem (i : nat) (l : list nat) : bool := existsb (Nat.eqb i) l.
Definition on_side (ds : list sample) (f : nat) (thr : Q) (g : Z) (i : nat) : bool :=
  match fget f (nth i ds []) with FNum x => (side_of x thr =? g)%Z | _ => false end.
Definition child_ids (ds : list sample) (f : nat) (thr : Q) (g : Z) (ids : list nat) : list nat :=
  filter (fun i => nmem i ids && on_side ds f thr g i) (seq 0 (length ds)).

(* ---- the work queue ------------------------------------------------------------------------------------------------------------------ *)
Record tcache := mkcache { tc_ids : list nat; tc_depth : Z; tc_parent : Z }.
Definition trace := list (list nat * Z).
Inductive fitres :=
| FitOK (nodes : list node) (tables : list (list Q)) (score : Q) (tr : trace)
| FitNone (tr : trace)                     (* wlearner_t::no_fit_score(); the trace ends with the sample list that has no stump *)
| FitFuel.                                 (* the model ran out of fuel (never with [fit_fuel], C10_treefit_terminates) *)

(* nodes[parent].m_next = link *)
Definition set_next (nodes : list node) (p : Z) (v : Z) : list node :=
  let nd := znth p nodes node0 in
  replace_nth (Z.to_nat p) (mknode (n_feature nd) (n_thr nd) v (n_table nd)) nodes.

Section Fit.
  Variables (no : nat) (floor : Q) (adm : Z -> bool) (ds : list sample) (res : list (list Q)) (nf : nat).
  Variables (max_depth min_size : Z).

  (* stump.fit(dataset, cache.m_samples, gradients) *)
  Definition stump_node (ids : list nat) : option scand :=
    if adm (Z.of_nat (length ids)) then stump_best no floor ds res nf ids else None.

  Fixpoint fit_loop (fuel : nat) (queue : list tcache) (nodes : list node) (tables : list (list Q)) (score : Q) (tr : trace) : fitres :=
    match queue with
    | [] => FitOK nodes tables score tr
    | c :: rest =>
        match fuel with
        | O => FitFuel
        | S fl =>
            match stump_node (tc_ids c) with
            | None => FitNone (tr ++ [(tc_ids c, tc_depth c)])
            | Some x =>
                let nodes1 := if src_c10_tree_has_parent (tc_parent c) (nlen nodes)
                              then set_next nodes (tc_parent c) (src_c10_tree_link (nlen nodes)) else nodes in
                let tr1 := tr ++ [(tc_ids c, tc_depth c)] in
                if src_c10_tree_terminal_fit (Z.of_nat (length (tc_ids c))) min_size (tc_depth c) max_depth
                then fit_loop fl rest
                       (nodes1 ++ [mknode (sc_f x) (sc_thr x) 0 (src_c10_tree_leaf_table (Z.of_nat (length tables)));
                                   mknode (sc_f x) (sc_thr x) 0 (src_c10_tree_leaf_table (Z.of_nat (length tables) + 1))])
                       (tables ++ [sc_lo x; sc_hi x]) (score + sc_score x) tr1
                else fit_loop fl
                       (rest ++ [mkcache (child_ids ds (sc_f x) (sc_thr x) 0 (tc_ids c)) (src_c10_tree_child_depth (tc_depth c))
                                         (src_c10_tree_child_parent (nlen nodes1));
                                 mkcache (child_ids ds (sc_f x) (sc_thr x) 1 (tc_ids c)) (src_c10_tree_child_depth (tc_depth c))
                                         (src_c10_tree_child_parent (nlen nodes1 + 1))])
                       (nodes1 ++ [mknode (sc_f x) (sc_thr x) 0 (-1); mknode (sc_f x) (sc_thr x) 0 (-1)])
                       tables score tr1
            end
        end
    end.
End Fit.

(* a fuel that always suffices: at most 2^max_depth - 1 caches are ever processed *)
Definition fit_fuel (max_depth : Z) : nat := 2 ^ Z.to_nat (Z.max 1 max_depth).

(* dtree_wlearner_t::do_fit: min_samples_size from the number of rows of the DATASET (not of the sample list) *)
Definition tree_fit (no : nat) (floor : Q) (adm : Z -> bool) (ds : list sample) (res : list (list Q)) (nf : nat)
           (max_depth min_split : Z) (ids : list nat) : fitres :=
  fit_loop no floor adm ds res nf max_depth (src_c10_min_samples (Z.of_nat (length ds)) min_split)
           (fit_fuel max_depth) [mkcache ids 0 0] [] [] 0 [].

(* ---- what the theorems speak about --------------------------------------------------------------------------------------------------- *)
(* the squared error of the tree's prediction on row i (a sample without group is predicted zero) and the RSS over a sample list *)
Definition sqdist (no : nat) (r p : list Q) : Q := qsum (tab no (fun o => (rget o r - rget o p) * (rget o r - rget o p))).
Definition tree_err (no : nat) (ds : list sample) (res : list (list Q)) (nodes : list node) (tables : list (list Q)) (i : nat) : Q :=
  match walk_from nodes 0 (nth i ds []) with
  | Some g => sqdist no (nth i res []) (znth g tables [])
  | None => sq_norm no (nth i res [])
  end.
Definition tree_rss (no : nat) (ds : list sample) (res : list (list Q)) (nodes : list node) (tables : list (list Q)) (ids : list nat) : Q :=
  qsum (map (tree_err no ds res nodes tables) ids).
(* the sum over the TERMINAL pairs of the trace of the clamped RSS of the tree's predictions on the samples recorded for the pair *)
Definition leaf_rss_sum (no : nat) (floor : Q) (ds : list sample) (res : list (list Q)) (max_depth min_size : Z)
           (nodes : list node) (tables : list (list Q)) (tr : trace) : Q :=
  qsum (map (fun e => if src_c10_tree_terminal_fit (Z.of_nat (length (fst e))) min_size (snd e) max_depth
                      then clamp floor (tree_rss no ds res nodes tables (fst e)) else 0) tr).
(* does the walk of sample s from pair p visit pair q? *)
Fixpoint reaches (fuel : nat) (nodes : list node) (p q : Z) (s : sample) : bool :=
  (p =? q)%Z ||
  match fuel with
  | O => false
  | S f =>
      let nd := znth p nodes node0 in
      match fget (n_feature nd) s with
      | FNum x => if src_c10_tree_terminal (n_next nd) then false
                  else reaches f nodes (n_next (znth (src_c10_tree_child p (side_of x (n_thr nd))) nodes node0)) q s
      | _ => false
      end
  end.
