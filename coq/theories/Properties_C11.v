(* C11 -- Fitted models reproduce reported statistics; early stopping keeps the right round.
   Only statements + `exact` + Print Assumptions live here. Model: C11_Defs (the conditions of
   early_stopping_t::done, the mean_error denominator, the rows kept by gboost::result_t::done and the (trial, fold)
   slot arithmetic are kernels translated from /repo's working tree on every run: Src_earlystop, Src_mlresult).
   T = scalar_t with arbitrary `<` and `-` (nothing is assumed about them: the statements hold for binary64 including
   rounding, infinities and NaN), V = the per-sample (error|loss) tensor. *)
From Coq Require Import List ZArith Bool QArith Lia.
From LN Require Import C11_Defs C11_Proofs.
Import ListNotations.
Local Open Scope Z_scope.

(* For EVERY history of calls (whatever earlier calls answered) the next call of early_stopping_t::done answers true
   exactly when the specification says so -- training error below epsilon, or no snapshot taken (no validation
   improvement larger than epsilon over the value of the latest snapshot, and validation samples exist) while the
   ensemble has reached (round of the latest snapshot) + patience learners -- and (round, value, values) afterwards
   are those of the latest snapshot-taking call. *)
Theorem C11_early_stop_refines_spec :
  forall (T V : Type) (ltb : T -> T -> bool) (sub : T -> T -> T) (eps tmax : T) (patience : Z) (v0 : V)
         (h : list (obs T V)) (o : obs T V),
    es_done ltb sub eps patience (es_run ltb sub eps patience (es_init tmax v0) h) o
    = (sp_stop ltb sub eps tmax patience (rev h) o, sp_state ltb sub eps tmax v0 (rev (h ++ [o]))).
Proof. exact refines_spec. Qed.
Print Assumptions C11_early_stop_refines_spec.

(* The boosting loop's use (stop at the first `true`): it stops at call k iff k is the first call at which the
   specification stops, and never if there is none; the monitor then holds the specified snapshot. *)
Theorem C11_early_stop_first_stop :
  forall (T V : Type) (ltb : T -> T -> bool) (sub : T -> T -> T) (eps tmax : T) (patience : Z) (v0 : V)
         (h : list (obs T V)),
    match es_until ltb sub eps patience (es_init tmax v0) 0%nat h with
    | (Some k, s) =>
        (forall i o, (i < k)%nat -> nth_error h i = Some o ->
                     sp_stop ltb sub eps tmax patience (rev (firstn i h)) o = false) /\
        (exists o, nth_error h k = Some o /\ sp_stop ltb sub eps tmax patience (rev (firstn k h)) o = true) /\
        s = sp_state ltb sub eps tmax v0 (rev (firstn (S k) h))
    | (None, s) =>
        (forall i o, nth_error h i = Some o -> sp_stop ltb sub eps tmax patience (rev (firstn i h)) o = false) /\
        s = sp_state ltb sub eps tmax v0 (rev h)
    end.
Proof. exact until_spec. Qed.
Print Assumptions C11_early_stop_first_stop.

(* Index reading of "the latest snapshot": among the first n calls it is the call j < n that takes a snapshot
   (train error < eps, or validation error < value of the previous snapshot - eps, or no validation samples) such that
   no call strictly between j and n does; there is none iff no call below n takes a snapshot. *)
Theorem C11_early_stop_last_snapshot :
  forall (T V : Type) (ltb : T -> T -> bool) (sub : T -> T -> T) (eps tmax : T) (h : list (obs T V)) (n : nat),
    let takes i := exists o, nth_error h i = Some o /\
                             upd_by ltb sub eps (sp_value ltb sub eps tmax (rev (firstn i h))) o = true in
    (n <= length h)%nat ->
    match sp_last ltb sub eps tmax (rev (firstn n h)) with
    | Some o => exists j, (j < n)%nat /\ nth_error h j = Some o /\ takes j /\ (forall m, (j < m < n)%nat -> ~ takes m)
    | None => forall m, (m < n)%nat -> ~ takes m
    end.
Proof. exact last_snapshot. Qed.
Print Assumptions C11_early_stop_last_snapshot.

(* In the boosting loop the k-th call sees k learners. With patience >= 1 a stop at call k that is not the
   train-error exit happens exactly `patience` calls after the reported round (k = round + patience), the train-error
   exit reports round k itself with the values of that very call, and always 0 <= round <= k; if the history runs out
   first, the reported round is within `patience` of its length. *)
Theorem C11_early_stop_patience_window :
  forall (T V : Type) (ltb : T -> T -> bool) (sub : T -> T -> T) (eps tmax : T) (patience : Z) (v0 : V)
         (h : list (obs T V)),
    fit_shaped 0 h -> 1 <= patience ->
    match es_until ltb sub eps patience (es_init tmax v0) 0%nat h with
    | (Some k, s) =>
        (0 <= k)%nat /\
        exists o, nth_error h (k - 0) = Some o /\
          let c := 0 + Z.of_nat (k - 0) in
          0 <= es_round s <= c /\
          ((ltb (o_train o) eps = true /\ s = snap o /\ es_round s = c) \/
           (ltb (o_train o) eps = false /\ c = es_round s + patience))
    | (None, s) => 0 <= es_round s <= 0 + Z.of_nat (length h) /\ 0 + Z.of_nat (length h) <= es_round s + patience
    end.
Proof. exact patience_window. Qed.
Print Assumptions C11_early_stop_patience_window.

(* The boosting loop of model.cpp + gboost::result_t: whatever happens in the rounds (a round appends a learner and
   consults the monitor, the scaling-failure exit appends a learner without consulting it, no-fit breaks, max_rounds
   cuts), `result.done(optimum.round())` erases a valid range (0 <= round <= #learners), keeps exactly the learners of
   the first `round` rounds and round + 1 statistics rows, all of which were written; and the monitor's per-sample
   values are those observed right after the round-th learner was added (the bias round's if round = 0). *)
Theorem C11_round_is_kept :
  forall (T V W : Type) (ltb : T -> T -> bool) (sub : T -> T -> T) (eps tmax : T) (patience : Z)
         (max_rounds : nat) (o0 : obs T V) (evs : list (ev T V W)),
    let st := boost ltb sub eps tmax patience max_rounds o0 evs in
    let used := firstn max_rounds evs in
    0 <= es_round (ls_es st) <= Z.of_nat (length (ls_learners st)) /\
    kept_learners st = firstn (Z.to_nat (es_round (ls_es st))) (round_ws used) /\
    Z.of_nat (length (kept_learners st)) = es_round (ls_es st) /\
    kept_rows st = es_round (ls_es st) + 1 /\ kept_rows st <= ls_rows st /\
    snapshot_of (o_values o0) (round_obs used) (ls_es st).
Proof. exact round_is_kept. Qed.
Print Assumptions C11_round_is_kept.

(* ml::result_t: store/extra/log_path use the same slot, distinct (trial, fold) pairs get distinct slots inside
   m_extras (size folds * trials); the task `index` of ml::tune writes the slot old_trials * folds + index with a valid
   fold and a new trial, so concurrent tasks never share a slot. *)
Theorem C11_slots :
  (forall folds trial fold,
     slot_read folds trial fold = slot folds trial fold /\ slot_log folds trial fold = slot folds trial fold) /\
  (forall folds t f t' f', 0 <= f < folds -> 0 <= f' < folds -> slot folds t f = slot folds t' f' -> t = t' /\ f = f') /\
  (forall folds trials t f, 0 <= t < trials -> 0 <= f < folds -> 0 <= slot folds t f < folds * trials) /\
  (forall folds old_trials new_trials index,
     0 < folds -> 0 <= old_trials -> 0 <= index < Src_mlresult.src_tune_tasks folds new_trials ->
     let f := Src_mlresult.src_tune_fold index folds in
     let t := Src_mlresult.src_tune_store_trial old_trials (Src_mlresult.src_tune_trial index folds) in
     0 <= f < folds /\ old_trials <= t < old_trials + new_trials /\
     task_slot folds old_trials index = old_trials * folds + index).
Proof. exact (conj slot_agree (conj slot_injective (conj slot_range task_slot_spec))). Qed.
Print Assumptions C11_slots.

(* Ordered scalars (errors as integers in a common unit, `<` and `-` the real ones, eps >= 0). On a history of calls
   that have validation samples and are not the train-error exit: no call seen has a validation error better than the
   reported value by more than eps, and (call k seeing k learners) every round before the reported one has a strictly
   larger validation error -- the reported round is the earliest one achieving the reported value. *)
Theorem C11_early_stop_eps_optimal :
  forall (V : Type) (eps tmax : Z), 0 <= eps ->
  forall (patience : Z) (v0 : V) (h : list (obs Z V)),
    Forall (fun o => eps <= o_train o /\ o_nvalid o <> 0) h ->
    let s := es_run Z.ltb Z.sub eps patience (es_init tmax v0) h in
    (forall o, In o h -> es_value s - eps <= o_valid o) /\
    (fit_shaped 0 h -> forall i o, nth_error h i = Some o -> Z.of_nat i < es_round s -> es_value s < o_valid o).
Proof. exact eps_optimal. Qed.
Print Assumptions C11_early_stop_eps_optimal.

(* gboost_model_t::fit, exact arithmetic: given that scaling a weak learner scales its prediction and that merging
   preserves the summed prediction (the C10 facts about wlearner_t::scale / wlearner::merge), the final model
   (biases summed, learners of all folds concatenated, merged, everything scaled by 1/folds) predicts the average of
   the per-fold models' predictions, each being bias + sum of weak learners. *)
Theorem C11_fold_average :
  forall (X W : Type) (pred : W -> X -> Q) (scale : Q -> W -> W) (merge : list W -> list W),
    (forall c w x, pred (scale c w) x == c * pred w x)%Q ->
    (forall ws x, qsum (map (fun w => pred w x) (merge ws)) == qsum (map (fun w => pred w x) ws))%Q ->
    forall (fm : list (Q * list W)) (x : X), fm <> [] ->
      (gb_predict pred (fst (fold_average scale merge fm)) (snd (fold_average scale merge fm)) x
       == qsum (map (fun m => gb_predict pred (fst m) (snd m) x) fm) / inject_Z (Z.of_nat (length fm)))%Q.
Proof. exact fold_average_predicts_mean. Qed.
Print Assumptions C11_fold_average.

(* ---------------- non-vacuity: the hypotheses are satisfiable and every exit is taken ---------------- *)
(* integer instance: errors in units of 1/8, eps = 2, patience = 2, call k sees k learners *)
Definition ex_obs (train valid size : Z) : obs Z nat := mk_obs train valid 3 size (Z.to_nat size).
Definition ex_hist : list (obs Z nat) :=
  [ex_obs 40 50 0; ex_obs 30 40 1; ex_obs 20 38 2; ex_obs 20 39 3; ex_obs 20 10 4].

Example C11_nonvacuous_patience_exit :
  fit_shaped 0 ex_hist /\ 1 <= 2 /\
  es_until Z.ltb Z.sub 2 2 (es_init 1000 0%nat) 0%nat ex_hist = (Some 3%nat, mk_es 1 40 1%nat).
Proof. vm_compute. repeat split; intros; discriminate. Qed.

Example C11_nonvacuous_train_exit :
  es_until Z.ltb Z.sub 2 2 (es_init 1000 0%nat) 0%nat [ex_obs 40 50 0; ex_obs 1 60 1] = (Some 1%nat, mk_es 1 60 1%nat).
Proof. vm_compute. reflexivity. Qed.

Example C11_nonvacuous_no_stop :
  es_until Z.ltb Z.sub 2 2 (es_init 1000 0%nat) 0%nat (firstn 3 ex_hist) = (None, mk_es 1 40 1%nat).
Proof. vm_compute. reflexivity. Qed.

(* the specification distinguishes "improvement of exactly eps" (not a snapshot) from a larger one *)
Example C11_nonvacuous_spec_boundary :
  sp_last Z.ltb Z.sub 2 1000 (rev [ex_obs 40 50 0; ex_obs 40 48 1]) = Some (ex_obs 40 50 0) /\
  sp_last Z.ltb Z.sub 2 1000 (rev [ex_obs 40 50 0; ex_obs 40 47 1]) = Some (ex_obs 40 47 1).
Proof. vm_compute. split; reflexivity. Qed.

(* a loop run where the scaling-failure learner and two rounds after the optimum are erased *)
Example C11_nonvacuous_loop :
  let st := boost Z.ltb Z.sub 2 1000 2 10 (ex_obs 40 50 0)
                  [EvRound 11 (ex_obs 30 40 0); EvRound 12 (ex_obs 30 39 0); EvScaleFail 13; EvRound 14 (ex_obs 1 1 0)] in
  ls_learners st = [11; 12; 13] /\ kept_learners st = [11] /\ kept_rows st = 2 /\ ls_rows st = 4.
Proof. vm_compute. repeat split; reflexivity. Qed.

Example C11_nonvacuous_slots :
  0 < 3 /\ 0 <= 2 /\ 0 <= 7 < Src_mlresult.src_tune_tasks 3 4 /\ task_slot 3 2 7 = 13 /\ slot 3 4 1 = 13.
Proof. vm_compute. repeat split; intros; discriminate. Qed.

(* ex_hist satisfies the hypotheses of C11_early_stop_eps_optimal up to its fourth call *)
Example C11_nonvacuous_eps_optimal :
  0 <= 2 /\ Forall (fun o : obs Z nat => 2 <= o_train o /\ o_nvalid o <> 0) (firstn 4 ex_hist) /\
  fit_shaped 0 (firstn 4 ex_hist) /\
  es_run Z.ltb Z.sub 2 2 (es_init 1000 0%nat) (firstn 4 ex_hist) = mk_es 1 40 1%nat.
Proof.
  split; [lia|]. split.
  - repeat constructor; simpl; lia.
  - vm_compute. repeat split; reflexivity.
Qed.

(* learners that multiply the input by a rational: the two hypotheses of C11_fold_average hold, two folds *)
Example C11_nonvacuous_fold_average :
  let pred (w x : Q) := (w * x)%Q in
  let scale (c w : Q) := (c * w)%Q in
  let merge (l : list Q) := l in
  (forall c w x, pred (scale c w) x == c * pred w x)%Q /\
  (forall ws x, qsum (map (fun w => pred w x) (merge ws)) == qsum (map (fun w => pred w x) ws))%Q /\
  (gb_predict pred (fst (fold_average scale merge [(1#2, [2#1]); (3#2, [1#1; 3#1])]))
                   (snd (fold_average scale merge [(1#2, [2#1]); (3#2, [1#1; 3#1])])) (2#1) == 7)%Q.
Proof.
  cbv zeta. split; [intros; ring|]. split; [intros; reflexivity|]. vm_compute. reflexivity.
Qed.

(* ==================================================================================================================== *)
(* Extension "assemble": the model-assembly code of src/gboost/model.cpp inside the model (C11_Assemble_Defs, built on the   *)
(* C10 learner model: wl, predict, scale, merge). Loop bounds, the 1/folds factor, the (trial, fold) read, the reset of the  *)
(* learner list and the cut-back index are kernels translated from the source on every run (Src_asm).                       *)
(* ==================================================================================================================== *)
From LN Require Import C10_Defs C10_Proofs C11_Assemble_Defs C11_Assemble.
Local Open Scope Q_scope.

(* gboost_model_t::do_predict, for every model, sample and previous contents of the buffer: the result is the accumulation,
   in list order, of the learners' increments on the row that was ASSIGNED the bias (definition unfolded from the code's
   loop); it has one entry per output; it does not depend on what the buffer held; and it is the bias plus the sum of the
   weak learners' own predictions (each from zero). *)
Theorem C11_predict_bias_plus_learners : forall (no : nat) (m : gbm) (s : sample) (prev : list Q),
  gbm_predict no m s prev = sum_incrs no (g_bias m) (map (fun w => incr no w s) (g_ws m)) prev /\
  length (gbm_predict no m s prev) = no /\
  (forall prev', gbm_predict no m s prev' = gbm_predict no m s prev) /\
  (forall o, (o < no)%nat ->
     rget o (gbm_predict no m s prev)
     == rget o (g_bias m) + C10_Defs.qsum (map (fun w => rget o (predict no w s (zeros no))) (g_ws m))).
Proof. exact gbm_predict_spec. Qed.
Print Assumptions C11_predict_bias_plus_learners.

(* ::fit, the per-round accumulation, for every list of rounds (learner, gstate.x(), locally tuned ratio or none), every
   initial shrinkage ratio and every sample: one learner is stored per round, and the sample's row of the `outputs` buffer
   (outputs += woutputs, woutputs *= ratio under local shrinkage) equals predict() of the model made of the bias and the
   learners stored so far -- the errors/losses the early-stopping monitor sees at a round are those of that model. *)
Theorem C11_loop_outputs_are_model_predictions :
  forall (no : nat) (s : sample) (ratio0 : Q) (bias : list Q) (rs : list bround) (prev : list Q),
    let st := bloop no s ratio0 bias rs in
    length (bs_ws st) = length rs /\ length (bs_out st) = no /\
    forall o, (o < no)%nat -> rget o (bs_out st) == rget o (gbm_predict no (mk_gbm bias (bs_ws st)) s prev).
Proof. exact loop_outputs_spec. Qed.
Print Assumptions C11_loop_outputs_are_model_predictions.

(* The cut-back, composed with C11_round_is_kept: for every event sequence of the boosting loop the fold model returned by
   ::fit (result.done(optimum.round()): erase, then wlearner::merge) holds the merge of exactly the learners of the rounds
   before the optimum round r* -- never more than r* learners -- and predicts bias + the sum of those r* learners. *)
Theorem C11_cut_back_keeps_rounds_before_optimum :
  forall (T V : Type) (ltb : T -> T -> bool) (sub : T -> T -> T) (eps tmax : T) (patience : Z)
         (bias : list Q) (max_rounds : nat) (o0 : obs T V) (evs : list (ev T V wl)),
    let st := boost ltb sub eps tmax patience max_rounds o0 evs in
    let r := es_round (ls_es st) in
    g_bias (fold_model bias st) = bias /\
    g_ws (fold_model bias st) = merge (kept_learners st) /\
    g_ws (fold_model bias st) = merge (firstn (Z.to_nat r) (round_ws (firstn max_rounds evs))) /\
    (Z.of_nat (length (g_ws (fold_model bias st))) <= r)%Z /\
    forall no s prev o, (o < no)%nat ->
      rget o (gbm_predict no (fold_model bias st) s prev)
      == rget o bias + psum no (firstn (Z.to_nat r) (round_ws (firstn max_rounds evs))) s o.
Proof. exact fold_model_spec. Qed.
Print Assumptions C11_cut_back_keeps_rounds_before_optimum.

(* ... and the cut-back model predicts exactly the outputs the loop held right after round r (the ones the optimum's
   per-sample values were computed from), whatever was appended after the rounds (the scaling-failure learner). *)
Theorem C11_fold_model_predicts_optimum_outputs :
  forall (no : nat) (s : sample) (ratio0 : Q) (bias : list Q) (rs : list bround) (extra : list wl) (r : Z)
         (prev : list Q) (o : nat),
    (o < no)%nat -> (0 <= r <= Z.of_nat (length rs))%Z ->
    rget o (gbm_predict no (mk_gbm bias (result_done r (bs_ws (bloop no s ratio0 bias rs) ++ extra))) s prev)
    == rget o (bs_out (bloop no s ratio0 bias (firstn (Z.to_nat r) rs))).
Proof. exact cut_back_outputs. Qed.
Print Assumptions C11_fold_model_predicts_optimum_outputs.

(* gboost_model_t::fit: the fold loop visits fold = 0, .., folds - 1 in this order, and the models it reads through
   fit_result.extra(optimum_trial, fold) are the entries slot(optimum_trial, fold) of m_extras, all inside the table. *)
Theorem C11_assembly_reads_the_optimum_folds :
  (forall folds, (0 <= folds)%Z -> asm_folds_visited folds = map Z.of_nat (seq 0 (Z.to_nat folds))) /\
  (forall extras folds t fold, asm_pick extras folds t fold = nth (Z.to_nat (slot folds t fold)) extras gbm0) /\
  (forall extras folds trials t, (0 <= t < trials)%Z -> Z.of_nat (length extras) = (folds * trials)%Z ->
     length (fold_models extras folds t) = Z.to_nat folds /\
     forall f, (f < Z.to_nat folds)%nat ->
       (0 <= t * folds + Z.of_nat f < Z.of_nat (length extras))%Z /\
       (t * folds + Z.of_nat f)%Z = slot folds t (Z.of_nat f) /\
       nth_error extras (Z.to_nat (t * folds + Z.of_nat f)) = Some (nth f (fold_models extras folds t) gbm0)).
Proof. exact (conj asm_folds_visited_spec (conj asm_pick_spec fold_models_in_range)). Qed.
Print Assumptions C11_assembly_reads_the_optimum_folds.

(* Closed form of the assembled model, for every number of folds, every table of fold models and every state [m] the object
   was in: the learners are the merge of the concatenated fold learners (fold 0 first), each scaled by 1/folds; the stored
   bias is the average of the fold biases; nothing depends on [m]. *)
Theorem C11_assemble_closed_form : forall (no : nat) (m : gbm) (extras : list gbm) (folds t : Z), (0 <= folds)%Z ->
  let fms := fold_models extras folds t in
  let fin := assemble no m extras folds t in
  g_ws fin = map (scale [1 / inject_Z folds]) (merge (concat (map g_ws fms))) /\
  (forall o, (o < no)%nat ->
     rget o (g_bias fin) == C10_Defs.qsum (map (fun f => rget o (g_bias f)) fms) * (1 / inject_Z folds)) /\
  assemble no m extras folds t = assemble no gbm0 extras folds t.
Proof. exact assemble_spec. Qed.
Print Assumptions C11_assemble_closed_form.

(* The final model predicts, for every sample and every output, the average over the folds of the optimum trial of the fold
   models' predictions (through C10: scale multiplies the prediction, merge preserves the summed prediction) -- also in the
   form the driver evaluates on the real per-learner vectors (avg_rows of the fold models' rows). *)
Theorem C11_final_predicts_fold_average :
  forall (no : nat) (m : gbm) (extras : list gbm) (folds t : Z) (s : sample) (prev : list Q) (o : nat),
    (0 < folds)%Z -> (o < no)%nat ->
    let fms := fold_models extras folds t in
    rget o (gbm_predict no (assemble no m extras folds t) s prev)
    == C10_Defs.qsum (map (fun f => rget o (gbm_predict no f s prev)) fms) / inject_Z folds /\
    rget o (gbm_predict no (assemble no m extras folds t) s prev)
    == rget o (avg_rows no (map (fun f => gbm_predict no f s prev) fms)).
Proof. exact final_predicts_fold_average. Qed.
Print Assumptions C11_final_predicts_fold_average.

(* Re-fitting the same object (seed C11/1): whatever model the object holds when fit() is called, the fold loop starts from
   an empty learner list and a zero bias. (The number of learners kept by the reset is the kernel src_asm_reset_size, read
   from the statements between the bias reset and the fold loop: without `m_wlearners.clear()` it is n * 1.) *)
Theorem C11_refit_starts_empty : forall (no : nat) (m : gbm),
  g_ws (asm_reset no m) = [] /\ g_bias (asm_reset no m) = zeros no.
Proof. exact refit_starts_empty. Qed.
Print Assumptions C11_refit_starts_empty.

(* ---------------- non-vacuity of the extension ---------------- *)
Definition exa_stump (lo hi : Q) : wl := WStump 0 0 [lo] [hi].
Definition exa_aff (w b : Q) : wl := WAffine 0 [w] [b].
Definition exa_s : sample := [FNum 2].

(* predict: bias 1, a stump (x = 2 >= 0 -> 5) and an affine learner (3 * 2 + 1): 13, whatever the buffer held *)
Example C11_nonvacuous_predict :
  (0 < 1)%nat /\ gbm_predict 1 (mk_gbm [1] [exa_stump 4 5; exa_aff 3 1]) exa_s [100] = gbm_predict 1 (mk_gbm [1] [exa_stump 4 5; exa_aff 3 1]) exa_s [] /\
  rget 0 (gbm_predict 1 (mk_gbm [1] [exa_stump 4 5; exa_aff 3 1]) exa_s [100]) == 13.
Proof. split; [lia|]. split; reflexivity. Qed.

(* two rounds with local shrinkage: the tuned ratio of round 1 (1/2) also multiplies gstate.x() of round 2 *)
Example C11_nonvacuous_loop_outputs :
  let st := bloop 1 exa_s 1 [1] [mk_br (exa_stump 4 6) [2] (Some (1#2)); mk_br (exa_aff 1 0) [3] None] in
  length (bs_ws st) = 2%nat /\ rget 0 (bs_out st) == 10 /\ bs_ratio st == 1#2 /\
  rget 0 (gbm_predict 1 (mk_gbm [1] (bs_ws st)) exa_s []) == 10.
Proof. vm_compute. repeat split; reflexivity. Qed.

(* the loop of C11_nonvacuous_loop with learners of the C10 model: three learners stored, the optimum round is 1 *)
Example C11_nonvacuous_cut_back :
  let st := boost Z.ltb Z.sub 2%Z 1000%Z 2 10 (ex_obs 40 50 0)
                  [EvRound (exa_stump 1 2) (ex_obs 30 40 0); EvRound (exa_stump 3 4) (ex_obs 30 39 0);
                   EvScaleFail (exa_aff 1 1); EvRound (exa_aff 2 2) (ex_obs 1 1 0)] in
  es_round (ls_es st) = 1%Z /\ length (ls_learners st) = 3%nat /\ g_ws (fold_model [7] st) = [exa_stump 1 2] /\
  rget 0 (gbm_predict 1 (fold_model [7] st) exa_s []) == 9.
Proof. vm_compute. repeat split; reflexivity. Qed.

Example C11_nonvacuous_optimum_outputs :
  (0 < 1)%nat /\ (0 <= 1 <= Z.of_nat 2)%Z /\
  rget 0 (bs_out (bloop 1 exa_s 1 [1] (firstn 1 [mk_br (exa_stump 4 6) [2] None; mk_br (exa_aff 1 0) [3] None]))) == 13.
Proof. split; [lia|]. split; [lia|]. vm_compute. reflexivity. Qed.

(* m_extras of 2 trials x 2 folds; the optimum trial is 1: slots 2 and 3. Fold models: (bias 1, [affine 2x+0; stump]) and
   (bias 3, [affine 4x+2]): the affine learners merge across the folds, the object's previous learner is forgotten *)
Definition exa_extras : list gbm :=
  [mk_gbm [100] [exa_stump 9 9]; mk_gbm [100] []; mk_gbm [1] [exa_aff 2 0; exa_stump 4 6]; mk_gbm [3] [exa_aff 4 2]].
Example C11_nonvacuous_reads :
  (0 <= 2)%Z /\ asm_folds_visited 2 = [0%Z; 1%Z] /\ (0 <= 1 < 2)%Z /\ Z.of_nat (length exa_extras) = (2 * 2)%Z /\
  fold_models exa_extras 2 1 = [mk_gbm [1] [exa_aff 2 0; exa_stump 4 6]; mk_gbm [3] [exa_aff 4 2]].
Proof. vm_compute. repeat split; intros; discriminate. Qed.
Example C11_nonvacuous_assemble :
  let fin := assemble 1 (mk_gbm [50] [exa_stump 8 8]) exa_extras 2 1 in
  (0 < 2)%Z /\ length (g_ws fin) = 2%nat /\ rget 0 (g_bias fin) == 2 /\
  (* fold models predict 1 + 4 + 6 = 11 and 3 + 10 = 13 at x = 2: the final model predicts 12 *)
  rget 0 (gbm_predict 1 fin exa_s [77]) == 12 /\
  rget 0 (avg_rows 1 (map (fun f => gbm_predict 1 f exa_s []) (fold_models exa_extras 2 1))) == 12.
Proof. vm_compute. repeat split; reflexivity. Qed.
Example C11_nonvacuous_refit :
  g_ws (asm_reset 1 (mk_gbm [50] [exa_stump 8 8; exa_aff 1 1])) = [] /\
  assemble 1 (mk_gbm [50] [exa_stump 8 8]) exa_extras 2 1 = assemble 1 gbm0 exa_extras 2 1.
Proof. vm_compute. split; reflexivity. Qed.

(* ==================================================================================================================== *)
(* Extension "stats": the code that COMPUTES and STORES the reported statistics inside the model (C11_Stats_Defs):          *)
(* ml::store_stats / load_stats, tensor_t::mean / variance (clamped) / stdev, nano::percentile (the C20 model), the flat      *)
(* buffers m_values(trial, fold, split, kind, 12) / m_optims of ml::result_t (C16 index model), value(), optimum_trial(),     *)
(* closest_trial(), the tasks of ml::tune. 70 kernels translated on every run (Src_stats).                                    *)
(* ==================================================================================================================== *)
From Coq Require Import Permutation Sorted.
From LN Require Import C16_Defs C20_Defs C20_Proofs C11_Stats_Defs C11_Stats.
Local Open Scope Q_scope.

(* what the translated selector / index kernels say: which quantity goes to which column, which column each member of
   stats_t reads, the nine percentages, the four store_stats calls of store(trial, fold, ..), the enum -> index maps *)
Theorem C11_stats_kernels :
  st_sel = [0; 1; 2]%Z /\ st_pcts = [1; 5; 10; 20; 50; 80; 90; 95; 99]%Z /\ ld_cols = [0; 1; 2; 3; 4; 5; 6; 7; 8; 9; 10; 11]%Z /\
  @store_calls = [(0, 0, 0, 0); (0, 1, 0, 1); (1, 0, 1, 0); (1, 1, 1, 1)]%Z /\ final_calls = [(0, 0); (1, 1)]%Z /\
  (forall s c a, Src_stats.src_var_expr s c a = Z.max (Z.quot s c - a * a) 0) /\
  (forall T (Op : ops T) st t f (a b : bool),
     r_stats Op st t f a b = load_stats Op (r_read st t f (if a then 0 else 1) (if b then 0 else 1))%Z) /\
  (forall T (Op : ops T) st (b : bool), r_stats_final Op st b = load_stats Op (r_read_opt st (if b then 0 else 1)%Z)) /\
  (forall T (Op : ops T) m s c vals, load_stats Op (store_stats Op [m; s; c] vals) = m :: s :: c :: st_percentiles Op vals) /\
  (forall n, Src_stats.src_st_pct_last n = Src_pctile.src_pct_last n) /\
  (forall l r, Src_stats.src_st_pct_same l r = Src_pctile.src_pct_same l r).
Proof.
  split; [exact k_st_sel|]. split; [exact k_st_pcts|]. split; [exact k_ld_cols|]. split; [exact k_store_calls|].
  split; [exact k_final_calls|]. split; [exact k_var_expr|]. split; [exact @r_stats_eq|]. split; [exact @r_stats_final_eq|].
  split; [exact @load_store|]. exact k_pct_kernels_agree.
Qed.
Print Assumptions C11_stats_kernels.

(* (1) layout: every (trial, fold, split, kind, statistic) has its own cell inside the buffer; storing a (trial, fold) then
   loading returns the four records; no other (trial, fold) changes (frame); add() keeps every stored record and the new
   trials read as NaN *)
Theorem C11_stats_layout :
  (forall T F t f s v k t' f' s' v' k', idx_ok T F t f s v -> idx_ok T F t' f' s' v' -> (0 <= k < 12)%Z -> (0 <= k' < 12)%Z ->
     (0 <= cell T F t f s v k < size (vdims T F))%Z /\
     (cell T F t f s v k = cell T F t' f' s' v' k' -> t = t' /\ f = f' /\ s = s' /\ v = v' /\ k = k')) /\
  (forall A (st : rstate A) t f s v row, wf st -> ok st t f s v -> length row = 12%nat ->
     r_read (r_write st t f s v row) t f s v = row /\
     forall t' f' s' v', ok st t' f' s' v' -> (t, f, s, v) <> (t', f', s', v') ->
       r_read (r_write st t f s v row) t' f' s' v' = r_read st t' f' s' v') /\
  (forall A (st : rstate A) t f rec, wf st -> (0 <= t < r_trials st)%Z -> (0 <= f < r_folds st)%Z -> rows_ok rec ->
     let st' := r_store st t f rec in
     wf st' /\ r_trials st' = r_trials st /\ r_folds st' = r_folds st /\ r_optims st' = r_optims st /\
     r_read st' t f 0 0 = rec 0%Z 0%Z /\ r_read st' t f 0 1 = rec 0%Z 1%Z /\ r_read st' t f 1 0 = rec 1%Z 0%Z /\
     r_read st' t f 1 1 = rec 1%Z 1%Z /\
     (forall t' f' s' v', ok st t' f' s' v' -> (t', f') <> (t, f) -> r_read st' t' f' s' v' = r_read st t' f' s' v')) /\
  (forall A (d : A) (st : rstate A) n, wf st -> (0 <= n)%Z ->
     let st' := r_add d st n in
     wf st' /\ r_trials st' = (r_trials st + n)%Z /\ r_folds st' = r_folds st /\ r_optims st' = r_optims st /\
     (forall t f s v, ok st t f s v -> r_read st' t f s v = r_read st t f s v) /\
     (forall t f s v, ok st' t f s v -> (r_trials st <= t)%Z -> r_read st' t f s v = repeat d 12)) /\
  (forall A (st : rstate A) rec, length (r_optims st) = 24%nat -> length (rec 0%Z) = 12%nat -> length (rec 1%Z) = 12%nat ->
     let st' := r_store_final st rec in
     r_read_opt st' 0 = rec 0%Z /\ r_read_opt st' 1 = rec 1%Z /\ r_values st' = r_values st /\ r_trials st' = r_trials st /\
     r_folds st' = r_folds st /\ length (r_optims st') = 24%nat).
Proof.
  split; [intros; split; [apply cell_range; assumption|apply cell_injective; assumption]|].
  split; [intros A st t f s v row W K L; split; [apply read_write_same; assumption|intros; apply read_write_other; assumption]|].
  split; [intros A; exact (@store_spec A)|]. split; [intros A; exact (@add_spec A)|]. intros A; exact (@final_spec A).
Qed.
Print Assumptions C11_stats_layout.

(* (2) the 12 numbers are a function of the MULTISET of the per-sample values: whatever the order in which samples or
   threads delivered them (exact rationals; component-wise Qeq) *)
Theorem C11_stats_multiset : forall l l' : list Q, Permutation l l' ->
  Forall2 Qeq (q_stats l) (q_stats l') /\ q_variance l == q_variance l' /\ q_count l = q_count l'.
Proof. intros l l' H. split; [apply stats_multiset, H|]. split; [apply q_variance_perm, H|apply q_count_perm, H]. Qed.
Print Assumptions C11_stats_multiset.

(* (3) sanity facts of a stored record, for every non-empty list of at most 2^46 + 1 values: 12 numbers; count = length;
   the nine percentile columns are non-decreasing (p1 <= p5 <= ... <= p99); mean and every percentile lie between any lower
   and upper bound of the values (so between min and max); the radicand of the deviation and the variance are >= 0, and for
   n >= 2 they vanish iff all values are equal; over Q the clamp of b0b87e4 never fires (the one-pass expression IS the mean
   squared deviation) *)
Theorem C11_stats_order_facts : forall l : list Q, size_ok l ->
  let r := q_stats l in
  length r = 12%nat /\
  nth 0 r 0 == q_mean l /\ nth 1 r 0 == q_stdev2 l /\ nth 2 r 0 == inject_Z (Z.of_nat (length l)) /\
  (forall i j, (3 <= i <= j)%nat -> (j < 12)%nat -> nth i r 0 <= nth j r 0) /\
  (forall a b, (forall x, In x l -> a <= x <= b) ->
     a <= nth 0 r 0 <= b /\ forall k, (3 <= k < 12)%nat -> a <= nth k r 0 <= b) /\
  0 <= nth 1 r 0 /\ 0 <= q_variance l /\
  ((1 < Z.of_nat (length l))%Z -> (nth 1 r 0 == 0 <-> all_equal l) /\ (q_variance l == 0 <-> all_equal l) /\
                                  q_variance l == var_raw l /\ var_raw l == msd l / inject_Z (Z.of_nat (length l))) /\
  (length l = 1%nat -> nth 1 r 0 == 0 /\ q_variance l == 0).
Proof. exact stats_order_facts. Qed.
Print Assumptions C11_stats_order_facts.

(* (4) value(trial, split, kind) sums, fold 0 first, member m_mean of the stored statistics of that trial and divides by
   folds(): it reads nothing else (two states that agree on these means give the same value), over Q it is the mean of the
   stored fold means; value(trial) is the (validation, errors) one *)
Theorem C11_value_reads_stored_means :
  (forall T (Op : ops T) st t (a b : bool), (0 <= r_folds st)%Z ->
     r_value Op st t a b =
     div Op (fold_left (add Op) (map (fold_mean Op st t a b) (seq 0 (Z.to_nat (r_folds st)))) (ofZ Op 0)) (ofZ Op (r_folds st))) /\
  (forall T (Op : ops T) st st' t (a b : bool), (0 <= r_folds st)%Z -> r_folds st' = r_folds st ->
     (forall f, (f < Z.to_nat (r_folds st))%nat -> fold_mean Op st' t a b f = fold_mean Op st t a b f) ->
     r_value Op st' t a b = r_value Op st t a b) /\
  (forall st t (a b : bool), (0 <= r_folds st)%Z ->
     r_value Q_ops st t a b == qsum (map (fold_mean Q_ops st t a b) (seq 0 (Z.to_nat (r_folds st)))) / inject_Z (r_folds st)) /\
  (forall T (Op : ops T) st t, r_value_default Op st t = r_value Op st t false true).
Proof.
  split; [intros T Op; exact (r_value_eq Op)|]. split; [intros T Op; exact (r_value_reads_means Op)|].
  split; [exact q_value_eq|]. intros T Op; exact (r_value_default_eq Op).
Qed.
Print Assumptions C11_value_reads_stored_means.

(* optimum_trial() / closest_trial() over any totally pre-ordered scalar: the FIRST trial whose value(trial) / distance is
   minimal, provided one is below numeric_limits::max(); otherwise trial 0 *)
Theorem C11_optimum_is_first_minimum : forall T (Op : ops T), order_ok Op ->
  (forall (tmax : T) (st : rstate T), (0 <= r_trials st)%Z ->
     let x := r_value_default Op st in
     let r := r_optimum Op tmax st in
     ((forall j, (0 <= j < r_trials st)%Z -> ~ C20_Proofs.lt Op (x j) tmax) /\ r = 0%Z) \/
     ((0 <= r < r_trials st)%Z /\ C20_Proofs.lt Op (x r) tmax /\
      (forall j, (0 <= j < r_trials st)%Z -> C20_Proofs.le Op (x r) (x j)) /\
      (forall j, (0 <= j < r)%Z -> C20_Proofs.lt Op (x r) (x j)))) /\
  (forall (tmax : T) (dist : Z -> T) (n : Z), (0 <= n)%Z ->
     let r := r_closest Op tmax dist n in
     ((forall j, (0 <= j < n)%Z -> ~ C20_Proofs.lt Op (dist j) tmax) /\ r = 0%Z) \/
     ((0 <= r < n)%Z /\ C20_Proofs.lt Op (dist r) tmax /\ (forall j, (0 <= j < n)%Z -> C20_Proofs.le Op (dist r) (dist j)) /\
      (forall j, (0 <= j < r)%Z -> C20_Proofs.lt Op (dist r) (dist j)))).
Proof. intros T Op H. split; [exact (optimum_spec Op H)|exact (closest_spec Op H)]. Qed.
Print Assumptions C11_optimum_is_first_minimum.

(* (5) one batch of ml::tune, the folds * new_trials tasks executed in ANY order: afterwards the statistics stored for
   (old_trials + trial, fold, split, kind) are those of the list  map (error | loss of the model fitted for (trial, fold))
   over exactly the fold's (training | validation) samples, and no record of an older trial has changed *)
Theorem C11_tune_batch_any_order :
  forall (S M P : Type) (fit_cb : P -> list S -> M) (errf lossf : M -> S -> Q)
         (splits : list (list S * list S)) (params : list P) (dp : P) (st : rstate Q) (order : list Z),
  wf st -> (0 < r_folds st)%Z ->
  Permutation order (map Z.of_nat (seq 0 (Z.to_nat (r_folds st * Z.of_nat (length params))))) ->
  let st' := tune_batch S M P fit_cb errf lossf splits params dp st order in
  wf st' /\ r_trials st' = (r_trials st + Z.of_nat (length params))%Z /\ r_folds st' = r_folds st /\
  (forall trial fold (a b : bool), (0 <= trial < Z.of_nat (length params))%Z -> (0 <= fold < r_folds st)%Z ->
     let sp := nth (Z.to_nat fold) splits ([], []) in
     let m := fit_cb (nth (Z.to_nat trial) params dp) (fst sp) in
     r_stats Q_ops st' (r_trials st + trial) fold a b
     = q_stats (map ((if b then errf else lossf) m) (if a then fst sp else snd sp))) /\
  (forall t f s v, ok st t f s v -> r_read st' t f s v = r_read st t f s v).
Proof. exact tune_batch_spec. Qed.
Print Assumptions C11_tune_batch_any_order.

(* ---------------- non-vacuity of the extension "stats" ---------------- *)
Ltac conc := repeat split; try reflexivity; try (vm_compute; intros; discriminate); try (vm_compute; reflexivity).
Definition exs_vals : list Q := [3; 1; 2; 2; 5].
(* sorted 1 2 2 3 5: mean 13/5, one-pass variance 43/5 - 169/25 = 46/25, radicand 46/100, positions p*4/100: the percentile is
   an element or the MIDPOINT of two neighbours (1% .. 20% -> (1+2)/2, 50% -> 2, 80% .. 99% -> (3+5)/2) *)
Example C11_nonvacuous_stats_record :
  size_ok exs_vals /\ Permutation exs_vals (rev exs_vals) /\ rev exs_vals <> exs_vals /\ (1 < Z.of_nat (length exs_vals))%Z /\
  map Qred (q_stats exs_vals) = [13 # 5; 23 # 50; 5; 3 # 2; 3 # 2; 3 # 2; 3 # 2; 2; 4; 4; 4; 4] /\
  map Qred (q_stats (rev exs_vals)) = map Qred (q_stats exs_vals) /\
  Qred (q_variance exs_vals) = 46 # 25 /\ ~ all_equal exs_vals /\
  (forall x, In x exs_vals -> 1 <= x <= 5) /\
  all_equal [7 # 2; 7 # 2; 7 # 2] /\ map Qred (q_stats [7 # 2; 7 # 2; 7 # 2]) = [7#2; 0; 3; 7#2; 7#2; 7#2; 7#2; 7#2; 7#2; 7#2; 7#2; 7#2] /\
  map Qred (q_stats [9 # 4]) = [9#4; 0; 1; 9#4; 9#4; 9#4; 9#4; 9#4; 9#4; 9#4; 9#4; 9#4].
Proof.
  split; [conc|]. split; [apply Permutation_rev|]. split; [discriminate|]. split; [reflexivity|].
  split; [vm_compute; reflexivity|]. split; [vm_compute; reflexivity|]. split; [vm_compute; reflexivity|].
  split; [intros H; specialize (H 3 1 (or_introl eq_refl) (or_intror (or_introl eq_refl))); discriminate H|].
  split; [intros x Hx; cbn in Hx; repeat (destruct Hx as [<-|Hx]; [split; intros; discriminate|]); destruct Hx|].
  split; [intros x y Hx Hy; cbn in Hx, Hy; repeat (destruct Hx as [<-|Hx]; [repeat (destruct Hy as [<-|Hy]; [reflexivity|]); destruct Hy|]); destruct Hx|].
  split; vm_compute; reflexivity.
Qed.

(* a result with 2 folds and 3 trials (cells hold integers): records written for (trial 2, fold 1) are read back, the record
   of (trial 0, fold 0) written before survives, add() keeps it *)
Definition exs_row (k : Z) : list Z := map (fun i => (k * 100 + Z.of_nat i)%Z) (seq 0 12).
Definition exs_rec (base : Z) (w r : Z) : list Z := exs_row (base + 2 * w + r)%Z.
Definition exs_st0 : rstate Z := r_add (-1)%Z (r_new (-1)%Z 2) 2.
Definition exs_st1 : rstate Z := r_store exs_st0 0 0 (exs_rec 10).
Definition exs_st2 : rstate Z := r_add (-1)%Z exs_st1 1.
Definition exs_st3 : rstate Z := r_store exs_st2 2 1 (exs_rec 20).
Example C11_nonvacuous_stats_layout :
  wf exs_st0 /\ wf exs_st2 /\ (0 <= 2 < r_trials exs_st2)%Z /\ (0 <= 1 < r_folds exs_st2)%Z /\ rows_ok (exs_rec 20) /\
  ok exs_st2 0 0 1 0 /\ idx_ok 3 2 2 1 1 1 /\ cell 3 2 2 1 1 1 11 = 287%Z /\ size (vdims 3 2) = 288%Z /\
  r_read exs_st3 2 1 1 0 = exs_row 22 /\ r_read exs_st3 0 0 1 0 = exs_row 12 /\ r_read exs_st3 2 0 0 0 = repeat (-1)%Z 12 /\
  r_stats Z_ops exs_st3 2 1 false true = exs_row 22 /\ r_stats Z_ops exs_st3 0 0 true false = exs_row 11 /\
  r_stats_final Z_ops (r_store_final exs_st3 (fun r => exs_row (50 + r))) false = exs_row 51.
Proof. unfold rows_ok, ok, idx_ok, wf. conc. Qed.

(* value / optimum over Q: 2 folds, 3 trials, the (validation, errors) means are (4, 2), (1, 3), (3, 1): values 3, 2, 2 --
   the FIRST minimum (trial 1) is the optimum; closest_trial on the distances 5, 2, 2, 1 restricted to 3 trials is trial 1 *)
Definition exs_q (m : Q) : list Q := m :: repeat 0 11.
Definition exs_qst : rstate Q :=
  let st := r_add 0 (r_new 0 2) 3 in
  let put (st : rstate Q) (t f : Z) (m : Q) := r_store st t f (fun w r => if ((w =? 1) && (r =? 0))%Z then exs_q m else exs_q 100) in
  put (put (put (put (put (put st 0%Z 0%Z 4) 0%Z 1%Z 2) 1%Z 0%Z 1) 1%Z 1%Z 3) 2%Z 0%Z 3) 2%Z 1%Z 1.
Example C11_nonvacuous_value_optimum :
  order_ok Q_ops /\ (0 <= r_folds exs_qst)%Z /\ (0 <= r_trials exs_qst)%Z /\
  map (fun t => Qred (r_value_default Q_ops exs_qst t)) [0; 1; 2]%Z = [3; 2; 2] /\
  Qred (r_value Q_ops exs_qst 0 true false) = 100 /\
  r_optimum Q_ops 1000 exs_qst = 1%Z /\ C20_Proofs.lt Q_ops (r_value_default Q_ops exs_qst 1) 1000 /\
  r_closest Q_ops 1000 (fun t => nth (Z.to_nat t) [5; 2; 2; 1] 0) 3 = 1%Z /\
  q_closest 1000 [[0; 0]; [1; 1]; [3; 0]] [2; 1] 3 = 1%Z /\
  r_optimum Q_ops 1 exs_qst = 0%Z.
Proof. split; [exact Q_order_ok|]. conc. Qed.

(* a batch of 2 trials x 2 folds run in the order 3, 0, 2, 1 after an older trial: model = parameter + number of training
   samples, error = |model - sample| proxy (model - sample)^2, loss = model * sample *)
Definition exs_splits : list (list Z * list Z) := [([1; 2; 3], [4; 5])%Z; ([4; 5], [1; 2; 3])%Z].
Definition exs_fit (p : Z) (tr : list Z) : Z := (p + Z.of_nat (length tr))%Z.
Definition exs_err (m s : Z) : Q := inject_Z ((m - s) * (m - s)).
Definition exs_loss (m s : Z) : Q := inject_Z (m * s) / 2.
Definition exs_old : rstate Q := r_store (r_add 0 (r_new 0 2) 1) 0 1 (fun w r => exs_q (inject_Z (7 + w + r))).
Definition exs_new (order : list Z) : rstate Q := tune_batch Z Z Z exs_fit exs_err exs_loss exs_splits [10; 20]%Z 0%Z exs_old order.
Example C11_nonvacuous_tune_batch :
  wf exs_old /\ (0 < r_folds exs_old)%Z /\
  Permutation [3; 0; 2; 1]%Z (map Z.of_nat (seq 0 (Z.to_nat (r_folds exs_old * Z.of_nat (length [10; 20]%Z))))) /\
  map Qred (r_stats Q_ops (exs_new [3; 0; 2; 1]%Z) 2 1 false true) = map Qred (q_stats (map (exs_err 22) [1; 2; 3]%Z)) /\
  map (map Qred) (map (fun t => r_stats Q_ops (exs_new [3; 0; 2; 1]%Z) t 0 true false) [1; 2]%Z)
  = map (map Qred) (map (fun t => r_stats Q_ops (exs_new [0; 1; 2; 3]%Z) t 0 true false) [1; 2]%Z) /\
  r_read (exs_new [3; 0; 2; 1]%Z) 0 1 1 1 = exs_q 9.
Proof.
  split; [unfold wf; conc|]. split; [reflexivity|].
  split; [change (Permutation [3; 0; 2; 1]%Z [0; 1; 2; 3]%Z);
          apply (perm_trans (l' := [0; 3; 2; 1]%Z)); [apply perm_swap|]; apply perm_skip;
          apply (perm_trans (l' := [2; 3; 1]%Z)); [apply perm_swap|];
          apply (perm_trans (l' := [2; 1; 3]%Z)); [apply perm_skip, perm_swap|apply perm_swap]|].
  conc.
Qed.
