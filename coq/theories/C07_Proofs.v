(* C07 -- proofs about the line-search model (C07_Defs): for EVERY probe oracle, parameters and fuel. *)
From Coq Require Import List ZArith Bool Floats Lia.
From LNGen Require Import Src_c07_flt.
From LN Require Import C07_Defs.
Import ListNotations.
Local Open Scope float_scope.

(* ---------- the predicates are the textbook float inequalities (breaks if state.cpp's expressions change) ---------- *)
Lemma has_descent_spec : forall p, has_descent p = (pg p <? 0).
Proof. reflexivity. Qed.

Lemma has_armijo_spec : forall p0 p t c1, has_armijo p0 p t c1 = (pf p <=? pf p0 + t * c1 * pg p0).
Proof. reflexivity. Qed.

Lemma has_wolfe_spec : forall p0 p c2, has_wolfe p0 p c2 = (c2 * pg p0 <=? pg p).
Proof. reflexivity. Qed.

Lemma has_strong_wolfe_spec : forall p0 p c2, has_strong_wolfe p0 p c2 = (abs (pg p) <=? c2 * abs (pg p0)).
Proof. reflexivity. Qed.

Lemma has_approx_armijo_spec : forall p0 p e, has_approx_armijo p0 p e = (pf p <=? pf p0 + e).
Proof. reflexivity. Qed.

Lemma has_approx_wolfe_spec : forall p0 p c1 c2,
  has_approx_wolfe p0 p c1 c2 = ((pg p <=? (2 * c1 - 1) * pg p0) && (c2 * pg p0 <=? pg p)).
Proof. reflexivity. Qed.

Lemma init_step_spec : forall t0, init_step t0 = if is_finite t0 then fclamp t0 stpmin 1 else 1.
Proof. reflexivity. Qed.

Local Arguments C07_Defs.update : simpl never.
Local Arguments cg_move : simpl never.
Local Arguments cg_done : simpl never.
Local Arguments cg_mucd : simpl never.
Local Arguments cg_update : simpl never.
Local Arguments interpolate : simpl never.
Local Arguments dcstep : simpl never.
Local Arguments mt_stop : simpl never.
Local Arguments mt_next : simpl never.
Local Arguments fclamp : simpl never.

Section Proofs.
  Variable phi : Z -> float -> probe.
  Variable prm : params.
  Variable p0 : probe.

  Local Notation update := (update phi).

  (* the ghosts are consistent: cnt = number of probes, cur = answer of the last one (or state0) *)
  Definition wf (s : state) : Prop :=
    cnt s = Z.of_nat (length (trace s)) /\
    match trace s with
    | [] => cur s = p0
    | t :: rest => cur s = phi (Z.of_nat (length rest)) t
    end.

  Definition synced (s : state) (t : float) : Prop := exists rest, trace s = t :: rest.

  (* at least one probe was made, the state is its answer and -- if that answer is valid -- it was requested at t *)
  Definition good (s : state) (t : float) : Prop :=
    wf s /\ trace s <> [] /\ (pv (cur s) = true -> synced s t).

  Lemma wf_init : wf (init_state p0).
  Proof. split; reflexivity. Qed.

  Lemma wf_update : forall s t, wf s -> wf (update s t).
  Proof.
    intros s t [Hc _]. split; simpl.
    - rewrite Hc. lia.
    - rewrite Hc. reflexivity.
  Qed.

  Lemma good_update : forall s t, wf s -> good (update s t) t.
  Proof.
    intros s t W. split; [apply wf_update; exact W|]. split.
    - simpl. discriminate.
    - intros _. exists (trace s). reflexivity.
  Qed.

  Lemma good_wf : forall s t, good s t -> wf s.
  Proof. intros s t G. apply G. Qed.

  (* ---------- backtrack ---------- *)
  Lemma backtrack_ok : forall fuel s t,
    good s t -> ok (backtrack phi prm p0 fuel s t) = true ->
    good (rs (backtrack phi prm p0 fuel s t)) (rt (backtrack phi prm p0 fuel s t)) /\
    armijo prm p0 (rs (backtrack phi prm p0 fuel s t)) (rt (backtrack phi prm p0 fuel s t)) = true.
  Proof.
    induction fuel as [|k IH]; intros s t G H; simpl in *.
    - discriminate.
    - destruct (negb (pv (cur s))) eqn:V; [simpl in H; discriminate|].
      destruct (armijo prm p0 s t) eqn:A; [simpl; split; assumption|].
      match type of H with context [update s ?x] => set (t' := x) in * end; change (phi (cnt s) t') with (cur (update s t')) in *.
      destruct (pv (cur (update s t'))) eqn:V'; [|simpl in H; discriminate].
      apply IH; [apply good_update; eapply good_wf; exact G|exact H].
  Qed.

  (* ---------- lemarechal ---------- *)
  Lemma lemarechal_ok : forall fuel s t L R,
    good s t -> ok (lemarechal phi prm p0 fuel s t L R) = true ->
    let r := lemarechal phi prm p0 fuel s t L R in
    good (rs r) (rt r) /\ armijo prm p0 (rs r) (rt r) = true /\ wolfe prm p0 (rs r) = true.
  Proof.
    induction fuel as [|k IH]; intros s t L R G H; simpl in *.
    - discriminate.
    - destruct (armijo prm p0 s t) eqn:A.
      + destruct (wolfe prm p0 s) eqn:W; [simpl; repeat split; try assumption; apply G|].
        match type of H with context [update s ?x] => set (t' := x) in * end; change (phi (cnt s) t') with (cur (update s t')) in *.
        destruct (pv (cur (update s t'))) eqn:V'; [|simpl in H; discriminate].
        apply IH; [apply good_update; eapply good_wf; exact G|exact H].
      + match type of H with context [update s ?x] => set (t' := x) in * end; change (phi (cnt s) t') with (cur (update s t')) in *.
        destruct (pv (cur (update s t'))) eqn:V'; [|simpl in H; discriminate].
        apply IH; [apply good_update; eapply good_wf; exact G|exact H].
  Qed.

  (* ---------- fletcher ---------- *)
  Lemma zoom_ok : forall fuel s lo hi,
    wf s -> ok (zoom phi prm p0 fuel s lo hi) = true ->
    let r := zoom phi prm p0 fuel s lo hi in
    good (rs r) (rt r) /\ armijo prm p0 (rs r) (rt r) = true /\ swolfe prm p0 (rs r) = true.
  Proof.
    induction fuel as [|k IH]; intros s lo hi W H; simpl in *.
    - discriminate.
    - destruct (negb (eps0 <? abs (st_t lo - st_t hi))) eqn:E0; [simpl in H; discriminate|].
      match type of H with context [update s ?x] => set (t := x) in * end; change (phi (cnt s) t) with (cur (update s t)) in *.
      destruct (negb (pv (cur (update s t)))) eqn:V; [simpl in H; discriminate|].
      destruct (negb (armijo prm p0 (update s t) t) || (st_f lo <=? pf (cur (update s t)))) eqn:C1.
      + apply IH; [apply wf_update; exact W|exact H].
      + apply orb_false_iff in C1. destruct C1 as [C1 _]. apply negb_false_iff in C1.
        destruct (swolfe prm p0 (update s t)) eqn:SW.
        * simpl. split; [apply good_update; exact W|]. split; assumption.
        * apply IH; [apply wf_update; exact W|exact H].
  Qed.

  Lemma fletcher_ok : forall fuel s t prev curr,
    good s t -> ok (fletcher phi prm p0 fuel s t prev curr) = true ->
    let r := fletcher phi prm p0 fuel s t prev curr in
    good (rs r) (rt r) /\ armijo prm p0 (rs r) (rt r) = true /\ swolfe prm p0 (rs r) = true.
  Proof.
    induction fuel as [|k IH]; intros s t prev curr G H; simpl in *.
    - discriminate.
    - destruct (negb (armijo prm p0 s t) || (st_f prev <=? st_f curr)) eqn:C1.
      + apply zoom_ok; [eapply good_wf; exact G|exact H].
      + apply orb_false_iff in C1. destruct C1 as [C1 _]. apply negb_false_iff in C1.
        destruct (swolfe prm p0 s) eqn:SW; [simpl; repeat split; try assumption; apply G|].
        destruct (negb (has_descent (cur s))) eqn:D.
        * apply zoom_ok; [eapply good_wf; exact G|exact H].
        * match type of H with context [update s ?x] => set (t' := x) in * end; change (phi (cnt s) t') with (cur (update s t')) in *.
          destruct (negb (pv (cur (update s t')))) eqn:V'; [simpl in H; discriminate|].
          apply IH; [apply good_update; eapply good_wf; exact G|exact H].
  Qed.

  (* ---------- More-Thuente: success is at the last probe ---------- *)
  Lemma morethuente_ok : forall fuel s stp m,
    good s stp -> ok (morethuente phi prm p0 fuel s stp m) = true ->
    let r := morethuente phi prm p0 fuel s stp m in good (rs r) (rt r).
  Proof.
    induction fuel as [|k IH]; intros s stp m G H.
    - simpl in H. discriminate.
    - cbn [morethuente] in *.
      destruct (mt_stop prm p0 (cur s) stp m); [simpl; exact G|].
      destruct (mt_next prm p0 (cur s) stp m) as [stp' m'].
      change (phi (cnt s) stp') with (cur (update s stp')) in *.
      destruct (negb (pv (cur (update s stp')))) eqn:V'; [simpl in H; discriminate|].
      apply IH; [apply good_update; eapply good_wf; exact G|exact H].
  Qed.

  (* ---------- CG_DESCENT: success is at the last probe ---------- *)
  Definition goodiv (iv : interval) : Prop := good (i_s iv) (i_step iv).

  Lemma goodiv_move : forall iv t, wf (i_s iv) -> goodiv (cg_move phi iv t).
  Proof. intros iv t W. unfold goodiv, cg_move; simpl. apply good_update; exact W. Qed.

  Lemma goodiv_updateA : forall iv, goodiv iv -> goodiv (cg_updateA iv).
  Proof. intros iv G; exact G. Qed.
  Lemma goodiv_updateB : forall iv, goodiv iv -> goodiv (cg_updateB iv).
  Proof. intros iv G; exact G. Qed.
  Lemma goodiv_setA : forall iv a, goodiv iv -> goodiv (cg_setA iv a).
  Proof. intros iv a G; exact G. Qed.
  Lemma goodiv_dec : forall iv, goodiv iv -> goodiv (cg_dec iv).
  Proof. intros iv G; exact G. Qed.

  Lemma goodiv_updateU : forall fuel iv, goodiv iv -> goodiv (cg_updateU phi prm p0 fuel iv).
  Proof.
    induction fuel as [|k IH]; intros iv G; simpl; [exact G|].
    destruct (negb (0 <? i_mi iv)%Z || negb (stpmin <? st_t (i_b iv) - st_t (i_a iv))); [exact G|].
    match goal with |- context [cg_move phi iv ?x] => set (t := x) end.
    assert (G1 : goodiv (cg_move phi iv t)) by (apply goodiv_move; eapply good_wf; exact G).
    destruct (negb (pv (iv_cur (cg_move phi iv t)))); [exact G1|].
    destruct (negb (has_descent (iv_cur (cg_move phi iv t)))); [apply goodiv_updateB; exact G1|].
    destruct (has_approx_armijo p0 (iv_cur (cg_move phi iv t)) (cg_epsk prm p0)); apply IH.
    - apply goodiv_dec, goodiv_updateA; exact G1.
    - apply goodiv_dec, goodiv_updateB; exact G1.
  Qed.

  Lemma goodiv_update : forall iv, goodiv iv -> goodiv (cg_update phi prm p0 iv).
  Proof.
    intros iv G. unfold cg_update.
    destruct ((i_step iv <=? st_t (i_a iv)) || (st_t (i_b iv) <=? i_step iv)); [exact G|].
    destruct (negb (has_descent (iv_cur iv))); [exact G|].
    destruct (has_approx_armijo p0 (iv_cur iv) (cg_epsk prm p0)); [exact G|].
    apply goodiv_updateU. exact G.
  Qed.

  Lemma goodiv_bracket : forall fuel iv la, goodiv iv -> goodiv (cg_bracket phi prm p0 fuel iv la).
  Proof.
    induction fuel as [|k IH]; intros iv la G; simpl; [exact G|].
    destruct (negb (0 <? i_mi iv)%Z || negb (pv (iv_cur iv))); [exact G|].
    destruct (negb (has_descent (iv_cur iv))); [exact G|].
    destruct (negb (has_approx_armijo p0 (iv_cur iv) (cg_epsk prm p0))).
    - apply goodiv_updateU. exact G.
    - apply IH. apply goodiv_dec, goodiv_move. eapply good_wf; exact G.
  Qed.

  Lemma goodiv_mucd : forall iv t, goodiv iv -> goodiv (snd (cg_mucd phi prm p0 iv t)).
  Proof.
    intros iv t G. unfold cg_mucd.
    destruct (negb (is_finite t)); [exact G|].
    assert (G1 : goodiv (cg_move phi iv t)) by (apply goodiv_move; eapply good_wf; exact G).
    destruct (cg_done prm p0 (cg_move phi iv t) true); simpl; [exact G1|].
    apply goodiv_update. exact G1.
  Qed.

  Lemma cg_ret_ok : forall iv br, goodiv iv -> good (rs (cg_ret iv br)) (rt (cg_ret iv br)).
  Proof. intros iv br G; exact G. Qed.

  Lemma cg_loop_ok : forall fuel i iv,
    goodiv iv -> ok (cg_loop phi prm p0 fuel i iv) = true ->
    let r := cg_loop phi prm p0 fuel i iv in good (rs r) (rt r).
  Proof.
    induction fuel as [|k IH]; intros i iv G H; simpl in *.
    - discriminate.
    - destruct (negb (i <? i_mi iv)%Z || negb (stpmin <? st_t (i_b iv) - st_t (i_a iv))); [simpl in H; discriminate|].
      pose proof (goodiv_mucd iv (secant (i_a iv) (i_b iv)) G) as G1.
      destruct (cg_mucd phi prm p0 iv (secant (i_a iv) (i_b iv))) as [d1 iv1]; simpl in G1.
      destruct d1; [apply cg_ret_ok; exact G1|].
      match type of H with
      | context [let '(d2, iv2) := ?e in _] =>
        assert (G2 : goodiv (snd e));
          [ | destruct e as [d2 iv2]; simpl in G2 ]
      end.
      { destruct (abs (secant (i_a iv) (i_b iv) - st_t (i_a iv1)) <? eps0); [apply goodiv_mucd; exact G1|].
        destruct (abs (secant (i_a iv) (i_b iv) - st_t (i_b iv1)) <? eps0); [apply goodiv_mucd; exact G1|].
        exact G1. }
      destruct d2; [apply cg_ret_ok; exact G2|].
      destruct (cg_gamma prm * (st_t (i_b iv) - st_t (i_a iv)) <? st_t (i_b iv2) - st_t (i_a iv2)).
      + pose proof (goodiv_mucd iv2 ((st_t (i_a iv2) + st_t (i_b iv2)) / 2) G2) as G3.
        destruct (cg_mucd phi prm p0 iv2 ((st_t (i_a iv2) + st_t (i_b iv2)) / 2)) as [d3 iv3]; simpl in G3.
        destruct d3; [apply cg_ret_ok; exact G3|].
        apply IH; assumption.
      + apply IH; assumption.
  Qed.

  Lemma cgdescent_ok : forall s t,
    good s t -> ok (cgdescent phi prm p0 s t) = true ->
    let r := cgdescent phi prm p0 s t in good (rs r) (rt r).
  Proof.
    intros s t G H. unfold cgdescent in *.
    set (iv := mkIv t (step0 p0) (step_of t (cur s)) s (maxit prm)) in *.
    assert (G0 : goodiv iv) by exact G.
    destruct (cg_done prm p0 iv false); [apply cg_ret_ok; exact G0|].
    pose proof (goodiv_bracket (fuel_of (maxit prm)) iv (i_a iv) G0) as G1.
    destruct (cg_done prm p0 (cg_bracket phi prm p0 (fuel_of (maxit prm)) iv (i_a iv)) true);
      [apply cg_ret_ok; exact G1|].
    apply cg_loop_ok; assumption.
  Qed.

  (* ---------- lsearchk_t::get ---------- *)
  Lemma shrink_good : forall fuel s t,
    wf s -> ((0 < fuel)%nat \/ (trace s <> [] /\ pv (cur s) = false)) ->
    good (fst (shrink phi fuel s t)) (snd (shrink phi fuel s t)).
  Proof.
    induction fuel as [|k IH]; intros s t W C; simpl.
    - destruct C as [C|[C1 C2]]; [lia|].
      split; [exact W|]. split; [exact C1|]. intros V. rewrite V in C2. discriminate.
    - change (phi (cnt s) t) with (cur (update s t)).
      destruct (pv (cur (update s t))) eqn:V; simpl.
      + apply good_update; exact W.
      + apply IH; [apply wf_update; exact W|]. right. split; [simpl; discriminate|exact V].
  Qed.

  Lemma grow_good : forall fuel s t,
    good s t -> good (fst (snd (grow phi p0 fuel s t))) (snd (snd (grow phi p0 fuel s t))).
  Proof.
    induction fuel as [|k IH]; intros s t G; simpl; [exact G|].
    destruct (abs (pf (cur s) - pf p0) <? eps1); [|exact G].
    change (phi (cnt s) (t * 3)) with (cur (update s (t * 3))).
    destruct (pv (cur (update s (t * 3)))) eqn:V; simpl.
    - apply IH. apply good_update. eapply good_wf; exact G.
    - apply good_update. eapply good_wf; exact G.
  Qed.

  Definition advertised (a : alg) (r : result) : Prop :=
    match a with
    | Backtrack => armijo prm p0 (rs r) (rt r) = true
    | Lemarechal => armijo prm p0 (rs r) (rt r) = true /\ wolfe prm p0 (rs r) = true
    | Fletcher => armijo prm p0 (rs r) (rt r) = true /\ swolfe prm p0 (rs r) = true
    | _ => True
    end.

  Lemma do_get_ok : forall a s t,
    good s t -> ok (do_get phi prm p0 a s t) = true ->
    let r := do_get phi prm p0 a s t in good (rs r) (rt r) /\ advertised a r.
  Proof.
    intros a s t G H. destruct a; simpl in *.
    - apply backtrack_ok; assumption.
    - apply lemarechal_ok; assumption.
    - apply fletcher_ok; assumption.
    - split; [apply morethuente_ok; assumption|exact I].
    - split; [apply cgdescent_ok; assumption|exact I].
  Qed.

  Lemma ls_get_ok : forall a t0,
    (0 < maxit prm)%Z -> ok (ls_get phi prm p0 a t0) = true ->
    let r := ls_get phi prm p0 a t0 in good (rs r) (rt r) /\ advertised a r.
  Proof.
    intros a t0 M H. unfold ls_get in *.
    destruct (negb (has_descent p0)); [simpl in H; discriminate|].
    pose proof (shrink_good (fuel_of (maxit prm)) (init_state p0) (init_step t0) wf_init) as G1.
    destruct (shrink phi (fuel_of (maxit prm)) (init_state p0) (init_step t0)) as [s1 t1]; simpl in G1.
    assert (G1' : good s1 t1) by (apply G1; left; unfold fuel_of; lia).
    destruct (src_ls_stale_guard_f (pv (cur s1))); [simpl in H; discriminate|].
    pose proof (grow_good (fuel_of (maxit prm)) s1 t1 G1') as G2.
    destruct (grow phi p0 (fuel_of (maxit prm)) s1 t1) as [go [s2 t2]]; simpl in G2.
    destruct go; [|simpl in H; discriminate].
    apply do_get_ok; assumption.
  Qed.

  Lemma ls_get_refuses : forall a t0,
    (pg p0 <? 0) = false -> ls_get phi prm p0 a t0 = mkR false t0 (init_state p0).
  Proof.
    intros a t0 D. unfold ls_get. rewrite has_descent_spec, D. reflexivity.
  Qed.
End Proofs.

(* ---------- backtrack and CG_DESCENT never report success on an invalid state ---------- *)
Section Valid.
  Variable phi : Z -> float -> probe.
  Variable prm : params.
  Variable p0 : probe.

  Lemma backtrack_valid : forall fuel s t,
    ok (backtrack phi prm p0 fuel s t) = true -> pv (cur (rs (backtrack phi prm p0 fuel s t))) = true.
  Proof.
    induction fuel as [|k IH]; intros s t H; cbn [backtrack] in *.
    - simpl in H. discriminate.
    - destruct (negb (pv (cur s))) eqn:V; [simpl in H; discriminate|].
      apply negb_false_iff in V.
      destruct (armijo prm p0 s t); [simpl; exact V|].
      match type of H with context [C07_Defs.update phi s ?x] => set (t' := x) in * end.
      destruct (pv (cur (C07_Defs.update phi s t'))) eqn:V'; [|simpl in H; discriminate].
      apply IH. exact H.
  Qed.

  Lemma cg_loop_valid : forall fuel i iv,
    ok (cg_loop phi prm p0 fuel i iv) = true -> pv (cur (rs (cg_loop phi prm p0 fuel i iv))) = true.
  Proof.
    induction fuel as [|k IH]; intros i iv H; cbn [cg_loop] in *.
    - simpl in H. discriminate.
    - destruct (negb (i <? i_mi iv)%Z || negb (stpmin <? st_t (i_b iv) - st_t (i_a iv))); [simpl in H; discriminate|].
      destruct (cg_mucd phi prm p0 iv (secant (i_a iv) (i_b iv))) as [d1 iv1].
      destruct d1; [exact H|].
      match type of H with
      | context [let '(d2, iv2) := ?e in _] => destruct e as [d2 iv2]
      end.
      destruct d2; [exact H|].
      destruct (cg_gamma prm * (st_t (i_b iv) - st_t (i_a iv)) <? st_t (i_b iv2) - st_t (i_a iv2)).
      + destruct (cg_mucd phi prm p0 iv2 ((st_t (i_a iv2) + st_t (i_b iv2)) / 2)) as [d3 iv3].
        destruct d3; [exact H|]. apply IH. exact H.
      + apply IH. exact H.
  Qed.

  Lemma cgdescent_valid : forall s t,
    ok (cgdescent phi prm p0 s t) = true -> pv (cur (rs (cgdescent phi prm p0 s t))) = true.
  Proof.
    intros s t H. unfold cgdescent in *.
    match type of H with context [cg_done prm p0 ?x false] => set (iv := x) in * end.
    destruct (cg_done prm p0 iv false); [exact H|].
    destruct (cg_done prm p0 (cg_bracket phi prm p0 (fuel_of (maxit prm)) iv (i_a iv)) true); [exact H|].
    apply cg_loop_valid. exact H.
  Qed.

End Valid.

(* ---------- a success never carries an invalid state (guard after the `*0.3` loop + every later update is checked) ---------- *)
From LN Require Import C07_Statements.

Section Stale.
  Variable phi : Z -> float -> probe.
  Variable prm : params.
  Variable p0 : probe.
  Local Notation update := (C07_Defs.update phi).

  Lemma grow_keeps : forall fuel s t,
    fst (grow phi p0 fuel s t) = true ->
    pv (cur (fst (snd (grow phi p0 fuel s t)))) = true \/ fst (snd (grow phi p0 fuel s t)) = s.
  Proof.
    induction fuel as [|k IH]; intros s t G; cbn [grow] in *.
    - right. reflexivity.
    - destruct (abs (pf (cur s) - pf p0) <? eps1); [|right; reflexivity].
      change (phi (cnt s) (t * 3)) with (cur (update s (t * 3))) in *.
      destruct (pv (cur (update s (t * 3)))) eqn:V; [|simpl in G; discriminate].
      left. destruct (IH _ _ G) as [H|H]; [exact H|]. rewrite H. exact V.
  Qed.

  Lemma zoom_valid : forall fuel s lo hi,
    ok (zoom phi prm p0 fuel s lo hi) = true -> pv (cur (rs (zoom phi prm p0 fuel s lo hi))) = true.
  Proof.
    induction fuel as [|k IH]; intros s lo hi H; cbn [zoom] in *.
    - simpl in H. discriminate.
    - destruct (negb (eps0 <? abs (st_t lo - st_t hi))); [simpl in H; discriminate|].
      match type of H with context [update s ?x] => set (t := x) in * end.
      destruct (negb (pv (cur (update s t)))) eqn:V; [simpl in H; discriminate|].
      apply negb_false_iff in V.
      destruct (negb (armijo prm p0 (update s t) t) || (st_f lo <=? pf (cur (update s t)))); [apply IH; exact H|].
      destruct (swolfe prm p0 (update s t)); [simpl; exact V|apply IH; exact H].
  Qed.

  Lemma lemarechal_keeps : forall fuel s t L R,
    ok (lemarechal phi prm p0 fuel s t L R) = true ->
    pv (cur (rs (lemarechal phi prm p0 fuel s t L R))) = true \/ rs (lemarechal phi prm p0 fuel s t L R) = s.
  Proof.
    induction fuel as [|k IH]; intros s t L R H; cbn [lemarechal] in *.
    - simpl in H. discriminate.
    - destruct (armijo prm p0 s t).
      + destruct (wolfe prm p0 s); [right; reflexivity|].
        match type of H with context [update s ?x] => set (t' := x) in * end.
        destruct (pv (cur (update s t'))) eqn:V; [|simpl in H; discriminate].
        left. destruct (IH _ _ _ _ H) as [E|E]; [exact E|]. rewrite E. exact V.
      + match type of H with context [update s ?x] => set (t' := x) in * end.
        destruct (pv (cur (update s t'))) eqn:V; [|simpl in H; discriminate].
        left. destruct (IH _ _ _ _ H) as [E|E]; [exact E|]. rewrite E. exact V.
  Qed.

  Lemma fletcher_keeps : forall fuel s t prev curr,
    ok (fletcher phi prm p0 fuel s t prev curr) = true ->
    pv (cur (rs (fletcher phi prm p0 fuel s t prev curr))) = true \/ rs (fletcher phi prm p0 fuel s t prev curr) = s.
  Proof.
    induction fuel as [|k IH]; intros s t prev curr H; cbn [fletcher] in *.
    - simpl in H. discriminate.
    - destruct (negb (armijo prm p0 s t) || (st_f prev <=? st_f curr)); [left; apply zoom_valid; exact H|].
      destruct (swolfe prm p0 s); [right; reflexivity|].
      destruct (negb (has_descent (cur s))); [left; apply zoom_valid; exact H|].
      match type of H with context [update s ?x] => set (t' := x) in * end.
      destruct (negb (pv (cur (update s t')))) eqn:V; [simpl in H; discriminate|].
      apply negb_false_iff in V.
      left. destruct (IH _ _ _ _ H) as [E|E]; [exact E|]. rewrite E. exact V.
  Qed.

  Lemma morethuente_keeps : forall fuel s stp m,
    ok (morethuente phi prm p0 fuel s stp m) = true ->
    pv (cur (rs (morethuente phi prm p0 fuel s stp m))) = true \/ rs (morethuente phi prm p0 fuel s stp m) = s.
  Proof.
    induction fuel as [|k IH]; intros s stp m H; cbn [morethuente] in *.
    - simpl in H. discriminate.
    - destruct (mt_stop prm p0 (cur s) stp m); [right; reflexivity|].
      destruct (mt_next prm p0 (cur s) stp m) as [stp' m'].
      destruct (negb (pv (cur (update s stp')))) eqn:V; [simpl in H; discriminate|].
      apply negb_false_iff in V.
      left. destruct (IH _ _ _ H) as [E|E]; [exact E|]. rewrite E. exact V.
  Qed.

  Lemma do_get_keeps : forall a s t,
    ok (do_get phi prm p0 a s t) = true ->
    pv (cur (rs (do_get phi prm p0 a s t))) = true \/ rs (do_get phi prm p0 a s t) = s.
  Proof.
    intros a s t H. destruct a; cbn [do_get] in *.
    - left. apply backtrack_valid. exact H.
    - apply lemarechal_keeps. exact H.
    - apply fletcher_keeps. exact H.
    - apply morethuente_keeps. exact H.
    - left. apply cgdescent_valid. exact H.
  Qed.

  Lemma stale_guard_spec : forall v, src_ls_stale_guard_f v = negb v.
  Proof. reflexivity. Qed.

  (* all five: a success never carries an invalid state *)
  Lemma ls_get_valid : forall a t0,
    ok (ls_get phi prm p0 a t0) = true -> pv (cur (rs (ls_get phi prm p0 a t0))) = true.
  Proof.
    intros a t0 H. unfold ls_get in *.
    destruct (negb (has_descent p0)); [simpl in H; discriminate|].
    destruct (shrink phi (fuel_of (maxit prm)) (init_state p0) (init_step t0)) as [s1 t1].
    rewrite stale_guard_spec in *.
    destruct (pv (cur s1)) eqn:V1; cbn [negb] in *; [|simpl in H; discriminate].
    pose proof (grow_keeps (fuel_of (maxit prm)) s1 t1) as G.
    destruct (grow phi p0 (fuel_of (maxit prm)) s1 t1) as [go [s2 t2]]; cbn [fst snd] in G.
    destruct go; [|simpl in H; discriminate].
    assert (V2 : pv (cur s2) = true) by (destruct (G eq_refl) as [E|E]; [exact E|rewrite E; exact V1]).
    destruct (do_get_keeps a s2 t2 H) as [E|E]; [exact E|rewrite E; exact V2].
  Qed.
End Stale.
